// Hardening round: ops for the exported entry points that the first round did not drive
// (HashToBig, CheckBlockHeaderContext, CheckBlockHeaderSanity, BlockChain.CalcNextRequiredDifficulty
// and CalcPastMedianTime on real blockNodes, blockNode.workSum, calcEasiestDifficulty, the derived
// retarget fields computed by blockchain.New), value-semantics re-observation and a shared-state run.
package p09

import (
	"bytes"
	"encoding/hex"
	"fmt"
	"math/big"
	"os"
	"path/filepath"
	"strconv"
	"strings"
	"sync"
	"sync/atomic"
	"time"

	"github.com/btcsuite/btcd/blockchain"
	"github.com/btcsuite/btcd/chaincfg/v2"
	"github.com/btcsuite/btcd/chainhash/v2"
	"github.com/btcsuite/btcd/database"
	_ "github.com/btcsuite/btcd/database/ffldb"
	"github.com/btcsuite/btcd/wire/v2"
	"verifharness/core"
)

func parseParams(f []string) *chaincfg.Params {
	return &chaincfg.Params{
		PowLimit: parseSignedHex(f[0]), PowLimitBits: u32hex(f[1]),
		PoWNoRetargeting: b01(f[2]), ReduceMinDifficulty: b01(f[3]),
		MinDiffReductionTime:     time.Duration(i64(f[4])) * time.Second,
		TargetTimespan:           time.Duration(i64(f[5])) * time.Second,
		TargetTimePerBlock:       time.Duration(i64(f[6])) * time.Second,
		RetargetAdjustmentFactor: i64(f[7]), EnforceBIP94: b01(f[8]),
	}
}

// tip-first "t:b" tokens -> genesis-first slices
func parseChain(hs []string) (times []int64, bits []uint32) {
	for i := len(hs) - 1; i >= 0; i-- {
		tb := strings.Split(hs[i], ":")
		times = append(times, i64(tb[0]))
		bits = append(bits, u32hex(tb[1]))
	}
	return
}

func hdrChain(times []int64, bits []uint32) *hdr {
	var tip *hdr
	for i := range times {
		tip = &hdr{height: int32(i), bits: bits[i], ts: times[i], parent: tip}
	}
	return tip
}

type fixedTime struct{ t time.Time }

func (f fixedTime) AdjustedTime() time.Time   { return f.t }
func (f fixedTime) AddTimeSample(string, time.Time) {}
func (f fixedTime) Offset() time.Duration     { return 0 }

func ruleClass(err error) string {
	if err == nil {
		return "ok"
	}
	if _, ok := err.(blockchain.AssertError); ok {
		return "assert"
	}
	if re, ok := err.(blockchain.RuleError); ok {
		switch re.ErrorCode {
		case blockchain.ErrUnexpectedDifficulty:
			return "badDifficulty"
		case blockchain.ErrTimeTooOld:
			return "timeTooOld"
		case blockchain.ErrTimewarpAttack:
			return "timeWarp"
		case blockchain.ErrHighHash:
			return "highHash"
		case blockchain.ErrInvalidTime:
			return "invalidTime"
		case blockchain.ErrTimeTooNew:
			return "timeTooNew"
		}
		return "err:" + re.ErrorCode.String()
	}
	return "err"
}

// ctxFails counts the failing clauses of the header checks for header (bits, t) on the history
// (times, bits genesis first): target range (when rng), difficulty, MTP, BIP94. The property fixes
// accept/reject; which error is reported when several clauses fail is not protocol-defined, so such
// rejections are reported as "reject:multi" on both sides.
func ctxFails(p *chaincfg.Params, times []int64, bits []uint32, hb uint32, ht int64, rng bool) int {
	n := 0
	if rng {
		t := blockchain.CompactToBig(hb)
		if t.Sign() <= 0 || t.Cmp(p.PowLimit) > 0 {
			n++
		}
	}
	tip := hdrChain(times, bits)
	c := cctx{p}
	if want, err := safeNext(tip, time.Unix(ht, 0), c); err == nil && want != hb {
		n++
	}
	if !(ht > safeMTP(tip)) {
		n++
	}
	if p.EnforceBIP94 && !blockchain.VerifAssertNoTimeWarp(int32(len(times)), c.BlocksPerRetarget(),
		time.Unix(ht, 0), time.Unix(times[len(times)-1], 0)) {
		n++
	}
	return n
}

func coarsen(v string, fails int) string {
	if v != "ok" && v != "assert" && fails >= 2 {
		return "reject:multi"
	}
	return v
}

func execHard(f []string) string {
	switch f[1] {
	case "h2b":
		raw, _ := hex.DecodeString(f[2])
		var h chainhash.Hash
		copy(h[:], raw)
		keep := h
		a := blockchain.HashToBig(&h)
		s := a.Text(16)
		other := h
		other[0] ^= 0xff
		other[31] ^= 0x01
		b := blockchain.HashToBig(&other)
		b.Lsh(b, 3)
		if a.Text(16) != s { // the first result must survive later calls
			return "aliased"
		}
		a.Lsh(a, 3) // and the next call must not see this
		if h != keep {
			return "input-mutated"
		}
		if blockchain.HashToBig(&h).Text(16) != s {
			return "aliased"
		}
		return s
	case "hctx":
		p := parseParams(f[2:11])
		limKeep := new(big.Int).Set(p.PowLimit)
		fast, skipcp, impl := b01(f[11]), b01(f[12]), f[13]
		header := &wire.BlockHeader{Version: 0x20000000, Bits: u32hex(f[14]), Timestamp: time.Unix(i64(f[15]), 0)}
		times, bits := parseChain(f[16:])
		flags := blockchain.BFNone
		if fast {
			flags = blockchain.BFFastAdd
		}
		var err error
		if impl == "n" {
			c := blockchain.VerifNewC09Chain(p, times, bits)
			err = blockchain.CheckBlockHeaderContext(header, c.Tip(), flags, c.B, skipcp)
		} else {
			err = blockchain.CheckBlockHeaderContext(header, hdrChain(times, bits), flags, cctx{p}, skipcp)
		}
		if p.PowLimit.Cmp(limKeep) != 0 {
			return "params-mutated"
		}
		return coarsen(ruleClass(err), ctxFails(p, times, bits, header.Bits, header.Timestamp.Unix(), false))
	case "hsan":
		raw, _ := hex.DecodeString(f[2])
		var h wire.BlockHeader
		if err := h.Deserialize(bytes.NewReader(raw)); err != nil {
			return "bad-op"
		}
		h.Timestamp = time.Unix(h.Timestamp.Unix(), i64(f[5]))
		lim := parseSignedHex(f[3])
		flags := blockchain.BFNone
		if b01(f[4]) {
			flags = blockchain.BFNoPoWCheck
		}
		err := blockchain.CheckBlockHeaderSanity(&h, lim, fixedTime{time.Unix(i64(f[6]), 0)}, flags)
		fails := 0
		target := blockchain.CompactToBig(h.Bits)
		if target.Sign() <= 0 || target.Cmp(lim) > 0 {
			fails++
		}
		hh := h.BlockHash()
		if flags == blockchain.BFNone && blockchain.HashToBig(&hh).Cmp(target) > 0 {
			fails++
		}
		if i64(f[5]) != 0 {
			fails++
		}
		if h.Timestamp.Unix() > i64(f[6])+blockchain.MaxTimeOffsetSeconds {
			fails++
		}
		if re, ok := err.(blockchain.RuleError); ok && re.ErrorCode == blockchain.ErrUnexpectedDifficulty {
			return coarsen("badTarget", fails)
		}
		return coarsen(ruleClass(err), fails)
	case "nextn":
		p := parseParams(f[2:11])
		limKeep := new(big.Int).Set(p.PowLimit)
		times, bits := parseChain(f[12:])
		c := blockchain.VerifNewC09Chain(p, times, bits)
		got, err := c.B.CalcNextRequiredDifficulty(subSecond(i64(f[11])))
		if p.PowLimit.Cmp(limKeep) != 0 {
			return "params-mutated"
		}
		if err != nil {
			return "assert"
		}
		return fmt.Sprintf("%08x", got)
	case "mtpn":
		var times []int64
		for i := len(f) - 1; i >= 2; i-- {
			times = append(times, i64(f[i]))
		}
		c := blockchain.VerifNewC09Chain(&chaincfg.Params{TargetTimespan: time.Second, TargetTimePerBlock: time.Second,
			RetargetAdjustmentFactor: 1}, times, make([]uint32, len(times)))
		a := blockchain.CalcPastMedianTime(c.Tip()).Unix()
		// a second observation after walking the same nodes must agree (the sort works on a copy)
		if b := blockchain.CalcPastMedianTime(c.Tip()).Unix(); a != b {
			return "unstable"
		}
		for n, i := c.Tip(), len(times)-1; n != nil; n, i = n.Parent(), i-1 {
			if n.Timestamp() != times[i] {
				return "nodes-mutated"
			}
		}
		return strconv.FormatInt(a, 10)
	case "worksum":
		var bits []uint32
		for i := len(f) - 1; i >= 2; i-- {
			bits = append(bits, u32hex(f[i]))
		}
		c := blockchain.VerifNewC09Chain(&chaincfg.Params{TargetTimespan: time.Second, TargetTimePerBlock: time.Second,
			RetargetAdjustmentFactor: 1}, make([]int64, len(bits)), bits)
		// every ancestor's cumulative work is re-observed after its descendants were built
		acc := new(big.Int)
		for i, ws := range c.WorkSums() {
			acc.Add(acc, blockchain.CalcWork(bits[i]))
			if ws.Cmp(acc) != 0 {
				return fmt.Sprintf("ancestor-sum-changed@%d", i)
			}
		}
		return c.WorkSum().Text(16)
	case "easiest":
		p := parseParams(f[2:11])
		limKeep := new(big.Int).Set(p.PowLimit)
		c := blockchain.VerifNewC09Chain(p, nil, nil)
		got := c.Easiest(u32hex(f[11]), time.Duration(i64(f[12]))*time.Second)
		if p.PowLimit.Cmp(limKeep) != 0 {
			return "params-mutated"
		}
		return fmt.Sprintf("%08x", got)
	case "wpar":
		// no hidden shared state: 8 goroutines run the pure functions over the same inputs from
		// different offsets; every goroutine must reproduce the sequential answers.
		cs := f[2:]
		one := func(s string) string {
			c := u32hex(s)
			n := blockchain.CompactToBig(c)
			return blockchain.CalcWork(c).Text(16) + "/" + fmt.Sprintf("%08x", blockchain.BigToCompact(n))
		}
		hb := func(s string) string { // HashToBig of a hash derived from the compact (self-consistency only)
			var h chainhash.Hash
			c := u32hex(s)
			for i := range h {
				h[i] = byte(c >> (8 * uint(i%4)) * uint32(i+1))
			}
			return blockchain.HashToBig(&h).Text(16)
		}
		one0 := one
		wantH := make(map[string]string, len(cs))
		for _, s := range cs {
			wantH[s] = hb(s)
		}
		hbad := int32(0)
		one = func(s string) string {
			if hb(s) != wantH[s] {
				atomic.StoreInt32(&hbad, 1)
			}
			return one0(s)
		}
		defer func() { _ = hbad }()
		want := make([]string, len(cs))
		for i, s := range cs {
			want[i] = one(s)
		}
		var wg sync.WaitGroup
		bad := make([]bool, 8)
		for w := 0; w < 8; w++ {
			wg.Add(1)
			go func(w int) {
				defer wg.Done()
				defer func() {
					if r := recover(); r != nil {
						bad[w] = true
					}
				}()
				for rep := 0; rep < 4; rep++ {
					for k := range cs {
						i := (k + w*len(cs)/8) % len(cs)
						if one(cs[i]) != want[i] {
							bad[w] = true
						}
					}
				}
			}(w)
		}
		wg.Wait()
		for _, b := range bad {
			if b {
				return "shared-state"
			}
		}
		if atomic.LoadInt32(&hbad) != 0 {
			return "shared-state"
		}
		return strings.Join(want, " ")
	case "ctxparams":
		return realCtxParams(i64(f[2]), i64(f[3]), i64(f[4]))
	case "phdr":
		return realProcessHeaders(parseParams(f[2:11]), f[12:])
	case "adj":
		return realAdjustedTime(f[2:])
	case "reuse":
		return execReuse(f)
	case "genpanic":
		return "generator-panicked" // marker emitted by Generate: the Lean side answers bad-op, so the run fails with a line
	case "ptree":
		return realProcessTree(parseParams(f[2:11]), f[12:])
	case "hfork":
		return execFork(f)
	}
	return "bad-op"
}

// realCtxParams opens a real BlockChain (blockchain.New on a fresh ffldb) and reads the retarget fields
// through the exported ChainCtx methods.
func realCtxParams(tts, ttpb, af int64) string {
	p := chaincfg.RegressionNetParams
	p.Deployments = [chaincfg.DefinedDeployments]chaincfg.ConsensusDeployment{}
	p.TargetTimespan = time.Duration(tts) * time.Second
	p.TargetTimePerBlock = time.Duration(ttpb) * time.Second
	p.RetargetAdjustmentFactor = af
	base := os.TempDir()
	if st, err := os.Stat("/dev/shm"); err == nil && st.IsDir() {
		base = "/dev/shm"
	}
	dir, err := os.MkdirTemp(base, "c09db")
	if err != nil {
		return "err:tmp"
	}
	defer os.RemoveAll(dir)
	db, err := database.Create("ffldb", filepath.Join(dir, "db"), p.Net)
	if err != nil {
		return "err:db"
	}
	defer db.Close()
	chain, err := blockchain.New(&blockchain.Config{DB: db, ChainParams: &p, TimeSource: blockchain.NewMedianTime()})
	if err != nil {
		return "err:new"
	}
	bits, err := chain.CalcNextRequiredDifficulty(time.Unix(p.GenesisBlock.Header.Timestamp.Unix()+1, 0))
	if err != nil {
		return "err:next"
	}
	return fmt.Sprintf("%d %d %d %08x", chain.BlocksPerRetarget(), chain.MinRetargetTimespan(), chain.MaxRetargetTimespan(), bits)
}

var errPanic = fmt.Errorf("panic")

// safeNext calls the real calcNextRequiredDifficulty; a panic of the real code becomes an error so that
// generators (which use the real code only to shape inputs) and goroutines survive a broken tree and the
// disagreement is reported per case.
func safeNext(last blockchain.HeaderCtx, t time.Time, c blockchain.ChainCtx) (bits uint32, err error) {
	defer func() {
		if r := recover(); r != nil {
			bits, err = 0, errPanic
		}
	}()
	return blockchain.VerifCalcNextRequiredDifficulty(last, t, c)
}

// safeMTP: CalcPastMedianTime of the real code; a panic becomes an impossible value
func safeMTP(node blockchain.HeaderCtx) (v int64) {
	defer func() {
		if r := recover(); r != nil {
			v = -1 << 62
		}
	}()
	return blockchain.CalcPastMedianTime(node).Unix()
}

func safeCtx(header *wire.BlockHeader, node blockchain.HeaderCtx, c blockchain.ChainCtx) (err error) {
	defer func() {
		if r := recover(); r != nil {
			err = errPanic
		}
	}()
	return blockchain.CheckBlockHeaderContext(header, node, blockchain.BFNone, c, true)
}

func paramsSnapshot(p *chaincfg.Params) string {
	return paramsLine(p) + fmt.Sprintf(" %p", p.PowLimit)
}

// triple = required bits / context verdict (coarsened) / MTP for header (hb, ht) on top of node
func triple(p *chaincfg.Params, node blockchain.HeaderCtx, c blockchain.ChainCtx, times []int64, bits []uint32, hb uint32, ht int64) string {
	req := "assert"
	if b, err := safeNext(node, time.Unix(ht, 0), c); err == nil {
		req = fmt.Sprintf("%08x", b)
	} else if err == errPanic {
		req = "panic"
	}
	header := &wire.BlockHeader{Version: 0x20000000, Bits: hb, Timestamp: time.Unix(ht, 0)}
	err := safeCtx(header, node, c)
	v := coarsen(ruleClass(err), ctxFails(p, times, bits, hb, ht, false))
	if err == errPanic {
		v = "panic"
	}
	return req + "/" + v + "/" + strconv.FormatInt(safeMTP(node), 10)
}

// execReuse: inputs are values too. ONE Params, ONE BlockChain with ONE chain of real blockNodes and ONE
// harness HeaderCtx chain are created once and used for every item of the line - sequentially, then from
// 8 goroutines at once, then sequentially again; every answer must be the same each time (and equal
// Lean's answer for that item), and the shared inputs must be unchanged afterwards.
func execReuse(f []string) string {
	p := parseParams(f[2:11])
	type item struct {
		d  int
		t  int64
		hb uint32
	}
	var items []item
	for _, tok := range strings.Split(f[11], ",") {
		x := strings.Split(tok, ":")
		items = append(items, item{int(i64(x[0])), i64(x[1]), u32hex(x[2])})
	}
	times, bits := parseChain(f[12:])
	n := len(times)
	parents := make([]int, n)
	for i := range parents {
		parents[i] = i - 1
	}
	tree := blockchain.VerifNewC09Tree(p, parents, times, bits, n-1)
	mine := hdrChain(times, bits)
	cx := cctx{p}
	pSnap, tSnap := paramsSnapshot(p), tree.Snapshot()
	one := func(k int) string {
		it := items[k]
		m := n - it.d // length of the prefix the item is evaluated on
		a := triple(p, tree.Node(m-1), tree.B, times[:m], bits[:m], it.hb, it.t)
		b := triple(p, mine.RelativeAncestorCtx(int32(it.d)), cx, times[:m], bits[:m], it.hb, it.t)
		if a != b {
			return "impl-differ(" + a + "|" + b + ")"
		}
		if it.d == 0 {
			if got, err := tree.B.CalcNextRequiredDifficulty(time.Unix(it.t, 0)); err == nil &&
				fmt.Sprintf("%08x", got) != strings.SplitN(a, "/", 2)[0] {
				return "method-differs"
			}
		}
		return a
	}
	seq := make([]string, len(items))
	for k := range items {
		seq[k] = one(k)
	}
	var wg sync.WaitGroup
	bad := make([]bool, 8)
	for w := 0; w < 8; w++ {
		wg.Add(1)
		go func(w int) {
			defer wg.Done()
			defer func() {
				if r := recover(); r != nil {
					bad[w] = true
				}
			}()
			for rep := 0; rep < 2; rep++ {
				for j := range items {
					k := (j + w) % len(items)
					if one(k) != seq[k] {
						bad[w] = true
					}
				}
			}
		}(w)
	}
	wg.Wait()
	for _, b := range bad {
		if b {
			return "concurrent-differs"
		}
	}
	for k := len(items) - 1; k >= 0; k-- { // again, other order
		if one(k) != seq[k] {
			return "order-dependent"
		}
	}
	if paramsSnapshot(p) != pSnap || tree.Snapshot() != tSnap {
		return "inputs-mutated"
	}
	for nd, i := blockchain.HeaderCtx(mine), n-1; nd != nil; nd, i = nd.Parent(), i-1 {
		if nd.Timestamp() != times[i] || nd.Bits() != bits[i] {
			return "inputs-mutated"
		}
	}
	return strings.Join(seq, ",")
}

// realProcessTree: like realProcessHeaders, but every header ("i:t:bits") names its parent: the i-th
// known header (0 = genesis, k = the k-th accepted one), so side branches grow next to the main branch
// inside one real BlockChain.
func realProcessTree(q *chaincfg.Params, hs []string) string {
	p := phdrParams(q)
	base := os.TempDir()
	if st, err := os.Stat("/dev/shm"); err == nil && st.IsDir() {
		base = "/dev/shm"
	}
	dir, err := os.MkdirTemp(base, "c09db")
	if err != nil {
		return "err:tmp"
	}
	defer os.RemoveAll(dir)
	db, err := database.Create("ffldb", filepath.Join(dir, "db"), p.Net)
	if err != nil {
		return "err:db"
	}
	defer db.Close()
	chain, err := blockchain.New(&blockchain.Config{DB: db, ChainParams: p, TimeSource: blockchain.NewMedianTime()})
	if err != nil {
		return "err:new"
	}
	type known struct {
		hash  chainhash.Hash
		times []int64
		bits  []uint32
	}
	ks := []known{{*p.GenesisHash, []int64{p.GenesisBlock.Header.Timestamp.Unix()}, []uint32{p.GenesisBlock.Header.Bits}}}
	var out []string
	for k, tok := range hs {
		x := strings.Split(tok, ":")
		if int(i64(x[0])) >= len(ks) { // unknown parent (an earlier header was not accepted)
			out = append(out, "panic")
			continue
		}
		par := ks[int(i64(x[0]))]
		h := wire.BlockHeader{Version: 0x20000000, PrevBlock: par.hash, Bits: u32hex(x[2]), Timestamp: time.Unix(i64(x[1]), 0)}
		h.MerkleRoot[0], h.MerkleRoot[1] = byte(k), byte(k>>8)
		target := blockchain.CompactToBig(h.Bits)
		inRange := target.Sign() > 0 && target.Cmp(p.PowLimit) <= 0
		if inRange {
			for n := uint32(0); n < 1<<22; n++ {
				h.Nonce = n
				hash := h.BlockHash()
				if blockchain.HashToBig(&hash).Cmp(target) <= 0 {
					break
				}
			}
		}
		fails := ctxFails(p, par.times, par.bits, h.Bits, h.Timestamp.Unix(), true)
		_, err := chain.ProcessBlockHeader(&h, blockchain.BFNone, true)
		v := ruleClass(err)
		if re, ok := err.(blockchain.RuleError); ok && re.ErrorCode == blockchain.ErrUnexpectedDifficulty && !inRange {
			v = "badTarget"
		}
		if v == "ok" {
			ks = append(ks, known{h.BlockHash(), append(append([]int64{}, par.times...), h.Timestamp.Unix()),
				append(append([]uint32{}, par.bits...), h.Bits)})
		}
		out = append(out, coarsen(v, fails))
	}
	return strings.Join(out, ",")
}

// execFork: a side branch hanging off the main chain `depth` blocks below its tip, inside ONE BlockChain
// whose best chain is the main branch. Everything about a header on the side tip must be computed from the
// side branch's own ancestors.
func execFork(f []string) string {
	p := parseParams(f[2:11])
	hb, ht, depth := u32hex(f[11]), i64(f[12]), int(i64(f[13]))
	var mainT, sideT []string
	rest := f[14:]
	for i, tok := range rest {
		if tok == "|" {
			mainT, sideT = rest[:i], rest[i+1:]
			break
		}
	}
	mt, mb := parseChain(mainT)
	st, sb := parseChain(sideT)
	nm := len(mt)
	parents := make([]int, 0, nm+len(st))
	for i := 0; i < nm; i++ {
		parents = append(parents, i-1)
	}
	for i := range st {
		if i == 0 {
			parents = append(parents, nm-1-depth)
		} else {
			parents = append(parents, nm+i-1)
		}
	}
	tree := blockchain.VerifNewC09Tree(p, parents, append(append([]int64{}, mt...), st...), append(append([]uint32{}, mb...), sb...), nm-1)
	snap := tree.Snapshot()
	bt := append(append([]int64{}, mt[:nm-depth]...), st...)
	bb := append(append([]uint32{}, mb[:nm-depth]...), sb...)
	out := triple(p, tree.Node(len(parents)-1), tree.B, bt, bb, hb, ht)
	if tree.Snapshot() != snap {
		return "inputs-mutated"
	}
	return out
}

// realAdjustedTime drives NewMedianTime / AddTimeSample / Offset / AdjustedTime. Samples are "id:offsetMs"
// relative to the local clock; the scenario is repeated if the wall-clock second changed while it ran
// (AddTimeSample reads time.Now() itself).
func realAdjustedTime(samples []string) string {
	for attempt := 0; attempt < 20; attempt++ {
		m := blockchain.NewMedianTime()
		s0 := time.Now().Unix()
		out := make([]string, 0, len(samples))
		okRun := true
		for _, tok := range samples {
			io := strings.Split(tok, ":")
			ms := i64(io[1])
			m.AddTimeSample(io[0], time.Unix(s0, 0).Add(time.Duration(ms)*time.Millisecond))
			off := int64(m.Offset() / time.Second)
			adj := m.AdjustedTime().Unix()
			if time.Now().Unix() != s0 {
				okRun = false
				break
			}
			if adj != s0+off {
				return "adjusted-time-disagrees-with-offset"
			}
			out = append(out, strconv.FormatInt(off, 10))
		}
		if okRun {
			return strings.Join(out, ",")
		}
	}
	return "err:clock"
}

// tooHardToGrind: a target below powLimit/2^17 needs more than ~2^18 hashes on average; Exec grinds at most
// 2^22 nonces, so harder headers are not generated (the answer would depend on luck).
func tooHardToGrind(p *chaincfg.Params, bits uint32) bool {
	t := blockchain.CompactToBig(bits)
	return t.Sign() > 0 && t.Cmp(new(big.Int).Rsh(p.PowLimit, 17)) < 0
}

// regtest with the retarget rules of q switched on
func phdrParams(q *chaincfg.Params) *chaincfg.Params {
	p := chaincfg.RegressionNetParams
	p.Deployments = [chaincfg.DefinedDeployments]chaincfg.ConsensusDeployment{}
	p.Checkpoints = nil
	p.PoWNoRetargeting = q.PoWNoRetargeting
	p.ReduceMinDifficulty = q.ReduceMinDifficulty
	p.MinDiffReductionTime = q.MinDiffReductionTime
	p.TargetTimespan = q.TargetTimespan
	p.TargetTimePerBlock = q.TargetTimePerBlock
	p.RetargetAdjustmentFactor = q.RetargetAdjustmentFactor
	p.EnforceBIP94 = q.EnforceBIP94
	return &p
}

// realProcessHeaders feeds headers (oldest first, "t:bits") to BlockChain.ProcessBlockHeader of a real
// chain; each header is built on the current header tip and its nonce is ground so that the hash clause
// holds whenever the target is in range. Answer: the verdict of every header.
func realProcessHeaders(q *chaincfg.Params, hs []string) string {
	p := phdrParams(q)
	base := os.TempDir()
	if st, err := os.Stat("/dev/shm"); err == nil && st.IsDir() {
		base = "/dev/shm"
	}
	dir, err := os.MkdirTemp(base, "c09db")
	if err != nil {
		return "err:tmp"
	}
	defer os.RemoveAll(dir)
	db, err := database.Create("ffldb", filepath.Join(dir, "db"), p.Net)
	if err != nil {
		return "err:db"
	}
	defer db.Close()
	chain, err := blockchain.New(&blockchain.Config{DB: db, ChainParams: p, TimeSource: blockchain.NewMedianTime()})
	if err != nil {
		return "err:new"
	}
	tip := *p.GenesisHash
	accT := []int64{p.GenesisBlock.Header.Timestamp.Unix()}
	accB := []uint32{p.GenesisBlock.Header.Bits}
	var out []string
	for k, tok := range hs {
		tb := strings.Split(tok, ":")
		h := wire.BlockHeader{Version: 0x20000000, PrevBlock: tip, Bits: u32hex(tb[1]), Timestamp: time.Unix(i64(tb[0]), 0)}
		h.MerkleRoot[0] = byte(k)
		target := blockchain.CompactToBig(h.Bits)
		if target.Sign() > 0 && target.Cmp(p.PowLimit) <= 0 {
			for n := uint32(0); n < 1<<22; n++ {
				h.Nonce = n
				hash := h.BlockHash()
				if blockchain.HashToBig(&hash).Cmp(target) <= 0 {
					break
				}
			}
		}
		fails := ctxFails(p, accT, accB, h.Bits, h.Timestamp.Unix(), true)
		_, err := chain.ProcessBlockHeader(&h, blockchain.BFNone, k%2 == 0)
		v := ruleClass(err)
		if re, ok := err.(blockchain.RuleError); ok && re.ErrorCode == blockchain.ErrUnexpectedDifficulty &&
			(target.Sign() <= 0 || target.Cmp(p.PowLimit) > 0) {
			v = "badTarget"
		}
		if v == "ok" {
			tip = h.BlockHash()
			accT = append(accT, h.Timestamp.Unix())
			accB = append(accB, h.Bits)
		}
		out = append(out, coarsen(v, fails))
	}
	return strings.Join(out, ",")
}

// ---------------------------------------------------------------- generation

func headerHex(h *wire.BlockHeader) string {
	var sb bytes.Buffer
	h.Serialize(&sb)
	return hex.EncodeToString(sb.Bytes())
}

// a history for parameter set p: n headers, tip-first tokens, returns also the last time stamp
func genHistory(r *core.Rand, p *chaincfg.Params, n int) ([]string, int64) {
	ts := int64(1600000000)
	per := int64(p.TargetTimePerBlock / time.Second)
	bits := p.PowLimitBits
	if r.Bool() {
		bits = blockchain.BigToCompact(new(big.Int).Rsh(p.PowLimit, uint(r.Intn(40))))
	}
	hs := make([]string, n)
	var lastTs int64
	for j := 0; j < n; j++ {
		switch r.Intn(6) {
		case 0:
			ts += per * r.Range(0, 12)
		case 1:
			ts -= r.Range(0, per)
		default:
			ts += r.Range(0, 2*per)
		}
		b := bits
		if p.ReduceMinDifficulty && r.Chance(1, 3) {
			b = p.PowLimitBits
		}
		hs[n-1-j] = fmt.Sprintf("%d:%x", ts, b)
		lastTs = ts
	}
	return hs, lastTs
}

func boundaryLen(r *core.Rand, bpr int) int {
	n := r.Intn(3*bpr+3) + 1
	if r.Chance(2, 3) { // on / next to a retarget boundary
		n = bpr*(1+r.Intn(3)) + int(r.Pick(-1, 0, 0, 0, 1))
	}
	if n < 1 {
		n = 1
	}
	return n
}

// emit records a case; with C09_DIST=1 it also tallies the real code's answers per class on stderr
// (debugging aid to see that the verdict classes are all exercised).
var dist = map[string]map[string]int{}

func emit(g *core.Gen, class string, nontrivial bool, line string) {
	g.Case(class, nontrivial, line)
	if os.Getenv("C09_DIST") != "" {
		out := P{}.Exec(line)
		if len(out) > 14 && !strings.Contains(out, ",") {
			out = "value"
		}
		for _, v := range strings.Split(out, ",") {
			if dist[class] == nil {
				dist[class] = map[string]int{}
			}
			dist[class][v]++
		}
	}
}

func generateHard(g *core.Gen) {
	defer func() {
		if os.Getenv("C09_DIST") != "" {
			for c, m := range dist {
				fmt.Fprintln(os.Stderr, "DIST", c, m)
			}
		}
	}()
	r := g.R
	// HashToBig: byte order, leading zero bytes, every single-byte position
	for i := 0; i < 32; i++ {
		b := make([]byte, 32)
		b[i] = byte(1 + r.Intn(255))
		emit(g, "h2b-unit", true, "C09 h2b "+hex.EncodeToString(b))
	}
	for i := 0; i < g.N(300, 20000); i++ {
		b := r.Bytes(32)
		for k := 0; k < r.Intn(33); k++ {
			b[31-k] = 0
		}
		if r.Chance(1, 10) {
			b = bytes.Repeat([]byte{0xff}, 32)
		}
		emit(g, "h2b", true, "C09 h2b "+hex.EncodeToString(b))
	}
	emit(g, "h2b", false, "C09 h2b "+strings.Repeat("00", 32))

	// CheckBlockHeaderContext through my HeaderCtx (h) and through real blockNodes + BlockChain (n):
	// accept/reject must equal the model's required-bits / MTP / time-warp verdict.
	for i := 0; i < g.N(2500, 60000); i++ {
		p := synthParams(r)
		if r.Chance(1, 3) {
			p.EnforceBIP94 = true
		}
		bpr := int(cctx{p}.BlocksPerRetarget())
		n := boundaryLen(r, bpr)
		hs, lastTs := genHistory(r, p, n)
		times, bits := parseChain(hs)
		red := int64(p.MinDiffReductionTime / time.Second)
		per := int64(p.TargetTimePerBlock / time.Second)
		newTime := lastTs + r.Pick(red-1, red, red+1, 0, 1, per, -5, -599, -600, -601, -602)
		mtp := safeMTP(hdrChain(times, bits))
		if r.Chance(1, 3) { // MTP boundary triple
			newTime = mtp + r.Pick(-1, 0, 1)
		}
		want, err := safeNext(hdrChain(times, bits), time.Unix(newTime, 0), cctx{p})
		hb := want
		if err != nil || r.Chance(1, 5) {
			switch r.Intn(4) {
			case 0:
				hb = want + uint32(r.Pick(1, 0xffffffff)) // off by one in the mantissa
			case 1:
				hb = bits[len(bits)-1]
			case 2:
				hb = p.PowLimitBits
			case 3:
				hb = want ^ 1<<uint(r.Intn(32))
			}
		}
		fast, skipcp := "0", "1"
		if r.Chance(1, 12) {
			fast = "1"
		}
		if r.Chance(1, 3) {
			skipcp = "0"
		}
		impl := "h"
		if r.Bool() {
			impl = "n"
		}
		emit(g, "hctx-"+impl, n >= bpr, fmt.Sprintf("C09 hctx %s %s %s %s %x %d %s", paramsLine(p), fast, skipcp, impl,
			hb, newTime, strings.Join(hs, " ")))
	}
	// BIP94 on full-size testnet4 periods: first block of a period 600/601 s before its parent
	for i := 0; i < g.N(8, 120); i++ {
		p := &chaincfg.TestNet4Params
		n := 2016 * (1 + i%2)
		hs := make([]string, n)
		t0 := int64(1714777860)
		bits := blockchain.BigToCompact(new(big.Int).Rsh(p.PowLimit, uint(r.Intn(20))))
		times := make([]int64, n)
		bb := make([]uint32, n)
		for j := 0; j < n; j++ {
			times[j] = t0 + int64(j)*600
			bb[j] = bits
			if j%2016 != 0 && r.Chance(1, 50) {
				bb[j] = p.PowLimitBits
			}
			if j == n-1 && r.Bool() {
				bb[j] = p.PowLimitBits // a min-difficulty block closes the period: BIP94 ignores it
			}
			hs[n-1-j] = fmt.Sprintf("%d:%x", times[j], bb[j])
		}
		newTime := times[n-1] + r.Pick(-601, -600, -599, 1, 1201)
		want, _ := safeNext(hdrChain(times, bb), time.Unix(newTime, 0), cctx{p})
		impl := []string{"h", "n"}[i%2]
		emit(g, "hctx-testnet4", true, fmt.Sprintf("C09 hctx %s 0 %d %s %x %d %s", paramsLine(p), i%2, impl, want, newTime,
			strings.Join(hs, " ")))
	}

	// CheckBlockHeaderSanity: PoW clause with and without BFNoPoWCheck, sub-second precision,
	// two-hour rule at 7199/7200/7201 s
	for i := 0; i < g.N(1500, 40000); i++ {
		adj := int64(1700000000) + r.Range(-1000, 1000)
		sec := adj + r.Pick(7199, 7200, 7201, 0, -7200, 7200, 100000)
		h := wire.BlockHeader{Version: int32(r.U32()), Timestamp: time.Unix(sec, 0), Nonce: r.U32()}
		copy(h.PrevBlock[:], r.Bytes(32))
		copy(h.MerkleRoot[:], r.Bytes(32))
		lim := []*big.Int{chaincfg.MainNetParams.PowLimit, chaincfg.RegressionNetParams.PowLimit, chaincfg.SigNetParams.PowLimit}[r.Intn(3)]
		switch r.Intn(9) {
		case 0:
			h.Bits = r.U32()
		case 1, 2:
			h.Bits = 0x207fffff
		case 6, 7, 8:
			h.Bits = blockchain.BigToCompact(lim)
		case 3:
			h.Bits = 0x20000000 | r.U32()&0xffffff
		case 4:
			h.Bits = 0x21000000 | r.U32()&0xffff
		case 5:
			h.Bits = blockchain.BigToCompact(lim) + uint32(r.Intn(3)) - 1
		}
		nsec := int64(0)
		if r.Chance(1, 6) {
			nsec = r.Pick(1, 999999999, 500000000, r.Range(1, 999999999))
		}
		nopow := "0"
		if r.Chance(1, 2) {
			nopow = "1"
		}
		emit(g, "hsan", true, fmt.Sprintf("C09 hsan %s %s %s %d %d", headerHex(&h), lim.Text(16), nopow, nsec, adj))
	}

	// BlockChain.CalcNextRequiredDifficulty on real blockNodes (skip-list ancestor lookup)
	for i := 0; i < g.N(1200, 30000); i++ {
		p := synthParams(r)
		bpr := int(cctx{p}.BlocksPerRetarget())
		n := boundaryLen(r, bpr)
		hs, lastTs := genHistory(r, p, n)
		red := int64(p.MinDiffReductionTime / time.Second)
		newTime := lastTs + r.Pick(red-1, red, red+1, 0, 1, -5)
		emit(g, "nextn", n >= bpr, fmt.Sprintf("C09 nextn %s %d %s", paramsLine(p), newTime, strings.Join(hs, " ")))
	}
	// (the empty chain is only reachable through a nil HeaderCtx: BlockChain.CalcNextRequiredDifficulty always has a tip)
	emit(g, "next", false, fmt.Sprintf("C09 next %s 5", paramsLine(&chaincfg.TestNet3Params)))
	// shipped networks, clamp-edge spans, through the real BlockChain
	nets := []*chaincfg.Params{&chaincfg.MainNetParams, &chaincfg.TestNet3Params, &chaincfg.TestNet4Params, &chaincfg.SigNetParams, &chaincfg.SimNetParams}
	for i := 0; i < g.N(15, 300); i++ {
		p := nets[i%len(nets)]
		T := int64(p.TargetTimespan / time.Second)
		span := []int64{T / 4, T/4 - 1, T/4 + 1, T * 4, T*4 - 1, T*4 + 1, T, r.Range(0, T*5), -100}[r.Intn(9)]
		n := 2016
		hs := make([]string, n)
		t0 := int64(1700000000)
		bits := blockchain.BigToCompact(new(big.Int).Rsh(p.PowLimit, uint(r.Intn(30))))
		for j := 0; j < n; j++ {
			t := t0 + span*int64(j)/int64(n-1)
			b := bits
			if j == 0 && r.Bool() {
				b = p.PowLimitBits
			}
			hs[n-1-j] = fmt.Sprintf("%d:%x", t, b)
		}
		emit(g, "nextn-realnet", true, fmt.Sprintf("C09 nextn %s %d %s", paramsLine(p), t0+span+600, strings.Join(hs, " ")))
	}

	// CalcPastMedianTime on real blockNodes: 10/11/12 and every count 1..15
	for i := 0; i < g.N(800, 20000); i++ {
		n := r.Intn(15) + 1
		if r.Chance(1, 3) {
			n = int(r.Pick(10, 11, 12))
		}
		ts := make([]string, n)
		for j := range ts {
			ts[j] = strconv.FormatInt(1500000000+r.Range(-50, 50)*int64(r.Pick(1, 1, 600)), 10)
		}
		op := "mtpn"
		if r.Chance(1, 4) {
			op = "mtp"
		}
		emit(g, op+"-edge", n > 1, "C09 "+op+" "+strings.Join(ts, " "))
	}

	// cumulative work on real blockNodes
	for i := 0; i < g.N(600, 20000); i++ {
		n := r.Intn(12) + 1
		bs := make([]string, n)
		for j := range bs {
			c := uint32(r.Intn(36))<<24 | r.U32()&0xffffff
			switch r.Intn(5) {
			case 0:
				c = 0x1d00ffff
			case 1:
				c = 0x207fffff
			case 2:
				c = r.U32()
			}
			bs[j] = fmt.Sprintf("%x", c)
		}
		emit(g, "worksum", true, "C09 worksum "+strings.Join(bs, " "))
	}

	// calcEasiestDifficulty
	for i := 0; i < g.N(1200, 30000); i++ {
		p := synthParams(r)
		if r.Chance(1, 4) {
			base := *nets[r.Intn(len(nets))]
			p = &base
		}
		maxSpan := int64(p.TargetTimespan/time.Second) * p.RetargetAdjustmentFactor
		red := int64(p.MinDiffReductionTime / time.Second)
		bits := blockchain.BigToCompact(new(big.Int).Rsh(p.PowLimit, uint(r.Intn(60))))
		switch r.Intn(8) {
		case 0:
			bits = p.PowLimitBits
		case 1:
			bits = blockchain.BigToCompact(p.PowLimit) + uint32(r.Pick(1, 0xffffffff))
		case 2:
			bits = r.U32()&0x00ffffff | uint32(r.Intn(34))<<24
		}
		d := maxSpan*r.Range(0, 12) + r.Pick(-1, 0, 1)
		if r.Chance(1, 4) {
			d = red + r.Pick(-1, 0, 1)
		}
		if r.Chance(1, 10) {
			d = -r.Range(0, 100)
		}
		emit(g, "easiest", d > 0, fmt.Sprintf("C09 easiest %s %x %d", paramsLine(p), bits, d))
	}

	// zero / negative / sub-byte targets through both PoW entry points
	for i := 0; i < g.N(120, 3000); i++ {
		h := wire.BlockHeader{Version: 1, Timestamp: time.Unix(1700000000, 0), Nonce: r.U32()}
		h.Bits = []uint32{0, 0x00800000, 0x01000000, 0x01003456, 0x02000056, 0x03000000, 0x01803456, 0x04800001,
			0x00123456, 0x01010000, 0x02000100, 0x03000001, 0x1d800000, 0x20800001}[i%14]
		lim := chaincfg.RegressionNetParams.PowLimit
		if i%3 == 0 {
			emit(g, "pow-zero-target", true, fmt.Sprintf("C09 pow %s %s", headerHex(&h), lim.Text(16)))
		} else {
			emit(g, "hsan-zero-target", true, fmt.Sprintf("C09 hsan %s %s %d 0 1700000000", headerHex(&h), lim.Text(16), i%2))
		}
	}

	// retarget result exactly at / one below / one above the pow limit (small targets so that one unit
	// survives the compact encoding), and actual timespans exactly at the clamp edges
	for i := 0; i < g.N(600, 20000); i++ {
		p := synthParams(r)
		p.PoWNoRetargeting = false
		c := cctx{p}
		bpr := int(c.BlocksPerRetarget())
		n := bpr * (1 + r.Intn(3))
		hs, _ := genHistory(r, p, n)
		times, bits := parseChain(hs)
		T := int64(p.TargetTimespan / time.Second)
		class := "next-clamp-edge"
		// pin the actual timespan to a clamp edge by moving the first block of the period
		edge := []int64{c.MinRetargetTimespan(), c.MaxRetargetTimespan(), T}[r.Intn(3)] + r.Pick(-1, 0, 1)
		times[n-bpr] = times[n-1] - edge
		if bpr == 1 {
			edge = 0
		}
		if r.Bool() {
			class = "next-cap-edge"
			small := uint32(0x03000000) | r.U32()&0x7fffff | 0x010000
			if r.Bool() {
				small = uint32(0x02000000) | r.U32()&0x7fff00 | 0x010000
			}
			for j := range bits {
				bits[j] = small
			}
			old := blockchain.CompactToBig(small)
			adj := edge
			if adj < c.MinRetargetTimespan() {
				adj = c.MinRetargetTimespan()
			} else if adj > c.MaxRetargetTimespan() {
				adj = c.MaxRetargetTimespan()
			}
			nt := new(big.Int).Mul(old, big.NewInt(adj))
			nt.Quo(nt, big.NewInt(T))
			lim := nt.Add(nt, big.NewInt(r.Pick(-1, 0, 1)))
			if lim.Sign() <= 0 {
				lim = big.NewInt(1)
			}
			q := *p
			q.PowLimit = lim
			q.PowLimitBits = blockchain.BigToCompact(lim)
			if r.Bool() { // the cap must use PowLimit itself, not the value of PowLimitBits
				q.PowLimitBits = blockchain.BigToCompact(new(big.Int).Add(new(big.Int).Rsh(lim, 1), big.NewInt(1)))
			}
			p = &q
		}
		for j := range hs {
			hs[n-1-j] = fmt.Sprintf("%d:%x", times[j], bits[j])
		}
		op := "next"
		if r.Bool() {
			op = "nextn"
		}
		emit(g, class, true, fmt.Sprintf("C09 %s %s %d %s", op, paramsLine(p), times[n-1]+1, strings.Join(hs, " ")))
	}

	// extreme epochs: height/interval at 31..34, 63..66, 127..129, 255..257, 2^k and 2^k+-1 for every interval
	// that lets an int32 height get there (a masked or truncated shift count pays 50 BTC again)
	for _, iv := range []int64{210000, 150, 1, 2, 3, 7, 1000, 33554431, 33554432} {
		qs := []int64{31, 32, 33, 34, 62, 63, 64, 65, 66, 95, 96, 127, 128, 129, 191, 192, 193, 255, 256, 257, 511, 512, 513}
		for k := uint(10); k < 31; k++ {
			qs = append(qs, 1<<k-1, 1<<k, 1<<k+1, 1<<k+64)
		}
		for _, q := range qs {
			for _, d := range []int64{-1, 0, 1, iv / 2} {
				h := q*iv + d
				if h >= 0 && h <= 2147483647 {
					emit(g, "subsidy-epoch", true, fmt.Sprintf("C09 subsidy %d %d", h, iv))
				}
			}
		}
	}

	// heterogeneous histories: every header has its own bits and its own (non-monotone) time stamp, so a
	// value taken from the wrong header, or memoised per chain instead of per header, shows
	for i := 0; i < g.N(500, 15000); i++ {
		p := synthParams(r)
		p.PoWNoRetargeting = false
		bpr := int(cctx{p}.BlocksPerRetarget())
		n := boundaryLen(r, bpr)
		hs := make([]string, n)
		ts := int64(1600000000)
		per := int64(p.TargetTimePerBlock / time.Second)
		for j := 0; j < n; j++ {
			ts += r.Range(-per, 3*per)
			b := uint32(3+r.Intn(30))<<24 | r.U32()&0x7fffff | 0x8000
			if p.ReduceMinDifficulty && r.Chance(1, 3) {
				b = p.PowLimitBits
			}
			hs[n-1-j] = fmt.Sprintf("%d:%x", ts, b)
		}
		red := int64(p.MinDiffReductionTime / time.Second)
		op := []string{"next", "nextn"}[r.Intn(2)]
		emit(g, "next-hetero", n >= bpr, fmt.Sprintf("C09 %s %s %d %s", op, paramsLine(p), ts+r.Pick(red-1, red, red+1, 0, 1), strings.Join(hs, " ")))
	}

	// every position: a uniform history in which exactly ONE header differs (bits, or time), at every
	// position in turn - first/last block of a period, the block before, genesis, the tip
	for i := 0; i < g.N(12, 200); i++ {
		p := synthParams(r)
		p.PoWNoRetargeting = false
		p.ReduceMinDifficulty = i%2 == 0
		bpr := int(cctx{p}.BlocksPerRetarget())
		n := 2*bpr + int(r.Pick(-1, 0, 0, 1))
		if n < 2 {
			n = 2
		}
		per := int64(p.TargetTimePerBlock / time.Second)
		base := p.PowLimitBits
		odd := blockchain.BigToCompact(new(big.Int).Rsh(p.PowLimit, 9))
		if i%4 >= 2 {
			base, odd = odd, base
		}
		for pos := 0; pos < n; pos++ {
			for _, what := range []int{0, 1} {
				hs := make([]string, n)
				for j := 0; j < n; j++ {
					t := int64(1600000000) + int64(j)*per
					b := base
					if j == pos && what == 0 {
						b = odd
					}
					if j == pos && what == 1 {
						t += 3*per + 1
					}
					hs[n-1-j] = fmt.Sprintf("%d:%x", t, b)
				}
				red := int64(p.MinDiffReductionTime / time.Second)
				last := int64(1600000000) + int64(n-1)*per
				op := []string{"next", "nextn"}[(pos+what)%2]
				emit(g, "next-position", true, fmt.Sprintf("C09 %s %s %d %s", op, paramsLine(p), last+r.Pick(red, red+1, 1), strings.Join(hs, " ")))
			}
		}
	}
	// MTP: one outlier at every one of the last 12 positions, early and late
	for n := 1; n <= 13; n++ {
		for pos := 0; pos < n; pos++ {
			for _, delta := range []int64{-100000, 100000} {
				ts := make([]string, n)
				for j := range ts {
					t := int64(1500000000 + 600*(n-j))
					if j == pos {
						t += delta
					}
					ts[j] = strconv.FormatInt(t, 10)
				}
				emit(g, "mtp-position", n > 1, "C09 "+[]string{"mtp", "mtpn"}[(n+pos)%2]+" "+strings.Join(ts, " "))
			}
		}
	}
	// adjusted time: one far-off sample at every position of 5, 7 and 9 samples
	for _, n := range []int{5, 7, 9} {
		for pos := 0; pos < n; pos++ {
			toks := make([]string, n)
			for j := range toks {
				ms := int64(1000 * (10 + j))
				if j == pos {
					ms = 1000 * r.Pick(5000, -5000, 4200, -4199)
				}
				toks[j] = fmt.Sprintf("q%d:%d", j, ms)
			}
			emit(g, "adj-position", true, "C09 adj "+strings.Join(toks, " "))
		}
	}

	// inputs are values too: one Params / BlockChain / node chain reused for several evaluations
	for i := 0; i < g.N(400, 10000); i++ {
		p := synthParams(r)
		if r.Chance(1, 3) {
			p.EnforceBIP94 = true
		}
		bpr := int(cctx{p}.BlocksPerRetarget())
		n := boundaryLen(r, bpr) + 2
		hs, _ := genHistory(r, p, n)
		times, bits := parseChain(hs)
		red := int64(p.MinDiffReductionTime / time.Second)
		k := 3 + r.Intn(4)
		items := make([]string, k)
		for j := range items {
			d := r.Intn(n)
			if j == 0 {
				d = 0
			}
			m := n - d
			tip := hdrChain(times[:m], bits[:m])
			t := times[m-1] + r.Pick(red-1, red, red+1, 0, 1, -5, -601)
			if r.Chance(1, 4) {
				t = safeMTP(tip) + r.Pick(0, 1)
			}
			want, err := safeNext(tip, time.Unix(t, 0), cctx{p})
			if err != nil || r.Chance(1, 6) {
				want = bits[m-1] + uint32(r.Intn(2))
			}
			items[j] = fmt.Sprintf("%d:%d:%x", d, t, want)
		}
		emit(g, "reuse", true, fmt.Sprintf("C09 reuse %s %s %s", paramsLine(p), strings.Join(items, ","), strings.Join(hs, " ")))
	}

	// side branch next to a main branch that differs in every time stamp and every bits value
	for i := 0; i < g.N(500, 12000); i++ {
		p := synthParams(r)
		p.PoWNoRetargeting = false
		if r.Chance(1, 3) {
			p.EnforceBIP94 = true
		}
		bpr := int(cctx{p}.BlocksPerRetarget())
		per := int64(p.TargetTimePerBlock / time.Second)
		nm := boundaryLen(r, bpr) + bpr + 1
		depth := 1 + r.Intn(min(nm-1, 2*bpr))
		// the side branch is as long as needed to put its tip on / next to a boundary
		ns := depth + int(r.Pick(-1, 0, 0, 1, 2))
		for (nm-depth+ns)%bpr != 0 && r.Chance(2, 3) {
			ns++
		}
		if ns < 1 {
			ns = 1
		}
		mk := func(n int, t0 int64, stepLo, stepHi int64, shift uint) ([]string, int64) {
			out := make([]string, n)
			t := t0
			for j := 0; j < n; j++ {
				t += r.Range(stepLo, stepHi)
				b := blockchain.BigToCompact(new(big.Int).Rsh(p.PowLimit, shift+uint(r.Intn(3))))
				if p.ReduceMinDifficulty && r.Chance(1, 4) {
					b = p.PowLimitBits
				}
				out[n-1-j] = fmt.Sprintf("%d:%x", t, b)
			}
			return out, t
		}
		mainT, _ := mk(nm, 1600000000, per/2, 2*per, 4)
		mt, _ := parseChain(mainT)
		sideT, lastSide := mk(ns, mt[nm-1-depth], 2*per, 5*per+1, 12) // slower and harder than main
		st, sb := parseChain(sideT)
		bt := append(append([]int64{}, mt[:nm-depth]...), st...)
		_, mbits := parseChain(mainT)
		bb := append(append([]uint32{}, mbits[:nm-depth]...), sb...)
		red := int64(p.MinDiffReductionTime / time.Second)
		t := lastSide + r.Pick(red-1, red, red+1, 1, per)
		want, err := safeNext(hdrChain(bt, bb), time.Unix(t, 0), cctx{p})
		if err != nil || r.Chance(1, 8) {
			want = sb[len(sb)-1]
		}
		emit(g, "hfork", nm-depth+ns >= bpr, fmt.Sprintf("C09 hfork %s %x %d %d %s | %s", paramsLine(p), want, t, depth,
			strings.Join(mainT, " "), strings.Join(sideT, " ")))
	}

	// shared-state run
	for i := 0; i < g.N(40, 400); i++ {
		n := 64
		cs := make([]string, n)
		for j := range cs {
			c := uint32(r.Intn(36))<<24 | r.U32()&0xffffff
			if r.Chance(1, 4) {
				c = r.U32()
			}
			cs[j] = fmt.Sprintf("%x", c)
		}
		emit(g, "wpar", true, "C09 wpar "+strings.Join(cs, " "))
	}

	// end to end: header histories through BlockChain.ProcessBlockHeader of a real chain
	for i := 0; i < g.N(30, 500); i++ {
		q := synthParams(r)
		q.PoWNoRetargeting = r.Chance(1, 10)
		if r.Bool() {
			q.EnforceBIP94 = true
		}
		p := phdrParams(q)
		c := cctx{p}
		bpr := int(c.BlocksPerRetarget())
		per := int64(p.TargetTimePerBlock / time.Second)
		red := int64(p.MinDiffReductionTime / time.Second)
		gen := p.GenesisBlock.Header
		times := []int64{gen.Timestamp.Unix()}
		bits := []uint32{gen.Bits}
		n := 3*bpr + 2
		if n > 40 {
			n = 40
		}
		var toks []string
		for j := 0; j < n; j++ {
			last := times[len(times)-1]
			tip := hdrChain(times, bits)
			mtp := safeMTP(tip)
			t := last + r.Pick(per, per, per/2, 2*per, 1, 0, red+1, red, per/4, 4*per)
			if p.EnforceBIP94 && (len(times)+1)%bpr == 0 && r.Bool() {
				t = last + 1000 // lifts the next (first-of-period) block's window above the MTP
			}
			if p.EnforceBIP94 && (len(times))%bpr == 0 && r.Chance(2, 3) {
				t = last + r.Pick(-599, -600, -601, -602)
			}
			if r.Chance(1, 12) {
				t = mtp + r.Pick(-1, 0, 1)
			}
			want, err := safeNext(tip, time.Unix(t, 0), c)
			if err == nil && tooHardToGrind(p, want) {
				break
			}
			b := want
			if err != nil || r.Chance(1, 10) {
				b = []uint32{want + 1, want - 1, p.PowLimitBits, bits[len(bits)-1], 0x207fffff + 1, 0, 0x20800001, 0x2100ffff}[r.Intn(8)]
			}
			toks = append(toks, fmt.Sprintf("%d:%x", t, b))
			// the generator's guess of acceptance keeps the history mostly valid; the verdicts come from Exec / Lean
			if b == want && t > mtp && !(p.EnforceBIP94 && len(times)%bpr == 0 && t < last-600) {
				times = append(times, t)
				bits = append(bits, b)
			}
		}
		emit(g, "phdr", true, fmt.Sprintf("C09 phdr %s %d:%x %s", paramsLine(p), gen.Timestamp.Unix(), gen.Bits, strings.Join(toks, " ")))
	}

	// network-adjusted time (mediantime.go): 4/5/6 samples, even/odd counts, the +-70 min cap at
	// 4199/4200/4201 s, sub-second truncation towards zero, duplicate ids, the 200-entry cap (199/200/201)
	for i := 0; i < g.N(400, 10000); i++ {
		n := int(r.Pick(1, 4, 5, 6, 7, 9, 11, 15, 30))
		if i%50 == 0 {
			n = int(r.Pick(199, 200, 201, 205, 260))
		}
		centre := r.Pick(0, 0, 100, -100, 4199, 4200, 4201, -4199, -4200, -4201, 299, 300, 301, 4000, 10000)
		spread := r.Pick(0, 1, 2, 50, 5000)
		toks := make([]string, n)
		for j := range toks {
			ms := (centre+r.Range(-spread, spread))*1000 + r.Pick(0, 0, 0, 1, 999, -1, -999, 500)
			id := fmt.Sprintf("p%d", j)
			if j > 0 && r.Chance(1, 15) {
				id = fmt.Sprintf("p%d", r.Intn(j)) // duplicate source: ignored
			}
			toks[j] = fmt.Sprintf("%s:%d", id, ms)
		}
		emit(g, "adj", n >= 5, "C09 adj "+strings.Join(toks, " "))
	}

	// header TREES through ProcessBlockHeader: several branches with their own time stamps and bits
	for i := 0; i < g.N(40, 600); i++ {
		q := synthParams(r)
		q.PoWNoRetargeting = false
		if r.Bool() {
			q.EnforceBIP94 = true
		}
		p := phdrParams(q)
		c := cctx{p}
		bpr := int(c.BlocksPerRetarget())
		per := int64(p.TargetTimePerBlock / time.Second)
		red := int64(p.MinDiffReductionTime / time.Second)
		gen := p.GenesisBlock.Header
		type br struct {
			times []int64
			bits  []uint32
		}
		known := []br{{[]int64{gen.Timestamp.Unix()}, []uint32{gen.Bits}}}
		tips := []int{0} // indices of branch tips
		n := min(3*bpr+4, 36)
		var toks []string
		for j := 0; j < n; j++ {
			pi := tips[r.Intn(len(tips))]
			fork := r.Chance(1, 6)
			if fork {
				pi = r.Intn(len(known)) // fork anywhere
			}
			par := known[pi]
			last := par.times[len(par.times)-1]
			tip := hdrChain(par.times, par.bits)
			mtp := safeMTP(tip)
			t := last + r.Pick(per, per/2, 2*per, 1, red+1, red, per/4, 4*per, 3*per+int64(len(known)))
			if p.EnforceBIP94 && len(par.times)%bpr == 0 && r.Chance(1, 3) {
				t = last + r.Pick(-599, -600, -601)
			}
			if r.Chance(1, 14) {
				t = mtp + r.Pick(-1, 0, 1)
			}
			want, err := safeNext(tip, time.Unix(t, 0), c)
			if err == nil && tooHardToGrind(p, want) {
				break // the nonce search of Exec must stay cheap and certain
			}
			b := want
			if err != nil || r.Chance(1, 12) {
				b = []uint32{want + 1, p.PowLimitBits, par.bits[len(par.bits)-1], 0, 0x2100ffff}[r.Intn(5)]
			}
			toks = append(toks, fmt.Sprintf("%d:%d:%x", pi, t, b))
			bt := blockchain.CompactToBig(b)
			if b == want && err == nil && t > mtp && bt.Sign() > 0 && bt.Cmp(p.PowLimit) <= 0 &&
				!(p.EnforceBIP94 && len(par.times)%bpr == 0 && t < last-600) {
				known = append(known, br{append(append([]int64{}, par.times...), t), append(append([]uint32{}, par.bits...), b)})
				ni := len(known) - 1
				replaced := false
				for k, ti := range tips {
					if ti == pi {
						tips[k] = ni
						replaced = true
					}
				}
				if !replaced {
					tips = append(tips, ni)
				}
			}
		}
		emit(g, "ptree", len(tips) > 1, fmt.Sprintf("C09 ptree %s %d:%x %s", paramsLine(p), gen.Timestamp.Unix(), gen.Bits, strings.Join(toks, " ")))
	}

	// blockchain.New derives blocksPerRetarget / min / max timespan
	for _, p := range []*chaincfg.Params{&chaincfg.MainNetParams, &chaincfg.TestNet4Params, &chaincfg.RegressionNetParams} {
		emit(g, "ctxparams", true, fmt.Sprintf("C09 ctxparams %d %d %d", int64(p.TargetTimespan/time.Second),
			int64(p.TargetTimePerBlock/time.Second), p.RetargetAdjustmentFactor))
	}
	for i := 0; i < g.N(5, 40); i++ {
		per := r.Pick(1, 2, 7, 60, 600)
		emit(g, "ctxparams", true, fmt.Sprintf("C09 ctxparams %d %d %d", per*r.Range(1, 30)+r.Range(0, per-1), per, r.Pick(1, 2, 3, 4, 7)))
	}
}
