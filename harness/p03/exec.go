package p03

import (
	"bytes"
	"fmt"
	"os"
	"sort"
	"strconv"
	"strings"
	"sync"
	"time"

	"github.com/btcsuite/btcd/blockchain"
	"github.com/btcsuite/btcd/btcutil/v2"
	"github.com/btcsuite/btcd/chainhash/v2"
	"github.com/btcsuite/btcd/txscript/v2"
	"github.com/btcsuite/btcd/wire/v2"
	"verifharness/core"
)

type P struct{}

func (P) ID() string { return "C03" }

func fmtEntry(amt int64, script []byte, h int32, cb bool) string {
	c := 0
	if cb {
		c = 1
	}
	return fmt.Sprintf("%d.%s.%d.%d", amt, hexOrDash(script), h, c)
}

func sortOps(ops []aOp) {
	sort.Slice(ops, func(i, j int) bool {
		if ops[i].t != ops[j].t {
			return ops[i].t < ops[j].t
		}
		return ops[i].i < ops[j].i
	})
}

// absAndInv evaluates, on the real cache map and the real bucket, what a reader would be told
// for every known outpoint (cache slot first: nil or spent = absent; no slot = the bucket row)
// and whether the cache's safety invariant holds: a nil slot or a fresh entry has no bucket row,
// an unmodified entry is unspent and equals its row.  Only the entries' own predicates are used.
func absAndInv(cache, bucket []blockchain.VerifC03Entry, id func(chainhash.Hash) (int, bool), known []aOp) (string, int) {
	type key struct {
		t, i int
	}
	inv := 1
	cm := map[key]blockchain.VerifC03Entry{}
	bm := map[key]blockchain.VerifC03Entry{}
	kn := map[key]bool{}
	for _, o := range known {
		kn[key{o.t, o.i}] = true
	}
	for _, e := range bucket {
		t, ok := id(e.Outpoint.Hash)
		k := key{t, int(e.Outpoint.Index)}
		if !ok || !kn[k] {
			inv = 0 // a row nobody on the line can account for
		}
		bm[k] = e
	}
	same := func(a, b blockchain.VerifC03Entry) bool {
		return a.Amount == b.Amount && string(a.PkScript) == string(b.PkScript) && a.Height == b.Height && a.CoinBase == b.CoinBase
	}
	for _, e := range cache {
		t, ok := id(e.Outpoint.Hash)
		k := key{t, int(e.Outpoint.Index)}
		if !ok || !kn[k] {
			inv = 0
		}
		cm[k] = e
		row, has := bm[k]
		switch {
		case e.Nil:
			if has {
				inv = 0
			}
		case e.Fresh && has:
			inv = 0
		case !e.Modified && (e.Spent || !has || !same(e, row)):
			inv = 0
		}
	}
	var parts []string
	for _, o := range known {
		k := key{o.t, o.i}
		var e blockchain.VerifC03Entry
		if ce, ok := cm[k]; ok {
			if ce.Nil || ce.Spent {
				continue
			}
			e = ce
		} else if row, ok := bm[k]; ok {
			e = row
		} else {
			continue
		}
		parts = append(parts, fmt.Sprintf("%d.%d:%s", o.t, o.i, fmtEntry(e.Amount, e.PkScript, e.Height, e.CoinBase)))
	}
	return strings.Join(parts, ","), inv
}

func flushMode(c byte) blockchain.FlushMode {
	switch c {
	case 'r':
		return blockchain.FlushRequired
	case 'p':
		return blockchain.FlushPeriodic
	case 'i':
		return blockchain.FlushIfNeeded
	}
	panic("bad flush mode")
}

// Exec runs one line under a watchdog: a (mutated) tree that blocks must give a failing line,
// not a hung harness.
func (P) Exec(line string) string {
	done := make(chan string, 1)
	go func() {
		defer func() {
			if recover() != nil {
				done <- "panic"
			}
		}()
		done <- execLine(line)
	}()
	select {
	case out := <-done:
		return out
	case <-time.After(120 * time.Second):
		return "timeout"
	}
}

func execLine(line string) string {
	f := strings.Fields(line)
	if len(f) < 2 || f[0] != "C03" {
		return "bad-op"
	}
	switch f[1] {
	case "chain":
		if len(f) < 3 {
			return "bad-op"
		}
		return execChain(parseCfg(f[2]), f[3:], 0)
	case "multi":
		// independent chain instances run at the same time, each on its own database; the
		// sub-lines are separated by "##" and so are the answers
		var subs [][]string
		cur := []string{}
		for _, t := range f[2:] {
			if t == "##" {
				subs = append(subs, cur)
				cur = []string{}
			} else {
				cur = append(cur, t)
			}
		}
		subs = append(subs, cur)
		if len(subs) > multiMax {
			return "bad-op"
		}
		res := make([]string, len(subs))
		var wg sync.WaitGroup
		for i := range subs {
			wg.Add(1)
			go func(i int) {
				defer wg.Done()
				defer func() {
					if recover() != nil {
						res[i] = "panic"
					}
				}()
				if len(subs[i]) < 1 {
					res[i] = "bad-op"
					return
				}
				res[i] = execChain(parseCfg(subs[i][0]), subs[i][1:], i)
			}(i)
		}
		wg.Wait()
		return strings.Join(res, "##")
	case "cache":
		return execCache(f[2:])
	case "view":
		return execView(f[2:])
	}
	return "bad-op"
}

// ---------------------------------------------------------------- block level, through a real BlockChain

type chainRun struct {
	b      *builder
	in     *inst
	known  map[aOp]bool // every outpoint any block on the line has created so far
	blocks map[int]*btcutil.Block
	txs    map[int]*btcutil.Tx // abstract txid -> real transaction (first definition)
	atxs   map[int]aTx
	iscb   map[int]bool
	views  []savedView
	raw    map[int][]byte // serialized form of every block handed to the chain, to check it is left alone
}

type savedView struct {
	t    aTx
	cb   bool
	view *blockchain.UtxoViewpoint
}

// viewStr prints what a view says about the outputs and (non-coinbase) inputs of t; it also
// checks that FetchPrevOutput agrees with LookupEntry.
func (r *chainRun) viewStr(v savedView) string {
	var ops []aOp
	for i := range v.t.outs {
		ops = append(ops, aOp{v.t.id, i})
	}
	if !v.cb {
		ops = append(ops, v.t.ins...)
	}
	parts := make([]string, len(ops))
	for i, o := range ops {
		e := v.view.LookupEntry(r.realOp(o))
		po := v.view.FetchPrevOutput(r.realOp(o))
		switch {
		case e == nil:
			parts[i] = "none"
			if po != nil {
				parts[i] = "incons"
			}
		case po == nil || po.Value != e.Amount() || string(po.PkScript) != string(e.PkScript()):
			parts[i] = "incons"
		case e.IsSpent():
			parts[i] = "none"
		default:
			parts[i] = fmtEntry(e.Amount(), e.PkScript(), e.BlockHeight(), e.IsCoinBase())
		}
	}
	return fmt.Sprintf("%d:%s", v.t.id, strings.Join(parts, ","))
}

// concurrentObserve runs 8 readers at once (FetchUtxoEntry over every known outpoint in rotated
// order, FetchUtxoView on known transactions); all must see the same set.
func (r *chainRun) concurrentObserve() string {
	ops := r.knownSorted()
	var ids []int
	for id := range r.txs {
		ids = append(ids, id)
	}
	sort.Ints(ids)
	const readers = 8
	res := make([][]string, readers)
	bad := make([]bool, readers)
	var wg sync.WaitGroup
	for g := 0; g < readers; g++ {
		wg.Add(1)
		go func(g int) {
			defer wg.Done()
			defer func() {
				if recover() != nil {
					bad[g] = true
				}
			}()
			out := make([]string, len(ops))
			for k := range ops {
				i := (k + g*len(ops)/readers) % len(ops)
				out[i] = r.fetch(ops[i])
				if g%2 == 1 && len(ids) > 0 && k%3 == 0 {
					id := ids[(k+g)%len(ids)]
					if _, err := r.in.chain.FetchUtxoView(r.txs[id]); err != nil {
						bad[g] = true
					}
				}
			}
			res[g] = out
		}(g)
	}
	wg.Wait()
	for g := 0; g < readers; g++ {
		if bad[g] {
			return "diverge"
		}
		for i := range ops {
			if res[g][i] != res[0][i] {
				return "diverge"
			}
		}
	}
	var u []string
	for i, o := range ops {
		if res[0][i] != "none" {
			u = append(u, fmt.Sprintf("%d.%d:%s", o.t, o.i, res[0][i]))
		}
	}
	return "u=" + strings.Join(u, ",")
}

func (r *chainRun) knownSorted() []aOp {
	ops := make([]aOp, 0, len(r.known))
	for o := range r.known {
		ops = append(ops, o)
	}
	sortOps(ops)
	return ops
}

func (r *chainRun) realOp(o aOp) wire.OutPoint {
	h, ok := r.b.txHash[o.t]
	if !ok {
		// a transaction no block on the line defined: a hash nobody has
		h = chainhash.Hash{0xee, byte(o.t), byte(o.t >> 8)}
		r.b.txHash[o.t] = h
		r.b.txID[h] = o.t
	}
	return wire.OutPoint{Hash: h, Index: uint32(o.i)}
}

func (r *chainRun) fetch(o aOp) string {
	e, err := r.in.chain.FetchUtxoEntry(r.realOp(o))
	if err != nil {
		return "err"
	}
	if e == nil || e.IsSpent() {
		return "none"
	}
	return fmtEntry(e.Amount(), e.PkScript(), e.BlockHeight(), e.IsCoinBase())
}

func (r *chainRun) absEntries(es []blockchain.VerifC03Entry, withFlags bool) string {
	type row struct {
		o aOp
		s string
	}
	var rows []row
	for _, e := range es {
		id, ok := r.b.txID[e.Outpoint.Hash]
		if !ok {
			id = -1
		}
		s := "nil"
		if !e.Nil {
			s = fmtEntry(e.Amount, e.PkScript, e.Height, e.CoinBase)
		}
		_ = withFlags
		rows = append(rows, row{aOp{id, int(e.Outpoint.Index)}, s})
	}
	sort.Slice(rows, func(i, j int) bool {
		if rows[i].o.t != rows[j].o.t {
			return rows[i].o.t < rows[j].o.t
		}
		return rows[i].o.i < rows[j].o.i
	})
	parts := make([]string, len(rows))
	for i, x := range rows {
		parts[i] = fmt.Sprintf("%d.%d:%s", x.o.t, x.o.i, x.s)
	}
	return strings.Join(parts, ",")
}

// activeIDs returns the abstract ids of the active chain's blocks above genesis.
func (r *chainRun) activeIDs() []int {
	best := r.in.chain.BestSnapshot()
	var ids []int
	for h := int32(1); h <= best.Height; h++ {
		hash, err := r.in.chain.BlockHashByHeight(h)
		if err != nil {
			return nil
		}
		ids = append(ids, r.b.blkID[*hash])
	}
	return ids
}

func (r *chainRun) observe() string {
	var u []string
	for _, o := range r.knownSorted() {
		s := r.fetch(o)
		if s != "none" {
			u = append(u, fmt.Sprintf("%d.%d:%s", o.t, o.i, s))
		}
	}
	var j []string
	for _, id := range r.activeIDs() {
		st, err := r.in.chain.FetchSpendJournal(r.blocks[id])
		if err != nil {
			j = append(j, fmt.Sprintf("%d:err", id))
			continue
		}
		parts := make([]string, len(st))
		for i, s := range st {
			parts[i] = fmtEntry(s.Amount, s.PkScript, s.Height, s.IsCoinBase)
		}
		j = append(j, fmt.Sprintf("%d:%s", id, strings.Join(parts, ",")))
	}
	return fmt.Sprintf("u=%s;j=%s;n=%d", strings.Join(u, ","), strings.Join(j, "/"), r.in.chain.BestSnapshot().TotalTxns)
}

type crashNow struct{}

// process hands the block to ProcessBlock; with crashAt > 0 the call is abandoned (panic out of
// the notification callback, which runs between two committed database transactions) right
// after its crashAt-th block connection / disconnection.
func (r *chainRun) process(blk *btcutil.Block, crashAt int) (res string, crashed bool) {
	n := 0
	if crashAt > 0 {
		r.in.chain.Subscribe(func(nt *blockchain.Notification) {
			if crashAt == 0 {
				return
			}
			if nt.Type == blockchain.NTBlockConnected || nt.Type == blockchain.NTBlockDisconnected {
				n++
				if n == crashAt {
					crashAt = 0
					panic(crashNow{})
				}
			}
		})
	}
	defer func() {
		if p := recover(); p != nil {
			if _, ok := p.(crashNow); !ok {
				panic(p)
			}
			crashed = true
		}
		crashAt = 0
	}()
	_, orphan, err := r.in.chain.ProcessBlock(blk, blockchain.BFNone)
	res = "acc"
	if err != nil || orphan {
		res = "rej"
		if os.Getenv("VERIF_DEBUG") != "" {
			fmt.Fprintf(os.Stderr, "block: %v\n", err)
		}
	}
	return res, false
}

func rawBlock(blk *btcutil.Block) []byte {
	var buf bytes.Buffer
	if err := blk.MsgBlock().Serialize(&buf); err != nil {
		return nil
	}
	return buf.Bytes()
}

func execChain(c cfg, ops []string, slot int) string {
	r := &chainRun{b: newBuilder(c), known: map[aOp]bool{}, blocks: map[int]*btcutil.Block{},
		txs: map[int]*btcutil.Tx{}, atxs: map[int]aTx{}, iscb: map[int]bool{}, raw: map[int][]byte{}}
	r.in = newInst(r.b.params, c.cache, slot)
	defer r.in.close()
	c0 := c
	var out []string
	for _, op := range ops {
		switch op[0] {
		case 'B', 'K':
			// K<k>:<size>:<block>: the process dies right after the k-th block (dis)connection of
			// this ProcessBlock call was committed; a start-up with cache <size> follows
			crashAt, size := 0, uint64(0)
			btok := op
			if op[0] == 'K' {
				f := strings.SplitN(op[1:], ":", 3)
				if len(f) != 3 {
					return "bad-op"
				}
				crashAt = atoi(f[0])
				sz, err := strconv.ParseUint(f[1], 10, 64)
				if err != nil {
					return "bad-op"
				}
				size = sz
				btok = "B" + f[2]
			}
			a := parseBlock(btok)
			blk := r.b.block(a)
			if r.b.bad {
				return "bad-line"
			}
			r.blocks[a.id] = blk
			r.raw[a.id] = rawBlock(blk)
			for ti, t := range a.txs {
				if _, ok := r.txs[t.id]; !ok {
					r.txs[t.id] = blk.Transactions()[ti]
					r.atxs[t.id] = t
					r.iscb[t.id] = ti == 0
				}
				for i := range t.outs {
					r.known[aOp{t.id, i}] = true
				}
				if ti > 0 {
					for _, in := range t.ins {
						r.known[in] = true
					}
				}
			}
			res, crashed := r.process(blk, crashAt)
			if crashed {
				c.cache = size
				ch, err := blockchain.New(&blockchain.Config{
					DB: r.in.db, ChainParams: r.b.params, TimeSource: blockchain.NewMedianTime(), UtxoCacheMaxSize: size,
				})
				if err != nil {
					return "restart-failed"
				}
				r.in.chain = ch
				res = "crash"
			}
			tip := r.b.blkID[r.in.chain.BestSnapshot().Hash]
			out = append(out, fmt.Sprintf("%s:%d", res, tip))
		case 'F':
			if err := r.in.chain.FlushUtxoCache(flushMode(op[1])); err != nil {
				out = append(out, "err")
			} else {
				out = append(out, "ok")
			}
		case 'P':
			if err := r.in.chain.FlushUtxoCache(blockchain.FlushRequired); err != nil {
				out = append(out, "err")
				continue
			}
			rows, err := r.in.chain.VerifC03BucketDump()
			if err != nil {
				out = append(out, "err")
				continue
			}
			_, marker := r.in.chain.VerifC03LastFlushHash()
			mid := -1
			if len(marker) == chainhash.HashSize {
				var h chainhash.Hash
				copy(h[:], marker)
				if id, ok := r.b.blkID[h]; ok {
					mid = id
				}
			}
			_ = r.in.chain.CachedStateSize() // driven, not compared: a memory estimate is internal
			out = append(out, fmt.Sprintf("d=%s;m=%d", r.absEntries(rows, false), mid))
		case 'X', 'Y':
			// unclean shutdown: the chain object (cache included) is dropped without a flush and a
			// new one is started on the same database with a possibly different cache size; Y starts
			// it with the interrupt already requested, so the replay stops after its first block
			size, err := strconv.ParseUint(op[1:], 10, 64)
			if err != nil {
				return "bad-op"
			}
			c.cache = size
			var intr chan struct{}
			if op[0] == 'Y' {
				intr = make(chan struct{})
				close(intr)
			}
			ch, err := blockchain.New(&blockchain.Config{
				DB: r.in.db, ChainParams: r.b.params, TimeSource: blockchain.NewMedianTime(),
				UtxoCacheMaxSize: size, Interrupt: intr,
			})
			if op[0] == 'Y' {
				// whether anything had to be replayed (hence whether the start-up was interrupted)
				// depends on when the cache happened to flush: not compared
				if err != nil {
					ch = nil
				}
				r.in.chain = ch
				out = append(out, "y")
				continue
			}
			if err != nil {
				r.in.chain = nil
				out = append(out, "err")
				continue
			}
			r.in.chain = ch
			out = append(out, "ok")
		case 'J':
			// spend journal of any delivered block, active or not
			blk, ok := r.blocks[atoi(op[1:])]
			if !ok {
				return "bad-line"
			}
			st, err := r.in.chain.FetchSpendJournal(blk)
			active := false
			for _, id := range r.activeIDs() {
				if id == atoi(op[1:]) {
					active = true
				}
			}
			if !active {
				// the property fixes the undo data of ACTIVE blocks only; whether a record of an
				// inactive block is kept is not compared
				out = append(out, "inactive")
				continue
			}
			if err != nil {
				out = append(out, "err")
				continue
			}
			parts := make([]string, len(st))
			for i, x := range st {
				parts[i] = fmtEntry(x.Amount, x.PkScript, x.Height, x.IsCoinBase)
			}
			out = append(out, "j="+strings.Join(parts, ","))
		case 'V':
			id := atoi(op[1:])
			tx, ok := r.txs[id]
			if !ok {
				return "bad-line"
			}
			v, err := r.in.chain.FetchUtxoView(tx)
			if err != nil {
				out = append(out, "err")
				continue
			}
			sv := savedView{r.atxs[id], r.iscb[id], v}
			r.views = append(r.views, sv)
			out = append(out, r.viewStr(sv))
		case 'W':
			parts := make([]string, len(r.views))
			for i, sv := range r.views {
				parts[i] = r.viewStr(sv)
			}
			out = append(out, "w="+strings.Join(parts, "/"))
		case 'C':
			out = append(out, r.concurrentObserve())
		case 'R':
			// graceful restart: flush, drop the chain object, load everything back from the database
			if err := r.in.chain.FlushUtxoCache(blockchain.FlushRequired); err != nil {
				out = append(out, "err")
				continue
			}
			ch, err := blockchain.New(&blockchain.Config{
				DB: r.in.db, ChainParams: r.b.params, TimeSource: blockchain.NewMedianTime(), UtxoCacheMaxSize: c.cache,
			})
			if err != nil {
				out = append(out, "err")
				continue
			}
			r.in.chain = ch
			out = append(out, "ok")
		case 'O':
			out = append(out, r.observe())
		case 'Q':
			o := parseOp(op[1:])
			r.known[o] = true
			out = append(out, r.fetch(o))
		case 'D':
			// non-perturbing look at the real cache map and bucket: the abstraction for every known
			// outpoint and the cache's safety invariant (no internal policy is compared)
			rows, err := r.in.chain.VerifC03BucketDump()
			if err != nil {
				out = append(out, "err")
				continue
			}
			a, inv := absAndInv(r.in.chain.VerifC03CacheDump(), rows,
				func(h chainhash.Hash) (int, bool) { id, ok := r.b.txID[h]; return id, ok }, r.knownSorted())
			out = append(out, fmt.Sprintf("a=%s;inv=%d;t=%d", a, inv, r.in.chain.BestSnapshot().TotalTxns))
		default:
			return "bad-op"
		}
	}
	// inputs are values: the blocks and the parameters handed in (and reused by every later call)
	// must be exactly what they were
	p0 := makeParams(c0)
	if r.b.params.CoinbaseMaturity != p0.CoinbaseMaturity || r.b.params.BIP0034Height != p0.BIP0034Height ||
		r.b.params.PowLimitBits != p0.PowLimitBits || *r.b.params.GenesisHash != *p0.GenesisHash ||
		r.b.params.SubsidyReductionInterval != p0.SubsidyReductionInterval {
		out = append(out, "params-mutated")
	}
	for id, blk := range r.blocks {
		if string(rawBlock(blk)) != string(r.raw[id]) || *blk.Hash() != r.b.blkHash[id] {
			out = append(out, "block-mutated")
			break
		}
	}
	return strings.Join(out, "|")
}

// ---------------------------------------------------------------- cache level, stepping the real utxoCache

func cacheHash(t int) chainhash.Hash {
	return chainhash.Hash{0xc3, byte(t), byte(t >> 8)}
}

func execCache(ops []string) string {
	db := freshDB()
	c, err := blockchain.VerifC03NewCache(db)
	if err != nil {
		panic(err)
	}
	known := map[aOp]bool{}
	cid := func(h chainhash.Hash) (int, bool) {
		if h[0] != 0xc3 {
			return 0, false
		}
		return int(h[1]) | int(h[2])<<8, true
	}
	real := func(o aOp) wire.OutPoint { return wire.OutPoint{Hash: cacheHash(o.t), Index: uint32(o.i)} }
	var out []string
	for _, op := range ops {
		var res string
		switch op[0] {
		case 'a': // a<t.i>:<amt>:<script>:<cb>:<h>
			f := strings.Split(op[1:], ":")
			if len(f) != 5 {
				return "bad-op"
			}
			o := parseOp(f[0])
			known[o] = true
			err := c.AddTxOut(real(o), &wire.TxOut{Value: int64(atoi(f[1])), PkScript: unhexOrDash(f[2])}, f[3] == "1", int32(atoi(f[4])))
			res = "ok"
			if err != nil {
				res = "err"
			}
		case 's':
			known[parseOp(op[1:])] = true
			st, err := c.AddTxIn(real(parseOp(op[1:])))
			if err != nil {
				if _, ok := err.(blockchain.AssertError); ok {
					res = "assert"
				} else {
					res = "err"
				}
			} else {
				res = "ok:" + fmtEntry(st.Amount, st.PkScript, st.Height, st.IsCoinBase)
			}
		case 'f':
			o := parseOp(op[1:])
			known[o] = true
			e, err := c.Fetch(real(o))
			switch {
			case err != nil:
				res = "err"
			case e.Nil || e.Spent:
				res = "none"
			default:
				res = fmtEntry(e.Amount, e.PkScript, e.Height, e.CoinBase)
			}
		case 'w': // w<mode><full><due>:<best>
			if len(op) < 6 {
				return "bad-op"
			}
			best := cacheHash(atoi(op[5:]))
			if atoi(op[5:]) == 0 {
				best = chainhash.Hash{} // id 0 is the all-zero hash a new cache starts with
			}
			// threshold: 0 = limit far above the usage, 1 = limit 0; timer: 0 = just flushed,
			// 1 = twice the interval ago (the exact limits are internal tuning, not compared)
			if op[2] < '0' || op[2] > '1' || op[3] < '0' || op[3] > '1' {
				return "bad-op"
			}
			err := c.FlushEdge(flushMode(op[1]), int(op[2]-'0'), int(op[3]-'0'), best)
			res = "ok"
			if err != nil {
				res = "err"
			}
		default:
			return "bad-op"
		}
		rows, err := c.BucketDump()
		if err != nil {
			return "err"
		}
		var ks []aOp
		for o := range known {
			ks = append(ks, o)
		}
		sortOps(ks)
		ab, inv := absAndInv(c.Dump(), rows, cid, ks)
		out = append(out, fmt.Sprintf("%s;a=%s;inv=%d", res, ab, inv))
	}
	return strings.Join(out, "|")
}

// ---------------------------------------------------------------- facts (T2)

func (P) Facts() []core.Fact {
	return []core.Fact{
		{Name: "maxScriptSize", Value: int64(txscript.MaxScriptSize)},
		{Name: "opReturn", Value: int64(txscript.OP_RETURN)},
		{Name: "opData75", Value: int64(txscript.OP_DATA_75)},
		{Name: "opPushData1", Value: int64(txscript.OP_PUSHDATA1)},
		{Name: "opPushData2", Value: int64(txscript.OP_PUSHDATA2)},
		{Name: "opPushData4", Value: int64(txscript.OP_PUSHDATA4)},
	}
}

// ---------------------------------------------------------------- the exported UtxoViewpoint / UtxoEntry API on its own

func execView(ops []string) string {
	b := newBuilder(cfg{maturity: 1})
	view := blockchain.NewUtxoViewpoint()
	known := map[aOp]bool{}
	real := func(o aOp) wire.OutPoint {
		h, ok := b.txHash[o.t]
		if !ok {
			h = chainhash.Hash{0xee, byte(o.t), byte(o.t >> 8)}
			b.txHash[o.t] = h
			b.txID[h] = o.t
		}
		return wire.OutPoint{Hash: h, Index: uint32(o.i)}
	}
	entryStr := func(e *blockchain.UtxoEntry) string {
		if e == nil {
			return "nil"
		}
		fl := 0
		if e.IsSpent() {
			fl |= 1
		}
		return fmtEntry(e.Amount(), e.PkScript(), e.BlockHeight(), e.IsCoinBase()) + fmt.Sprintf(".%d", fl)
	}
	dump := func() string {
		ents := view.Entries()
		var ks []aOp
		for o := range known {
			ks = append(ks, o)
		}
		sortOps(ks)
		var parts []string
		n := 0
		for _, o := range ks {
			e, ok := ents[real(o)]
			if !ok {
				continue
			}
			n++
			parts = append(parts, fmt.Sprintf("%d.%d:%s", o.t, o.i, entryStr(e)))
		}
		if n != len(ents) {
			parts = append(parts, "stray")
		}
		return strings.Join(parts, ",")
	}
	var out []string
	for _, op := range ops {
		res := "ok"
		switch op[0] {
		case 'T', 'o': // T<cb>:<h>:<tx>   o<cb>:<h>:<idx>:<tx>
			f := strings.SplitN(op[1:], ":", 4)
			if (op[0] == 'T' && len(f) != 3) || (op[0] == 'o' && len(f) != 4) {
				return "bad-op"
			}
			cb, h := f[0] == "1", int32(atoi(f[1]))
			t := parseTx(f[len(f)-1])
			tx := btcutil.NewTx(b.tx(t, cb, h))
			if b.bad {
				return "bad-line"
			}
			for i := range t.outs {
				known[aOp{t.id, i}] = true
			}
			if op[0] == 'T' {
				view.AddTxOuts(tx, h)
			} else {
				view.AddTxOut(tx, uint32(atoi(f[2])), h)
			}
		case 'r':
			o := parseOp(op[1:])
			known[o] = true
			view.RemoveEntry(real(o))
		case 's':
			o := parseOp(op[1:])
			known[o] = true
			if e := view.LookupEntry(real(o)); e != nil {
				e.Spend()
			}
		case 'l':
			o := parseOp(op[1:])
			known[o] = true
			e := view.LookupEntry(real(o))
			po := view.FetchPrevOutput(real(o))
			res = entryStr(e)
			if (e == nil) != (po == nil) || (e != nil && (po.Value != e.Amount() || string(po.PkScript) != string(e.PkScript()))) {
				res = "incons"
			}
			if e != nil {
				c := e.Clone()
				if entryStr(c) != res || c == e {
					res = "badclone"
				}
			}
		case 'h':
			h := cacheHash(atoi(op[1:]))
			view.SetBestHash(&h)
			g := view.BestHash()
			res = fmt.Sprint(int(g[1]) | int(g[2])<<8)
		case 'e': // e<t.i>:<amt>:<script>:<h>:<cb>
			f := strings.Split(op[1:], ":")
			if len(f) != 5 {
				return "bad-op"
			}
			o := parseOp(f[0])
			known[o] = true
			view.Entries()[real(o)] = blockchain.NewUtxoEntry(
				&wire.TxOut{Value: int64(atoi(f[1])), PkScript: unhexOrDash(f[2])}, int32(atoi(f[3])), f[4] == "1")
		default:
			return "bad-op"
		}
		out = append(out, res+";v="+dump())
	}
	return strings.Join(out, "|")
}
