package p03

import (
	"fmt"
	"strings"

	"github.com/btcsuite/btcd/chainhash/v2"
	"verifharness/core"
)

// ---------------------------------------------------------------- generator-side simulation
//
// The generator keeps its own plain fold of every branch (a third, independent
// implementation used only to pick spendable inputs and legal duplicate
// coinbases); expectations always come from the Lean side.

type gEntry struct {
	amt    int64
	script []byte
	h      int
	cb     bool
}

type gNode struct {
	bad                bool // this block, or one below it on its branch, is invalid
	id, parent, height int
	blk                aBlock
	utxo               map[aOp]gEntry
}

type chainGen struct {
	r           *core.Rand
	c           cfg
	b           *builder
	nodes       map[int]*gNode
	tip         int
	nextB       int
	nextT       int
	ids         map[chainhash.Hash]int
	cbs         []aTx // every coinbase made so far
	ops         []string
	reorgs      int
	dups        int
	rejs        int
	chains      int // spends of outputs created in the same block
	unsp        int
	long        bool
	seen        map[string]bool
	delivered   []int
	byIns       map[string]aTx
	modelAlive  bool
	branchSpent []aOp // outputs spent on the branch being built since it left the active chain
	crashes     int
	crashy      bool
	badBranches int
	nviews      int
	restarts    int
	dupTxs      int
}

var spendableScripts = [][]byte{{0x51}, {0x51}, {0x51}, {0x52}, {0x53}, {0x01, 0x51}, {0x02, 0xab, 0xcd}, {0x60}}
var deadScripts = [][]byte{{0x6b}, {0x69}, {0x6a}, {0x6a, 0x04, 1, 2, 3, 4}, {0x4c}, {0x05, 0xaa, 0xbb}, {0x4d, 0x01}, {0x4e, 1, 0, 0}, nil, {0x00}}

func isOurs(s []byte) bool { // can the generator spend it with an empty signature script?
	for _, x := range spendableScripts {
		if string(x) == string(s) {
			return true
		}
	}
	return false
}

// unspendable mirrors what the generator believes btcd drops (used only to keep
// generated spends valid; wrong beliefs show up as `rej` mismatches).
func genUnspendable(s []byte) bool {
	if len(s) > 0 && s[0] == 0x6a {
		return true
	}
	if len(s) > 10000 {
		return true
	}
	for i := 0; i < len(s); {
		op := int(s[i])
		i++
		n := 0
		switch {
		case op >= 1 && op <= 75:
			n = op
		case op == 76:
			if i+1 > len(s) {
				return true
			}
			n = int(s[i])
			i++
		case op == 77:
			if i+2 > len(s) {
				return true
			}
			n = int(s[i]) | int(s[i+1])<<8
			i += 2
		case op == 78:
			if i+4 > len(s) {
				return true
			}
			n = int(s[i]) | int(s[i+1])<<8 | int(s[i+2])<<16 | int(s[i+3])<<24
			i += 4
		}
		if n < 0 || i+n > len(s) {
			return true
		}
		i += n
	}
	return false
}

func applyBlockG(u map[aOp]gEntry, blk aBlock, h int) map[aOp]gEntry {
	n := make(map[aOp]gEntry, len(u)+8)
	for k, v := range u {
		n[k] = v
	}
	for ti, t := range blk.txs {
		if ti > 0 {
			for _, in := range t.ins {
				delete(n, in)
			}
		}
		for i, o := range t.outs {
			if !genUnspendable(o.script) {
				n[aOp{t.id, i}] = gEntry{o.amt, o.script, h, ti == 0}
			}
		}
	}
	return n
}

func (g *chainGen) txID(t aTx, cb bool, height int32) int {
	t.id = g.nextT
	h := g.b.hashOnly(t, cb, height)
	if id, ok := g.ids[h]; ok {
		return id
	}
	g.ids[h] = g.nextT
	g.nextT++
	g.b.tx(t, cb, height) // record abstract id -> real hash for later references
	return t.id
}

func (g *chainGen) pickScript() []byte {
	r := g.r
	switch {
	case r.Chance(1, 6):
		g.unsp++
		return deadScripts[r.Intn(len(deadScripts))]
	case g.long && r.Chance(1, 40):
		g.unsp++
		s := make([]byte, 10001)
		for i := range s {
			s[i] = 0x51
		}
		return s
	case g.long && r.Chance(1, 40):
		s := make([]byte, 10000) // exactly at the limit: kept
		for i := range s {
			s[i] = 0x61
		}
		return s
	}
	return spendableScripts[r.Intn(len(spendableScripts))]
}

// makeBlock builds a block on parent p. kind: 0 valid, 1 missing input, 2 BIP30 overwrite, 3 immature spend.
func (g *chainGen) makeBlock(p *gNode, kind int) (aBlock, bool) {
	r := g.r
	height := p.height + 1
	blk := aBlock{id: g.nextB, parent: p.id}
	// coinbase: new, or a legitimately re-created earlier one
	var cb aTx
	dup := false
	if !g.c.bip34 && len(g.cbs) > 0 && (kind == 2 || r.Chance(1, 2)) {
		var cands []aTx
		for _, t := range g.cbs {
			present := false
			for i := range t.outs {
				if _, ok := p.utxo[aOp{t.id, i}]; ok {
					present = true
				}
			}
			if present == (kind == 2) {
				cands = append(cands, t)
			}
		}
		if len(cands) > 0 {
			cb = cands[r.Intn(len(cands))]
			dup = true
		}
	}
	if kind == 2 && !dup {
		return blk, false
	}
	if !dup {
		cb = aTx{}
		n := 1 + r.Intn(3)
		left := int64(5000000000 >> uint(height/150))
		for i := 0; i < n; i++ {
			a := left / int64(n-i)
			if r.Chance(1, 4) {
				a = r.Range(0, a)
			}
			left -= a
			cb.outs = append(cb.outs, aOut{a, g.pickScript()})
		}
		cb.id = g.txID(cb, true, int32(height))
		g.cbs = append(g.cbs, cb)
	} else if kind == 0 {
		g.dups++
	}
	blk.txs = append(blk.txs, cb)

	// spendable pool: mature outputs of the parent state we know how to spend
	type av struct {
		o aOp
		e gEntry
	}
	var pool, immature []av
	for o, e := range p.utxo {
		if !isOurs(e.script) {
			continue
		}
		if e.cb && e.h+g.c.maturity > height {
			immature = append(immature, av{o, e})
			continue
		}
		pool = append(pool, av{o, e})
	}
	sortAv := func(x []av) {
		for i := 1; i < len(x); i++ {
			for j := i; j > 0 && (x[j].o.t < x[j-1].o.t || (x[j].o.t == x[j-1].o.t && x[j].o.i < x[j-1].o.i)); j-- {
				x[j], x[j-1] = x[j-1], x[j]
			}
		}
	}
	sortAv(pool)
	sortAv(immature)
	inBlock := map[aOp]bool{}
	ntx := r.Intn(4)
	if kind != 0 && ntx == 0 {
		ntx = 1
	}
	badAt := -1
	if kind == 1 || kind == 3 || kind == 4 || kind == 5 {
		badAt = r.Intn(ntx)
	}
	for k := 0; k < ntx; k++ {
		var t aTx
		var total int64
		nin := 1 + r.Intn(3)
		for i := 0; i < nin && len(pool) > 0; i++ {
			// prefer coinbase outputs now and then, so that coinbases become fully spent
			j := r.Intn(len(pool))
			if r.Chance(1, 2) {
				for jj := range pool {
					if pool[jj].e.cb {
						j = jj
						break
					}
				}
			}
			// now and then spend what the transaction just before this one created
			if last := len(pool) - 1; inBlock[pool[last].o] && r.Chance(1, 3) {
				j = last
			}
			if inBlock[pool[j].o] {
				g.chains++
			}
			t.ins = append(t.ins, pool[j].o)
			total += pool[j].e.amt
			pool = append(pool[:j], pool[j+1:]...)
		}
		if k == badAt {
			switch kind {
			case 1:
				if r.Bool() || len(t.ins) == 0 {
					t.ins = append(t.ins, aOp{g.nextT + 1000, 0}) // never created
				} else {
					t.ins = append(t.ins, t.ins[0]) // double spend inside the transaction
				}
			case 3:
				if len(immature) == 0 {
					return blk, false
				}
				t.ins = append(t.ins, immature[0].o)
			case 4:
				// an output an earlier block of the same branch already spent (it is still unspent
				// on the active chain): only a validation that follows the branch sees it
				if len(g.branchSpent) == 0 {
					return blk, false
				}
				t.ins = append(t.ins, g.branchSpent[r.Intn(len(g.branchSpent))])
			case 5:
				t.ins = append(t.ins, aOp{g.nextT + 1000, 0}) // never created
			}
		}
		if len(t.ins) == 0 {
			break
		}
		// the same inputs as an earlier transaction (possible once a duplicate coinbase was
		// re-created): now and then repeat that transaction exactly, which re-creates its txid
		key := fmt.Sprint(t.ins)
		if prev, ok := g.byIns[key]; ok && kind == 0 && r.Chance(1, 2) {
			free := true
			for i := range prev.outs {
				if _, present := p.utxo[aOp{prev.id, i}]; present {
					free = false
				}
			}
			for _, x := range blk.txs {
				if x.id == prev.id {
					free = false
				}
			}
			if free {
				blk.txs = append(blk.txs, prev)
				g.dupTxs++
				for i, o := range prev.outs {
					if !genUnspendable(o.script) && isOurs(o.script) {
						op := aOp{prev.id, i}
						pool = append(pool, av{op, gEntry{o.amt, o.script, height, false}})
						inBlock[op] = true
					}
				}
				continue
			}
		}
		nout := 1 + r.Intn(3)
		left := total - r.Range(0, total/10)
		for i := 0; i < nout; i++ {
			a := left / int64(nout-i)
			if r.Chance(1, 4) {
				a = r.Range(0, a)
			}
			left -= a
			t.outs = append(t.outs, aOut{a, g.pickScript()})
		}
		t.id = g.txID(t, false, int32(height))
		dupTx := false
		for _, x := range blk.txs {
			if x.id == t.id {
				dupTx = true
			}
		}
		if dupTx {
			break
		}
		// a re-created non-coinbase txid must not overwrite unspent outputs either
		if kind == 0 {
			over := false
			for i := range t.outs {
				if _, ok := p.utxo[aOp{t.id, i}]; ok {
					over = true
				}
			}
			if over {
				break
			}
		}
		blk.txs = append(blk.txs, t)
		if kind == 0 {
			g.byIns[key] = t
		}
		for i, o := range t.outs {
			if !genUnspendable(o.script) && isOurs(o.script) {
				op := aOp{t.id, i}
				pool = append(pool, av{op, gEntry{o.amt, o.script, height, false}})
				inBlock[op] = true
			}
		}
	}
	if kind == 1 || kind == 3 || kind == 4 || kind == 5 {
		if len(blk.txs) <= badAt+1 {
			return blk, false
		}
	}
	sig := fmt.Sprint(blk.parent)
	for _, t := range blk.txs {
		sig += fmt.Sprintf(",%d", t.id)
	}
	if g.seen[sig] {
		return blk, false // the very same block again (same parent, same transactions)
	}
	g.seen[sig] = true
	g.nextB++
	return blk, true
}

func (g *chainGen) deliver(blk aBlock, valid bool) {
	g.ops = append(g.ops, blk.String())
	for _, t := range blk.txs {
		g.delivered = append(g.delivered, t.id)
	}
	if !valid {
		g.rejs++
		return
	}
	p := g.nodes[blk.parent]
	n := &gNode{id: blk.id, parent: p.id, height: p.height + 1, blk: blk}
	n.utxo = applyBlockG(p.utxo, blk, n.height)
	g.nodes[n.id] = n
	if n.height > g.nodes[g.tip].height {
		if n.parent != g.tip {
			g.reorgs++
		}
		g.tip = n.id
	}
}

func (g *chainGen) ancestorAt(n *gNode, h int) *gNode {
	for n.height > h {
		n = g.nodes[n.parent]
	}
	return n
}

func (g *chainGen) forkOf(a, b *gNode) *gNode {
	for a.id != b.id {
		if a.height >= b.height {
			a = g.nodes[a.parent]
		} else {
			b = g.nodes[b.parent]
		}
	}
	return a
}

// deliverX delivers a block that is valid (bad=false) or invalid only in its branch context
// (bad=true: accepted as a side-chain block, found out when the branch tries to take over), and,
// with k > 0, lets the process die after the k-th committed (dis)connection of the call,
// followed by a start-up with cache `size`.
func (g *chainGen) deliverX(blk aBlock, bad bool, k int, size uint64) {
	tok := blk.String()
	if k > 0 {
		tok = fmt.Sprintf("K%d:%d:%s", k, size, tok[1:])
	}
	g.ops = append(g.ops, tok)
	for _, t := range blk.txs {
		g.delivered = append(g.delivered, t.id)
	}
	p := g.nodes[blk.parent]
	n := &gNode{id: blk.id, parent: p.id, height: p.height + 1, blk: blk, bad: bad || p.bad}
	n.utxo = applyBlockG(p.utxo, blk, n.height)
	g.nodes[n.id] = n
	old := g.nodes[g.tip]
	if n.height <= old.height {
		return
	}
	if n.bad {
		g.rejs++
		g.badBranches++
		return // the reorganisation is refused, nothing moves
	}
	fork := g.forkOf(old, n)
	nd, na := old.height-fork.height, n.height-fork.height
	if nd > 0 {
		g.reorgs++
	}
	if k > 0 && k <= nd+na {
		if k <= nd {
			g.tip = g.ancestorAt(old, old.height-k).id
		} else {
			g.tip = g.ancestorAt(n, fork.height+(k-nd)).id
		}
		g.c.cache = size
		g.crashes++
		g.restarts++
		return
	}
	g.tip = n.id
}

func (g *chainGen) pickSize() uint64 {
	switch x := g.r.Intn(5); {
	case x < 2:
		return 0
	case x < 4:
		return hugeCache
	}
	return uint64(g.r.Range(200, 40000))
}

func (g *chainGen) extend(p *gNode) bool {
	blk, ok := g.makeBlock(p, 0)
	if !ok {
		return false
	}
	if g.crashy && g.r.Chance(1, 12) {
		g.deliverX(blk, false, 1+g.r.Intn(2), g.pickSize())
	} else {
		g.deliver(blk, true)
	}
	return true
}

func (g *chainGen) observe() {
	r := g.r
	dumpOK := g.dumpOK()
	switch r.Intn(8) {
	case 6:
		if len(g.delivered) > 0 {
			g.ops = append(g.ops, fmt.Sprintf("V%d", g.delivered[r.Intn(len(g.delivered))]))
			g.nviews++
		}
		return
	case 7:
		if r.Chance(1, 3) && g.nextB > 1 {
			// journal of any block delivered so far (rejected ones have ids >= nextB and are skipped)
			g.ops = append(g.ops, fmt.Sprintf("J%d", 1+r.Intn(g.nextB-1)))
			return
		}
		if g.nviews > 0 && r.Bool() {
			g.ops = append(g.ops, "W")
		} else {
			g.ops = append(g.ops, "C")
		}
		return
	}
	switch r.Intn(6) {
	case 0, 1:
		g.ops = append(g.ops, "O")
	case 2:
		if r.Chance(1, 3) {
			g.ops = append(g.ops, "R")
		} else {
			g.ops = append(g.ops, "P")
		}
	case 3:
		if dumpOK {
			g.ops = append(g.ops, "D")
		} else {
			g.ops = append(g.ops, "O")
		}
	default:
		// single fetch of some outpoint of some known transaction
		if r.Chance(1, 10) {
			g.ops = append(g.ops, fmt.Sprintf("Q%d.%d", 5000+r.Intn(3), r.Intn(2))) // a transaction nobody made
		} else if len(g.delivered) > 0 {
			g.ops = append(g.ops, fmt.Sprintf("Q%d.%d", g.delivered[r.Intn(len(g.delivered))], r.Intn(4)))
		}
	}
}

const hugeCache = 2 << 20

// dumpOK: the dump op compares the abstraction and the safety invariant only, for any cache size.
func (g *chainGen) dumpOK() bool { return true }

// restart emits unclean shutdowns: possibly interrupted start-ups (Y) followed by one that
// completes (X), with cache sizes that differ from the one used before.
func (g *chainGen) restart() {
	r := g.r
	pick := func(known bool) uint64 {
		switch x := r.Intn(5); {
		case x < 2:
			return 0
		case x < 4 || known:
			return hugeCache
		}
		return uint64(r.Range(200, 40000))
	}
	for n := r.Intn(3); n > 0; n-- {
		g.c.cache = pick(false)
		g.ops = append(g.ops, fmt.Sprintf("Y%d", g.c.cache))
	}
	g.c.cache = pick(false)
	if g.c.cache != 0 && g.c.cache != hugeCache {
		g.modelAlive = false
	}
	g.ops = append(g.ops, fmt.Sprintf("X%d", g.c.cache))
	g.restarts++
}

// genChain makes one `chain` line. profile: 0 extend-only without flush ops, 1 mixed, 2 reorg heavy,
// 3 re-creation heavy (duplicate coinbases, spends, flushes).
// genChain never lets a panic of the real code it calls while generating (transaction
// hashing through the builder) escape: such a line is replaced by a trivial one.
func genChain(r *core.Rand, profile int, maxOps int, long bool) (line string, class string, nt bool) {
	defer func() {
		if recover() != nil {
			line, class, nt = "C03 chain 0:1:0 O", "chain-gen-panic", false
		}
	}()
	return genChainRaw(r, profile, maxOps, long)
}

func genChainRaw(r *core.Rand, profile int, maxOps int, long bool) (string, string, bool) {
	c := cfg{maturity: int(r.Pick(1, 1, 1, 2, 3))}
	switch r.Intn(4) {
	case 0:
		c.cache = 0
	case 1, 2:
		c.cache = hugeCache
	default:
		c.cache = uint64(r.Range(200, 40000))
	}
	c.bip34 = profile != 3 && r.Chance(1, 4)
	if profile == 3 {
		c.maturity = 1
		if r.Chance(3, 4) {
			c.cache = hugeCache
		}
	}
	g := &chainGen{r: r, c: c, b: newBuilder(c), nodes: map[int]*gNode{}, nextB: 1, nextT: 1,
		ids: map[chainhash.Hash]int{}, long: long, seen: map[string]bool{}, byIns: map[string]aTx{}}
	g.nodes[0] = &gNode{utxo: map[aOp]gEntry{}}
	g.modelAlive = c.cache == 0 || c.cache == hugeCache
	g.crashy = profile != 0
	cfg0 := c
	n := 3 + r.Intn(maxOps)
	for step := 0; step < n; step++ {
		x := r.Intn(100)
		switch {
		case profile == 0 || x < 50:
			g.extend(g.nodes[g.tip])
		case x < 58 && profile != 3:
			// invalid extension of the tip
			blk, ok := g.makeBlock(g.nodes[g.tip], 1+r.Intn(3))
			if ok {
				g.deliver(blk, false)
			}
		case x < 72 || (profile == 2 && x < 85):
			// fork below the tip and overtake it, or grow a stale leaf until it overtakes
			tip := g.nodes[g.tip]
			var from *gNode
			if r.Chance(1, 3) && len(g.nodes) > 2 {
				for _, id := range sortedIDs(g.nodes) {
					nd := g.nodes[id]
					if nd.id != g.tip && !nd.bad && nd.height <= tip.height && r.Chance(1, 3) {
						from = nd
					}
				}
			}
			if from == nil {
				from = tip
				for d := 1 + r.Intn(4); d > 0 && from.id != 0; d-- {
					from = g.nodes[from.parent]
				}
			}
			if from.bad {
				break
			}
			// now and then one block of the overtaking branch (first, middle or last) is invalid in
			// a way only the branch's own history shows; now and then the process dies inside the
			// reorganisation
			m := tip.height - from.height + 1
			badPos, badKind := -1, 0
			if profile != 0 && from.id != g.tip && r.Chance(1, 5) {
				badPos = r.Intn(m)
				badKind = int(r.Pick(2, 3, 4, 4, 5))
			}
			forkNode := g.forkOf(tip, from)
			for i := 0; from.height <= tip.height; i++ {
				kind := 0
				if i == badPos && from.id != g.tip {
					kind = badKind
					g.branchSpent = g.branchSpent[:0]
					for o, e := range forkNode.utxo {
						if _, still := from.utxo[o]; !still && isOurs(e.script) && !(e.cb && e.h+g.c.maturity > from.height+1) {
							g.branchSpent = append(g.branchSpent, o)
						}
					}
					sortOps(g.branchSpent)
				}
				blk, ok := g.makeBlock(from, kind)
				if !ok && kind != 0 {
					kind = 0
					blk, ok = g.makeBlock(from, 0)
				}
				if !ok {
					break
				}
				k := 0
				var size uint64
				last := from.height == tip.height
				if last && profile != 0 && !from.bad && kind == 0 && r.Chance(1, 3) {
					k = 1 + r.Intn(tip.height-forkNode.height+m+1)
					size = g.pickSize()
				}
				g.deliverX(blk, kind != 0, k, size)
				from = g.nodes[blk.id]
				if g.tip != tip.id && g.tip != from.id {
					break // died inside the reorganisation: the tip is somewhere in between
				}
				if profile != 0 && r.Chance(1, 5) {
					g.observe()
				}
			}
		case x < 82:
			g.ops = append(g.ops, "F"+string("rpi"[r.Intn(3)]))
		case x < 88 && profile != 0:
			g.restart()
			if r.Chance(1, 2) {
				g.observe()
			}
		default:
			g.observe()
		}
		if profile != 0 && r.Chance(1, 6) {
			g.observe()
		}
	}
	g.ops = append(g.ops, "O")
	if g.dumpOK() {
		g.ops = append(g.ops, "D")
	}
	if profile != 0 && r.Chance(1, 3) {
		g.restart()
		g.ops = append(g.ops, "O")
		if g.dumpOK() {
			g.ops = append(g.ops, "D")
		}
	}
	g.ops = append(g.ops, "P", "O")
	if g.nviews > 0 {
		g.ops = append(g.ops, "W")
	}
	c = cfg0
	class := "chain"
	switch {
	case g.dups > 0 && g.reorgs > 0:
		class += "-recreate-reorg"
	case g.dups > 0:
		class += "-recreate"
	case g.reorgs > 0:
		class += "-reorg"
	default:
		class += "-extend"
	}
	switch {
	case c.cache == 0:
		class += "-cache0"
	case c.cache == hugeCache:
		class += "-cacheinf"
	default:
		class += "-cachemid"
	}
	if c.bip34 {
		class += "-bip34"
	}
	if g.restarts > 0 {
		class += "-crash"
	}
	if g.crashes > 0 {
		class += "-midcrash"
	}
	if g.badBranches > 0 {
		class += "-badbranch"
	}
	line := fmt.Sprintf("C03 chain %d:%d:%d %s", b2i(c.bip34), c.maturity, c.cache, strings.Join(g.ops, " "))
	return line, class, g.nextB > 2
}

func sortedIDs(m map[int]*gNode) []int {
	ids := make([]int, 0, len(m))
	for id := range m {
		ids = append(ids, id)
	}
	for i := 1; i < len(ids); i++ {
		for j := i; j > 0 && ids[j] < ids[j-1]; j-- {
			ids[j], ids[j-1] = ids[j-1], ids[j]
		}
	}
	return ids
}

func b2i(b bool) int {
	if b {
		return 1
	}
	return 0
}

// ---------------------------------------------------------------- cache lines

func genCache(r *core.Rand, maxOps int) (string, bool) {
	n := 3 + r.Intn(maxOps)
	nOps := 2 + r.Intn(4) // few outpoints, so that they collide often
	var ops []string
	scripts := []string{"51", "51", "52", "-", "6a", "0151", "4c", "6a01ff"}
	dead := map[string]bool{"6a": true, "4c": true, "6a01ff": true}
	present := map[string]bool{} // the generator's own plain set, to keep additions legal
	best := 0
	for i := 0; i < n; i++ {
		o := fmt.Sprintf("%d.%d", 1+r.Intn(nOps), r.Intn(2))
		switch x := r.Intn(100); {
		case x < 35:
			// an output is only ever added while it is absent (BIP30); what happens otherwise is
			// not fixed by the property
			if present[o] {
				ops = append(ops, "s"+o)
				delete(present, o)
				continue
			}
			sc := scripts[r.Intn(len(scripts))]
			ops = append(ops, fmt.Sprintf("a%s:%d:%s:%d:%d", o, r.Range(0, 5000), sc, r.Intn(2), 1+r.Intn(9)))
			if !dead[sc] {
				present[o] = true
			}
		case x < 65:
			ops = append(ops, "s"+o)
			delete(present, o)
		case x < 80:
			ops = append(ops, "f"+o)
		default:
			if r.Chance(2, 3) {
				best++
			}
			// threshold: 0 far above the usage, 1 zero; timer: 0 just flushed, 1 long ago
			ops = append(ops, fmt.Sprintf("w%c%d%d:%d", "rpi"[r.Intn(3)], r.Intn(2), r.Intn(2), best))
		}
	}
	return "C03 cache " + strings.Join(ops, " "), n >= 4
}

// genView makes a `view` line: the exported UtxoViewpoint / UtxoEntry API on a bare view.
func genView(r *core.Rand) string {
	n := 3 + r.Intn(14)
	scripts := []string{"51", "52", "-", "6a", "0151", "4c", "6a01ff", "53"}
	mkTx := func(id int, cb bool) string {
		ins := "-"
		if !cb {
			ins = fmt.Sprintf("%d.%d", 50+r.Intn(3), r.Intn(2))
		}
		k := 1 + r.Intn(3)
		outs := make([]string, k)
		for i := range outs {
			outs[i] = fmt.Sprintf("%d.%s", r.Range(0, 900)+int64(1000*id), scripts[r.Intn(len(scripts))])
		}
		return fmt.Sprintf("%d;%s;%s", id, ins, strings.Join(outs, ","))
	}
	txs := map[int]string{}
	cbs := map[int]bool{}
	var ops []string
	// outpoints of transactions defined so far, or of transactions nobody defines (ids 60..)
	op := func() string {
		var ids []int
		for id := 1; id <= 4; id++ {
			if _, ok := txs[id]; ok {
				ids = append(ids, id)
			}
		}
		if len(ids) == 0 || r.Chance(1, 8) {
			return fmt.Sprintf("%d.%d", 60+r.Intn(2), r.Intn(2))
		}
		return fmt.Sprintf("%d.%d", ids[r.Intn(len(ids))], r.Intn(4))
	}
	for i := 0; i < n; i++ {
		switch x := r.Intn(100); {
		case x < 40:
			id := 1 + r.Intn(4)
			if _, ok := txs[id]; !ok {
				cbs[id] = r.Chance(1, 3)
				txs[id] = mkTx(id, cbs[id])
			}
			if r.Chance(2, 3) {
				ops = append(ops, fmt.Sprintf("T%d:%d:%s", b2i(cbs[id]), 1+r.Intn(9), txs[id]))
			} else {
				ops = append(ops, fmt.Sprintf("o%d:%d:%d:%s", b2i(cbs[id]), 1+r.Intn(9), r.Intn(5), txs[id]))
			}
		case x < 52:
			ops = append(ops, "r"+op())
		case x < 68:
			ops = append(ops, "s"+op())
		case x < 84:
			ops = append(ops, "l"+op())
		case x < 90:
			ops = append(ops, fmt.Sprintf("h%d", r.Intn(300)))
		default:
			ops = append(ops, fmt.Sprintf("e%s:%d:%s:%d:%d", op(), r.Range(0, 5000), scripts[r.Intn(len(scripts))], r.Intn(9), r.Intn(2)))
		}
	}
	return "C03 view " + strings.Join(ops, " ")
}

func (P) Generate(g *core.Gen) {
	r := g.R
	for i, n := 0, g.N(100, 600); i < n; i++ {
		line, class, nt := genChain(r.Fork(), 0, 12, false)
		g.Case(class, nt, line)
	}
	for i, n := 0, g.N(300, 2500); i < n; i++ {
		line, class, nt := genChain(r.Fork(), 1, 22, i%50 == 0)
		g.Case(class, nt, line)
	}
	for i, n := 0, g.N(200, 2000); i < n; i++ {
		line, class, nt := genChain(r.Fork(), 2, 22, false)
		g.Case(class, nt, line)
	}
	for i, n := 0, g.N(300, 2500); i < n; i++ {
		line, class, nt := genChain(r.Fork(), 3, 26, false)
		g.Case(class, nt, line)
	}
	// longer histories (thorough only): deeper trees, more flush/re-creation interleavings
	for i, n := 0, g.N(0, 400); i < n; i++ {
		line, class, nt := genChain(r.Fork(), 1+i%3, 60, false)
		g.Case(class+"-long", nt, line)
	}
	// independent instances side by side (hidden shared state between chains / caches)
	for i, n := 0, g.N(15, 150); i < n; i++ {
		var subs []string
		for k := 0; k < multiMax; k++ {
			line, _, _ := genChain(r.Fork(), 1+(i+k)%3, 6+2*k, false)
			subs = append(subs, strings.TrimPrefix(line, "C03 chain "))
		}
		g.Case("multi8", true, "C03 multi "+strings.Join(subs, " ## "))
	}
	for i, n := 0, g.N(200, 3000); i < n; i++ {
		g.Case("view", true, genView(r.Fork()))
	}
	for i, n := 0, g.N(1000, 12000); i < n; i++ {
		line, nt := genCache(r.Fork(), 24)
		g.Case("cache", nt, line)
	}
}

// DebugGen returns a few generated lines of one kind (development aid).
func DebugGen(r *core.Rand, kind string) []string {
	var out []string
	for i := 0; i < 20; i++ {
		switch kind {
		case "cache":
			l, _ := genCache(r.Fork(), 24)
			out = append(out, l)
		default:
			l, _, _ := genChain(r.Fork(), int(kind[0]-'0'), 22, false)
			out = append(out, l)
		}
	}
	return out
}
