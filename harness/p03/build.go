// Package p03: correspondence for C03 (UTXO set, spend journal and persisted
// set equal the fold of the active chain).
package p03

import (
	"encoding/binary"
	"encoding/hex"
	"fmt"
	"math/big"
	"os"
	"strconv"
	"strings"
	"sync"
	"time"

	"github.com/btcsuite/btcd/blockchain"
	"github.com/btcsuite/btcd/btcutil/v2"
	"github.com/btcsuite/btcd/chaincfg/v2"
	"github.com/btcsuite/btcd/chainhash/v2"
	"github.com/btcsuite/btcd/database"
	_ "github.com/btcsuite/btcd/database/ffldb"
	"github.com/btcsuite/btcd/wire/v2"
)

// ---------------------------------------------------------------- abstract blocks (what the line carries)

type aOut struct {
	amt    int64
	script []byte
}

type aOp struct{ t, i int } // outpoint: abstract txid, output index

type aTx struct {
	id   int
	ins  []aOp
	outs []aOut
}

type aBlock struct {
	id, parent int
	txs        []aTx // txs[0] is the coinbase (ins empty)
}

type cfg struct {
	bip34    bool // BIP34 active from genesis (then the BIP30 scan is skipped by btcd)
	maturity int
	cache    uint64
}

func hexOrDash(b []byte) string {
	if len(b) == 0 {
		return "-"
	}
	return hex.EncodeToString(b)
}

func unhexOrDash(s string) []byte {
	if s == "-" {
		return nil
	}
	b, err := hex.DecodeString(s)
	if err != nil {
		panic("bad hex")
	}
	return b
}

func (t aTx) String() string {
	ins := make([]string, len(t.ins))
	for i, o := range t.ins {
		ins[i] = fmt.Sprintf("%d.%d", o.t, o.i)
	}
	outs := make([]string, len(t.outs))
	for i, o := range t.outs {
		outs[i] = fmt.Sprintf("%d.%s", o.amt, hexOrDash(o.script))
	}
	is, os := strings.Join(ins, ","), strings.Join(outs, ",")
	if is == "" {
		is = "-"
	}
	if os == "" {
		os = "-"
	}
	return fmt.Sprintf("%d;%s;%s", t.id, is, os)
}

func (b aBlock) String() string {
	txs := make([]string, len(b.txs))
	for i, t := range b.txs {
		txs[i] = t.String()
	}
	return fmt.Sprintf("B%d:%d:%s", b.id, b.parent, strings.Join(txs, "/"))
}

func atoi(s string) int {
	v, err := strconv.Atoi(s)
	if err != nil {
		panic("bad int " + s)
	}
	return v
}

func parseOp(s string) aOp {
	p := strings.Split(s, ".")
	if len(p) != 2 {
		panic("bad outpoint")
	}
	return aOp{atoi(p[0]), atoi(p[1])}
}

func parseTx(s string) aTx {
	f := strings.Split(s, ";")
	if len(f) != 3 {
		panic("bad tx")
	}
	t := aTx{id: atoi(f[0])}
	if f[1] != "-" {
		for _, x := range strings.Split(f[1], ",") {
			t.ins = append(t.ins, parseOp(x))
		}
	}
	if f[2] != "-" {
		for _, x := range strings.Split(f[2], ",") {
			p := strings.Split(x, ".")
			if len(p) != 2 {
				panic("bad out")
			}
			a, err := strconv.ParseInt(p[0], 10, 64)
			if err != nil {
				panic("bad amount")
			}
			t.outs = append(t.outs, aOut{a, unhexOrDash(p[1])})
		}
	}
	return t
}

func parseBlock(s string) aBlock {
	f := strings.Split(s[1:], ":")
	if len(f) != 3 {
		panic("bad block")
	}
	b := aBlock{id: atoi(f[0]), parent: atoi(f[1])}
	for _, x := range strings.Split(f[2], "/") {
		b.txs = append(b.txs, parseTx(x))
	}
	return b
}

func parseCfg(s string) cfg {
	f := strings.Split(s, ":")
	if len(f) != 3 {
		panic("bad cfg")
	}
	c, err := strconv.ParseUint(f[2], 10, 64)
	if err != nil {
		panic("bad cache size")
	}
	return cfg{bip34: f[0] == "1", maturity: atoi(f[1]), cache: c}
}

// ---------------------------------------------------------------- real blocks from abstract ones

const baseTime = 1356998400 // 2013-01-01, after the BIP16 switch-over time

// builder turns abstract transactions and blocks into real btcd ones.  The
// map abstract txid <-> real hash must be a bijection; bad reports a line that
// breaks it (a generator defect, never a property of btcd).
type builder struct {
	c       cfg
	params  *chaincfg.Params
	txHash  map[int]chainhash.Hash
	txID    map[chainhash.Hash]int
	blkHash map[int]chainhash.Hash
	blkH    map[int]int32
	blkID   map[chainhash.Hash]int
	bad     bool
}

func makeParams(c cfg) *chaincfg.Params {
	p := chaincfg.RegressionNetParams
	p.CoinbaseMaturity = uint16(c.maturity)
	p.Checkpoints = nil
	// the shipped starters/enders are shared objects that remember one chain's clock: give
	// every instance its own
	for i := range p.Deployments {
		d := &p.Deployments[i]
		if st, ok := d.DeploymentStarter.(*chaincfg.MedianTimeDeploymentStarter); ok {
			d.DeploymentStarter = chaincfg.NewMedianTimeDeploymentStarter(st.StartTime())
		}
		if en, ok := d.DeploymentEnder.(*chaincfg.MedianTimeDeploymentEnder); ok {
			d.DeploymentEnder = chaincfg.NewMedianTimeDeploymentEnder(en.EndTime())
		}
	}
	if c.bip34 {
		p.BIP0034Height = 0
		h := *p.GenesisHash
		p.BIP0034Hash = &h
	} else {
		p.BIP0034Height = 100000000
		p.BIP0034Hash = nil
	}
	return &p
}

func newBuilder(c cfg) *builder {
	p := makeParams(c)
	b := &builder{c: c, params: p, txHash: map[int]chainhash.Hash{}, txID: map[chainhash.Hash]int{},
		blkHash: map[int]chainhash.Hash{}, blkH: map[int]int32{}, blkID: map[chainhash.Hash]int{}}
	b.blkHash[0] = *p.GenesisHash
	b.blkH[0] = 0
	b.blkID[*p.GenesisHash] = 0
	return b
}

func (b *builder) msgTx(t aTx, coinbase bool, height int32) *wire.MsgTx {
	m := wire.NewMsgTx(1)
	if coinbase {
		var sig []byte
		if b.c.bip34 {
			// minimally encoded height, as BIP34 enforcement demands
			if height >= 1 && height <= 16 {
				sig = []byte{0x50 + byte(height)}
			} else {
				var le []byte
				for v := height; v > 0; v >>= 8 {
					le = append(le, byte(v))
				}
				if le[len(le)-1]&0x80 != 0 {
					le = append(le, 0)
				}
				sig = append([]byte{byte(len(le))}, le...)
			}
		}
		var idb [4]byte
		binary.LittleEndian.PutUint32(idb[:], uint32(t.id))
		sig = append(sig, 4)
		sig = append(sig, idb[:]...)
		m.AddTxIn(&wire.TxIn{PreviousOutPoint: *wire.NewOutPoint(&chainhash.Hash{}, wire.MaxPrevOutIndex),
			SignatureScript: sig, Sequence: wire.MaxTxInSequenceNum})
	} else {
		for _, in := range t.ins {
			h, ok := b.txHash[in.t]
			if !ok {
				// reference to a transaction the line never defined: a hash nobody has
				h = chainhash.Hash{0xee, byte(in.t), byte(in.t >> 8)}
				b.txHash[in.t] = h
				b.txID[h] = in.t
			}
			m.AddTxIn(&wire.TxIn{PreviousOutPoint: wire.OutPoint{Hash: h, Index: uint32(in.i)},
				Sequence: wire.MaxTxInSequenceNum})
		}
	}
	for i, o := range t.outs {
		sc := o.script
		if len(sc) == 0 && (t.id+i)%2 == 1 {
			sc = []byte{} // empty but non-nil, every other time
		}
		m.AddTxOut(&wire.TxOut{Value: o.amt, PkScript: sc})
	}
	return m
}

// hashOnly is the real txid the abstract transaction would get, without recording it.
func (b *builder) hashOnly(t aTx, coinbase bool, height int32) chainhash.Hash {
	return b.msgTx(t, coinbase, height).TxHash()
}

func (b *builder) tx(t aTx, coinbase bool, height int32) *wire.MsgTx {
	m := b.msgTx(t, coinbase, height)
	h := m.TxHash()
	if old, ok := b.txHash[t.id]; ok && old != h {
		b.bad = true
	}
	if old, ok := b.txID[h]; ok && old != t.id {
		b.bad = true
	}
	b.txHash[t.id] = h
	b.txID[h] = t.id
	return m
}

func (b *builder) block(a aBlock) *btcutil.Block {
	ph, ok := b.blkHash[a.parent]
	if !ok {
		b.bad = true
		return nil
	}
	height := b.blkH[a.parent] + 1
	var mb wire.MsgBlock
	for i, t := range a.txs {
		mb.AddTransaction(b.tx(t, i == 0, height))
	}
	utx := make([]*btcutil.Tx, len(mb.Transactions))
	for i, t := range mb.Transactions {
		utx[i] = btcutil.NewTx(t)
	}
	mb.Header = wire.BlockHeader{
		Version:    0x20000000,
		PrevBlock:  ph,
		MerkleRoot: blockchain.CalcMerkleRoot(utx, false),
		Timestamp:  time.Unix(baseTime+int64(height)*600, 0),
		Bits:       b.params.PowLimitBits,
	}
	target := blockchain.CompactToBig(mb.Header.Bits)
	for n := uint32(0); ; n++ {
		mb.Header.Nonce = n
		h := mb.Header.BlockHash()
		if blockchain.HashToBig(&h).Cmp(target) <= 0 {
			break
		}
	}
	h := mb.Header.BlockHash()
	if _, dup := b.blkHash[a.id]; dup {
		b.bad = true
	}
	if _, dup := b.blkID[h]; dup {
		b.bad = true
	}
	b.blkHash[a.id] = h
	b.blkH[a.id] = height
	b.blkID[h] = a.id
	blk := btcutil.NewBlock(&mb)
	blk.SetHeight(height)
	return blk
}

// ---------------------------------------------------------------- chain instance

type inst struct {
	chain *blockchain.BlockChain
	db    database.DB
}

// One ffldb instance serves every case of a run: creating and closing a
// leveldb-backed database costs far more than a whole case.  Before a case the
// metadata is wiped completely (all buckets and keys), which is everything
// btcd's chain state and utxo state live in; stored block bodies stay behind,
// addressed by hash, and are reused when an identical block is stored again.
var (
	sharedDBs  [multiMax]database.DB
	sharedDirs [multiMax]string
	poolMu     sync.Mutex
)

// multiMax is the number of chain instances a `multi` line may run at once.
const multiMax = 8

func cleanStale() {
	root := tmpRoot()
	if root == "" {
		root = os.TempDir()
	}
	ents, _ := os.ReadDir(root)
	for _, e := range ents {
		if !strings.HasPrefix(e.Name(), "c03-") {
			continue
		}
		if fi, err := e.Info(); err == nil && time.Since(fi.ModTime()) > 45*time.Minute {
			os.RemoveAll(root + "/" + e.Name())
		}
	}
}

func freshDB() database.DB { return freshDBn(0) }

// freshDBn returns the wiped database of slot n (each concurrent instance has its own).
func freshDBn(n int) database.DB {
	poolMu.Lock()
	if sharedDBs[n] == nil {
		if n == 0 {
			cleanStale()
		}
		dir, err := os.MkdirTemp(tmpRoot(), "c03-")
		if err != nil {
			poolMu.Unlock()
			panic(err)
		}
		db, err := database.Create("ffldb", dir, wire.TestNet)
		if err != nil {
			os.RemoveAll(dir)
			poolMu.Unlock()
			panic(err)
		}
		sharedDBs[n], sharedDirs[n] = db, dir
		poolMu.Unlock()
		return db
	}
	db, dir := sharedDBs[n], sharedDirs[n]
	poolMu.Unlock()
	err := db.Update(func(tx database.Tx) error {
		m := tx.Metadata()
		var buckets, keys [][]byte
		m.ForEachBucket(func(k []byte) error {
			buckets = append(buckets, append([]byte(nil), k...))
			return nil
		})
		m.ForEach(func(k, v []byte) error {
			keys = append(keys, append([]byte(nil), k...))
			return nil
		})
		for _, k := range buckets {
			if err := m.DeleteBucket(k); err != nil {
				return err
			}
		}
		for _, k := range keys {
			if err := m.Delete(k); err != nil {
				return err
			}
		}
		return nil
	})
	if err != nil {
		panic(err)
	}
	// keep the directory's age fresh for cleanStale of concurrent runs
	now := time.Now()
	os.Chtimes(dir, now, now)
	return db
}

func newInst(p *chaincfg.Params, cache uint64, slot int) *inst {
	db := freshDBn(slot)
	ch, err := blockchain.New(&blockchain.Config{
		DB: db, ChainParams: p, TimeSource: blockchain.NewMedianTime(), UtxoCacheMaxSize: cache,
	})
	if err != nil {
		panic(err)
	}
	return &inst{ch, db}
}

func (i *inst) close() {}

// tmpRoot prefers a memory-backed directory: every database commit syncs.
func tmpRoot() string {
	if st, err := os.Stat("/dev/shm"); err == nil && st.IsDir() {
		return "/dev/shm"
	}
	return ""
}

var _ = big.NewInt
