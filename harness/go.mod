module verifharness

go 1.25.0

require (
	github.com/aead/siphash v1.0.1
	github.com/btcsuite/btcd v0.0.0
	github.com/btcsuite/btcd/address/v2 v2.0.0
	github.com/btcsuite/btcd/btcec/v2 v2.5.0
	github.com/btcsuite/btcd/btcutil/v2 v2.0.1
	github.com/btcsuite/btcd/chaincfg/v2 v2.0.0
	github.com/btcsuite/btcd/chainhash/v2 v2.0.0
	github.com/btcsuite/btcd/psbt/v2 v2.0.0
	github.com/btcsuite/btcd/txscript/v2 v2.0.0
	github.com/btcsuite/btcd/v2transport v1.1.0
	github.com/btcsuite/btcd/wire/v2 v2.0.1
	github.com/btcsuite/btclog v1.0.0
	golang.org/x/crypto v0.40.0
)

require (
	github.com/btcsuite/go-socks v0.0.0-20170105172521-4720035b7bfd // indirect
	github.com/davecgh/go-spew v1.1.1 // indirect
	github.com/decred/dcrd/crypto/blake256 v1.1.0 // indirect
	github.com/decred/dcrd/dcrec/secp256k1/v4 v4.4.0 // indirect
	github.com/decred/dcrd/lru v1.1.3 // indirect
	github.com/golang/snappy v1.0.0 // indirect
	github.com/kkdai/bstream v1.0.0 // indirect
	github.com/pmezard/go-difflib v1.0.0 // indirect
	github.com/stretchr/objx v0.5.2 // indirect
	github.com/stretchr/testify v1.10.0 // indirect
	github.com/syndtr/goleveldb v1.0.1-0.20210819022825-2ae1ddf74ef7 // indirect
	golang.org/x/sys v0.35.0 // indirect
	gopkg.in/yaml.v3 v3.0.1 // indirect
)

replace (
	github.com/btcsuite/btcd => /repo
	github.com/btcsuite/btcd/address/v2 => /repo/address
	github.com/btcsuite/btcd/btcec/v2 => /repo/btcec
	github.com/btcsuite/btcd/btcutil/v2 => /repo/btcutil
	github.com/btcsuite/btcd/chaincfg/v2 => /repo/chaincfg
	github.com/btcsuite/btcd/chainhash/v2 => /repo/chainhash
	github.com/btcsuite/btcd/psbt/v2 => /repo/psbt
	github.com/btcsuite/btcd/txscript/v2 => /repo/txscript
	github.com/btcsuite/btcd/v2transport => /repo/v2transport
	github.com/btcsuite/btcd/wire/v2 => /repo/wire
)
