// Package p17: correspondence for C17 (block-index queries, chain view, locators,
// locator-driven inventory, headers-first tracking).
package p17

import (
	"crypto/sha256"
	"fmt"
	"runtime"
	"sort"
	"strconv"
	"strings"
	"sync"
	"time"

	"github.com/btcsuite/btcd/blockchain"
	"github.com/btcsuite/btcd/chainhash/v2"
	"github.com/btcsuite/btcd/wire/v2"
	"verifharness/core"
)

type P struct{}

func (P) ID() string { return "C17" }

func (P) Facts() []core.Fact {
	var fs []core.Fact
	for k, v := range blockchain.VerifStatusBitsC17() {
		fs = append(fs, core.Fact{Name: k, Value: v})
	}
	fs = append(fs, core.Fact{Name: "maxBlockHeadersPerMsg", Value: int64(wire.MaxBlockHeadersPerMsg)})
	fs = append(fs, core.Fact{Name: "maxBlockLocatorsPerMsg", Value: int64(wire.MaxBlockLocatorsPerMsg)})
	return fs
}

// ---------------------------------------------------------------- helpers

func atoi(s string) int {
	v, err := strconv.ParseInt(s, 10, 64)
	if err != nil {
		panic("bad int " + s)
	}
	return int(v)
}

// optional id: "-" = nil (-1)
func oid(s string) int {
	if s == "-" {
		return -1
	}
	return atoi(s)
}

func pid(id int) string {
	if id == -1 {
		return "-"
	}
	if id < 0 {
		return "foreign"
	}
	return strconv.Itoa(id)
}

func b01(b bool) string {
	if b {
		return "1"
	}
	return "0"
}

// parseSegs expands "p:len,p:len" into the parent list (node i+1 -> parents[i]).
func parseSegs(s string) ([]int, bool) {
	var parents []int
	if s == "-" {
		return parents, true
	}
	for _, seg := range strings.Split(s, ",") {
		pl := strings.Split(seg, ":")
		if len(pl) != 2 {
			return nil, false
		}
		p, l := atoi(pl[0]), atoi(pl[1])
		if p < 0 || p > len(parents) || l < 1 {
			return nil, false
		}
		for j := 0; j < l; j++ {
			parents = append(parents, p)
			p = len(parents)
		}
	}
	return parents, true
}

type env struct {
	t *blockchain.VerifTree
	n int
	// results kept as Go values and rendered again at the end of the line: a result must not
	// change because later calls were made (A.2 "results are values")
	kept []kept
}

type kept struct {
	render func() string
	first  string
}

func (e *env) keep(render func() string) string {
	s := render()
	e.kept = append(e.kept, kept{render, s})
	return s
}

// hash of an id: real hash for ids inside the tree, a fabricated unknown hash otherwise
func (e *env) hash(id int) *chainhash.Hash {
	if id >= 0 && id < e.n {
		h := e.t.Hash(id)
		return &h
	}
	h := chainhash.Hash(sha256.Sum256([]byte(fmt.Sprintf("unknown-%d", id))))
	return &h
}

func (e *env) ids(hs []chainhash.Hash) string {
	if len(hs) == 0 {
		return "-"
	}
	out := make([]string, len(hs))
	for i := range hs {
		out[i] = pid(e.t.IDOf(&hs[i]))
	}
	return strings.Join(out, ".")
}

func (e *env) locator(s string) blockchain.BlockLocator {
	if s == "-" {
		return nil
	}
	if s == "e" { // empty but non-nil
		return blockchain.BlockLocator{}
	}
	var loc blockchain.BlockLocator
	for _, x := range strings.Split(s, ".") {
		if x == "z" { // the all-zero hash
			loc = append(loc, &chainhash.Hash{})
			continue
		}
		loc = append(loc, e.hash(atoi(x)))
	}
	return loc
}

func (e *env) locIDs(loc blockchain.BlockLocator) string {
	if len(loc) == 0 {
		return "-"
	}
	out := make([]string, len(loc))
	for i, h := range loc {
		out[i] = pid(e.t.IDOf(h))
	}
	return strings.Join(out, ".")
}

func (e *env) hdrIDs(hdrs []wire.BlockHeader) string {
	hs := make([]chainhash.Hash, len(hdrs))
	for i := range hdrs {
		hs[i] = hdrs[i].BlockHash()
	}
	return e.ids(hs)
}

// viewOf reads the active chain through Height()/NodeByHeight (not the internal slice)
func viewOf(t *blockchain.VerifTree) []int {
	h := int(t.ViewHeight())
	v := make([]int, 0, h+1)
	for i := 0; i <= h; i++ {
		v = append(v, t.NodeByHeight(int32(i)))
	}
	return v
}

// tipStatus maps the exported TipStatus constants to the model's codes (not their numeric values)
func tipStatus(s blockchain.TipStatus) int {
	switch s {
	case blockchain.StatusActive:
		return 1
	case blockchain.StatusInvalid:
		return 2
	case blockchain.StatusValidFork:
		return 3
	}
	return 0
}

func viewDigest(v []int) string {
	if len(v) == 0 {
		return "0/-/0"
	}
	var cks uint64
	for h, id := range v {
		cks = (cks + uint64(h+1)*uint64(id+2)) % 1000000007
	}
	return fmt.Sprintf("%d/%s/%d", len(v), pid(v[len(v)-1]), cks)
}

func (e *env) op(tok string) string {
	f := strings.Split(tok, ":")
	t := e.t
	switch f[0] {
	case "tip":
		t.SetTip(oid(f[1]))
		return viewDigest(viewOf(t))
	case "view":
		v := viewOf(t)
		out := make([]string, len(v))
		for i, id := range v {
			out[i] = pid(id)
		}
		if len(out) == 0 {
			return "-"
		}
		return strings.Join(out, ".")
	case "anc":
		return pid(t.Ancestor(atoi(f[1]), int32(atoi(f[2]))))
	case "skip":
		return pid(t.SkipPointer(atoi(f[1])))
	case "rel":
		a, b := t.RelativeAncestor(atoi(f[1]), int32(atoi(f[2]))), t.RelativeAncestorCtx(atoi(f[1]), int32(atoi(f[2])))
		if a != b {
			return "ctx-differs"
		}
		return pid(a)
	case "isa":
		return b01(t.IsAncestor(atoi(f[1]), oid(f[2])))
	case "has":
		return b01(t.Contains(atoi(f[1])))
	case "nxt":
		return pid(t.Next(oid(f[1])))
	case "fork":
		return pid(t.FindFork(oid(f[1])))
	case "at":
		return pid(t.NodeByHeight(int32(atoi(f[1]))))
	case "ht":
		return fmt.Sprintf("%d/%s/%s", t.ViewHeight(), pid(t.ViewTip()), pid(t.ViewGenesis()))
	case "loc":
		if f[1] == "-" {
			a, _ := t.Chain.LatestBlockLocator()
			b := t.ViewLocator(-1)
			if e.locIDs(a) != e.locIDs(b) {
				return "latest-differs"
			}
			return e.keep(func() string { return e.locIDs(a) })
		}
		id := atoi(f[1])
		a := t.Chain.BlockLocatorFromHash(e.hash(id))
		if id < e.n {
			if b := t.ViewLocator(id); e.locIDs(a) != e.locIDs(b) {
				return "view-differs"
			}
		}
		return e.keep(func() string { return e.locIDs(a) })
	case "inv":
		hs := t.Chain.LocateBlocks(e.locator(f[1]), e.hash(atoi(f[2])), uint32(atoi(f[3])))
		return e.keep(func() string { return e.ids(hs) })
	case "hdr":
		hdrs := t.LocateHeaders(e.locator(f[1]), e.hash(atoi(f[2])), uint32(atoi(f[3])))
		return e.keep(func() string { return e.hdrIDs(hdrs) })
	case "reuse":
		// one locator slice and one stop hash object, reused by several calls, sequentially and from
		// concurrent goroutines; every call answers the same and the caller's objects are untouched
		loc, stop, mx := e.locator(f[1]), e.hash(atoi(f[2])), uint32(atoi(f[3]))
		locCopy := make([]chainhash.Hash, len(loc))
		ptrCopy := make([]*chainhash.Hash, len(loc))
		for i, h := range loc {
			locCopy[i], ptrCopy[i] = *h, h
		}
		stopCopy := *stop
		a := t.Chain.LocateBlocks(loc, stop, mx)
		hd := t.LocateHeaders(loc, stop, mx)
		first := e.ids(a)
		res := first + "/" + e.hdrIDs(hd)
		var wg sync.WaitGroup
		outs := make([]string, 6)
		for k := range outs {
			wg.Add(1)
			go func(k int) {
				defer wg.Done()
				if k%2 == 0 {
					outs[k] = e.ids(t.Chain.LocateBlocks(loc, stop, mx))
				} else {
					outs[k] = e.hdrIDs(t.LocateHeaders(loc, stop, mx))
				}
			}(k)
		}
		wg.Wait()
		for _, o := range outs {
			if o != first {
				return "concurrent-differs:" + res
			}
		}
		if e.ids(t.Chain.LocateBlocks(loc, stop, mx)) != first || e.ids(a) != first {
			return "repeat-differs:" + res
		}
		if *stop != stopCopy {
			return "input-changed:" + res
		}
		for i, h := range loc {
			if h != ptrCopy[i] || *h != locCopy[i] {
				return "input-changed:" + res
			}
		}
		return res
	case "lh": // the public LocateHeaders (wire.MaxBlockHeadersPerMsg cap)
		hdrs := t.Chain.LocateHeaders(e.locator(f[1]), e.hash(atoi(f[2])))
		return e.keep(func() string { return e.hdrIDs(hdrs) })
	case "eq":
		a, b := t.ViewEquals(oid(f[1]))
		return b01(a) + b01(b)
	case "itips":
		tips := t.InactiveTips()
		sort.Ints(tips)
		return joinInts(tips)
	case "tips":
		tips := t.Chain.ChainTips()
		sort.Slice(tips, func(i, j int) bool { return t.IDOf(&tips[i].BlockHash) < t.IDOf(&tips[j].BlockHash) })
		ts := make([]string, len(tips))
		for i, ct := range tips {
			if ct.Height != t.HeightOf(t.IDOf(&ct.BlockHash)) {
				return "tip-height-differs"
			}
			ts[i] = fmt.Sprintf("%s.%d.%d", pid(t.IDOf(&ct.BlockHash)), tipStatus(ct.Status), ct.BranchLen)
		}
		return strings.Join(ts, ",")
	case "nd":
		id := atoi(f[1])
		p, h, ok := t.NodeAccessors(id)
		if lk := t.IndexLookup(e.hash(id)); lk != id || !t.IndexHaveBlock(e.hash(id)) != (t.NodeStatusByte(id)&1 == 0) {
			return "index-lookup-differs"
		}
		return fmt.Sprintf("%s/%d/%s", pid(p), h, b01(ok))
	case "hdrof": // HeaderByHash: the header's parent, and it must hash back to the block hash
		id := atoi(f[1])
		h, err := t.Chain.HeaderByHash(e.hash(id))
		if err != nil {
			return "err"
		}
		if h.BlockHash() != *e.hash(id) {
			return "header-hash-differs"
		}
		if h.PrevBlock == (chainhash.Hash{}) {
			return "z"
		}
		return pid(t.IDOf(&h.PrevBlock))
	case "linv":
		id, total := t.LocateInventory(e.locator(f[1]), e.hash(atoi(f[2])), uint32(atoi(f[3])))
		return fmt.Sprintf("%s/%d", pid(id), total)
	case "rng":
		hs, err := t.Chain.HeightRange(int32(atoi(f[1])), int32(atoi(f[2])))
		if err != nil {
			return "err"
		}
		return e.keep(func() string { return e.ids(hs) })
	case "h2h":
		hs, err := t.Chain.HeightToHashRange(int32(atoi(f[1])), e.hash(atoi(f[2])), atoi(f[3]))
		if err != nil {
			return "err"
		}
		return e.keep(func() string { return e.ids(hs) })
	case "ivl":
		hs, err := t.Chain.IntervalBlockHashes(e.hash(atoi(f[1])), atoi(f[2]))
		if err != nil {
			return "err"
		}
		return e.keep(func() string { return e.ids(hs) })
	case "mch":
		return b01(t.Chain.MainChainHasBlock(e.hash(atoi(f[1]))))
	case "hbh":
		h, err := t.Chain.BlockHeightByHash(e.hash(atoi(f[1])))
		if err != nil {
			return "err"
		}
		return strconv.Itoa(int(h))
	case "bhh":
		h, err := t.Chain.BlockHashByHeight(int32(atoi(f[1])))
		if err != nil {
			return "err"
		}
		return pid(t.IDOf(h))
	case "st":
		t.SetStatus(atoi(f[1]), byte(atoi(f[2])))
		return "ok"
	case "stf": // through SetStatusFlags / UnsetStatusFlags: status |= set, then &^= unset
		t.SetUnsetStatus(atoi(f[1]), byte(atoi(f[2])), byte(atoi(f[3])))
		return strconv.Itoa(int(t.NodeStatusByte(atoi(f[1]))))
	}
	panic("bad op " + tok)
}

// Exec runs one line under a watchdog: changed code under test may loop for ever; the line then
// answers "timeout" instead of hanging the whole run. A panic inside is passed on to core.
func (p P) Exec(line string) string {
	type res struct {
		out string
		pan any
	}
	ch := make(chan res, 1)
	go func() {
		defer func() {
			if r := recover(); r != nil {
				ch <- res{pan: r}
			}
		}()
		ch <- res{out: p.exec(line)}
	}()
	limit := 120 * time.Second
	if strings.HasPrefix(line, "C17 par") {
		limit = 300 * time.Second
	}
	select {
	case r := <-ch:
		if r.pan != nil {
			panic(r.pan)
		}
		return r.out
	case <-time.After(limit):
		return "timeout"
	}
}

func (P) exec(line string) string {
	f := strings.Fields(line)
	if len(f) < 3 || f[0] != "C17" {
		return "bad-op"
	}
	switch f[1] {
	case "gah":
		h := int32(atoi(f[2]))
		return fmt.Sprintf("%d/%d", blockchain.VerifInvertLowestOne(h), blockchain.VerifGetAncestorHeight(h))
	case "log2":
		return strconv.Itoa(int(blockchain.VerifFastLog2Floor(uint32(atoi(f[2])))))
	case "t":
		parents, ok := parseSegs(f[2])
		if !ok {
			return "bad-op"
		}
		e := &env{t: blockchain.VerifNewTree(parents), n: len(parents) + 1}
		out := make([]string, 0, len(f)-3)
		for _, tok := range f[3:] {
			out = append(out, e.op(tok))
		}
		for i, k := range e.kept {
			if again := k.render(); again != k.first {
				out = append(out, fmt.Sprintf("value-changed:%d:%s->%s", i, k.first, again))
			}
		}
		return strings.Join(out, "|")
	case "par":
		// independent instances run concurrently, started at different offsets; each answer must be
		// the one the instance gives on its own (A.3 "no hidden shared state")
		subs := strings.Split(strings.Join(f[2:], " "), " ;; ")
		outs := make([]string, len(subs))
		var wg sync.WaitGroup
		for i, sub := range subs {
			wg.Add(1)
			go func(i int, sub string) {
				defer wg.Done()
				defer func() {
					if r := recover(); r != nil {
						outs[i] = "panic"
					}
				}()
				for k := 0; k < i*3; k++ {
					runtime.Gosched()
				}
				if strings.HasPrefix(sub, "par") {
					outs[i] = "bad-op"
					return
				}
				outs[i] = P{}.exec("C17 " + sub)
			}(i, sub)
		}
		wg.Wait()
		return strings.Join(outs, " ;; ")
	case "hf":
		return execHeadersFirst(f[2:])
	}
	return "bad-op"
}

// ---------------------------------------------------------------- generation

type tree struct {
	segs    []string
	parents []int
	height  []int
}

func newTree() *tree { return &tree{height: []int{0}} }

func (t *tree) n() int { return len(t.height) }

func (t *tree) addSeg(p, l int) {
	t.segs = append(t.segs, fmt.Sprintf("%d:%d", p, l))
	for j := 0; j < l; j++ {
		t.parents = append(t.parents, p)
		t.height = append(t.height, t.height[p]+1)
		p = len(t.parents)
	}
}

func (t *tree) String() string {
	if len(t.segs) == 0 {
		return "-"
	}
	return strings.Join(t.segs, ",")
}

func (t *tree) path(id int) []int { // root first
	var p []int
	for {
		p = append(p, id)
		if id == 0 {
			break
		}
		id = t.parents[id-1]
	}
	for i, j := 0, len(p)-1; i < j; i, j = i+1, j-1 {
		p[i], p[j] = p[j], p[i]
	}
	return p
}

// randTree: shape 0 = bushy (every node random parent), 1 = chains off random nodes,
// 2 = one long trunk with short side branches near the top, 3 = linear
func randTree(r *core.Rand, maxNodes int) *tree {
	t := newTree()
	switch r.Intn(4) {
	case 0:
		n := r.Intn(maxNodes) + 1
		if n > 300 {
			n = 300
		}
		for i := 0; i < n; i++ {
			p := r.Intn(t.n())
			if r.Bool() { // bias towards recent nodes → deeper trees
				p = t.n() - 1 - r.Intn(min(t.n(), 3))
			}
			t.addSeg(p, 1)
		}
	case 1:
		for t.n() < maxNodes && len(t.segs) < 40 {
			t.addSeg(r.Intn(t.n()), r.Intn(max(1, maxNodes/8))+1)
			if r.Chance(1, 6) {
				break
			}
		}
	case 2:
		trunk := r.Intn(maxNodes) + 1
		t.addSeg(0, trunk)
		for k := r.Intn(6); k > 0; k-- {
			p := trunk - r.Intn(min(trunk, 40))
			if r.Chance(1, 4) {
				p = r.Intn(trunk + 1)
			}
			t.addSeg(p, r.Intn(min(60, maxNodes))+1)
		}
	case 3:
		if l := r.Intn(maxNodes); l > 0 {
			t.addSeg(0, l)
		}
	}
	return t
}

func (t *tree) randNode(r *core.Rand) int { return r.Intn(t.n()) }

func edgeHeight(r *core.Rand, h int) int {
	switch r.Intn(10) {
	case 0:
		return -1
	case 1:
		return h + 1
	case 2:
		return h
	case 3:
		return 0
	case 4:
		return int(r.Pick(-2147483648, 2147483647, -5, int64(h)+100))
	case 5:
		return h - 1
	}
	if h == 0 {
		return 0
	}
	return r.Intn(h + 1)
}

func joinInts(xs []int) string {
	if len(xs) == 0 {
		return "-"
	}
	s := make([]string, len(xs))
	for i, x := range xs {
		s[i] = strconv.Itoa(x)
	}
	return strings.Join(s, ".")
}

// locStr renders a locator for the line: rare shapes are the empty-but-non-nil slice ("e") and the
// all-zero hash as an element ("z")
func locStr(r *core.Rand, xs []int) string {
	if len(xs) == 0 {
		if r.Bool() {
			return "e"
		}
		return "-"
	}
	s := joinInts(xs)
	if r.Chance(1, 10) {
		if r.Bool() {
			return "z." + s
		}
		return s + ".z"
	}
	return s
}

// randLocator: mixtures of a genuine locator of some node, unknown ids, side-chain ids, shuffles
func randLocator(r *core.Rand, t *tree, tip int) []int {
	var loc []int
	switch r.Intn(8) {
	case 0:
		return nil
	case 1: // all unknown
		for k := r.Intn(4) + 1; k > 0; k-- {
			loc = append(loc, t.n()+r.Intn(5))
		}
		return loc
	case 2, 3: // genuine locator of a random node (possibly side chain)
		p := t.path(t.randNode(r))
		step := 1
		for i := len(p) - 1; i >= 0; i -= step {
			loc = append(loc, p[i])
			if len(loc) > 10 {
				step *= 2
			}
		}
		if loc[len(loc)-1] != 0 {
			loc = append(loc, 0)
		}
	default:
		for k := r.Intn(6) + 1; k > 0; k-- {
			switch r.Intn(4) {
			case 0:
				loc = append(loc, t.n()+r.Intn(3))
			case 1:
				p := t.path(tip)
				loc = append(loc, p[r.Intn(len(p))])
			default:
				loc = append(loc, t.randNode(r))
			}
		}
	}
	if r.Chance(1, 4) { // shuffle
		for i := len(loc) - 1; i > 0; i-- {
			j := r.Intn(i + 1)
			loc[i], loc[j] = loc[j], loc[i]
		}
	}
	if r.Chance(1, 5) {
		loc = append([]int{t.n() + 7}, loc...)
	}
	if r.Chance(1, 8) && len(loc) > 0 { // duplicate entries
		loc = append(loc, loc[r.Intn(len(loc))], loc[0])
	}
	return loc
}

func queryOps(r *core.Rand, t *tree, tip int, k int) []string {
	var ops []string
	tipPath := t.path(tip)
	th := len(tipPath) - 1
	onChain := func() int { return tipPath[r.Intn(len(tipPath))] }
	anyNode := func() int {
		if r.Bool() {
			return onChain()
		}
		return t.randNode(r)
	}
	for ; k > 0; k-- {
		switch r.Intn(23) {
		case 16:
			if r.Chance(1, 8) {
				ops = append(ops, "eq:-")
			} else {
				ops = append(ops, fmt.Sprintf("eq:%d", anyNode()))
			}
		case 17:
			if t.n() <= 300 {
				ops = append(ops, "itips")
			}
		case 18:
			if t.n() <= 300 {
				ops = append(ops, "tips")
			}
		case 19:
			ops = append(ops, fmt.Sprintf("nd:%d", anyNode()))
		case 20:
			id := anyNode()
			if r.Chance(1, 6) {
				id = t.n() + r.Intn(3)
			}
			ops = append(ops, fmt.Sprintf("hdrof:%d", id))
		case 21, 22:
			loc := randLocator(r, t, tip)
			stop := t.n() + 1
			if r.Bool() {
				stop = onChain()
			}
			ops = append(ops, fmt.Sprintf("lh:%s:%d", locStr(r, loc), stop))
		case 0:
			ops = append(ops, fmt.Sprintf("has:%d", anyNode()))
		case 1:
			if r.Chance(1, 10) {
				ops = append(ops, "nxt:-")
			} else {
				ops = append(ops, fmt.Sprintf("nxt:%d", anyNode()))
			}
		case 2:
			if r.Chance(1, 12) {
				ops = append(ops, "fork:-")
			} else {
				ops = append(ops, fmt.Sprintf("fork:%d", t.randNode(r)))
			}
		case 3:
			ops = append(ops, fmt.Sprintf("at:%d", edgeHeight(r, th)))
		case 4:
			ops = append(ops, "ht")
		case 5, 6:
			switch r.Intn(6) {
			case 0:
				ops = append(ops, "loc:-")
			case 1:
				ops = append(ops, fmt.Sprintf("loc:%d", t.n()+r.Intn(3)))
			default:
				ops = append(ops, fmt.Sprintf("loc:%d", anyNode()))
			}
		case 7, 8, 9, 10:
			loc := randLocator(r, t, tip)
			stop := t.n() + 1
			switch r.Intn(5) {
			case 0, 1:
				stop = onChain()
			case 2:
				stop = t.randNode(r)
			}
			mx := int(r.Pick(0, 1, 2, 3, 5, 500, 2000, int64(th), int64(th)+1, int64(th)-1, 4294967295))
			if mx < 0 {
				mx = 0
			}
			if r.Chance(1, 3) {
				mx = r.Intn(th + 2)
			}
			kind := []string{"inv", "hdr", "reuse"}[r.Intn(3)]
			ops = append(ops, fmt.Sprintf("%s:%s:%d:%d", kind, locStr(r, loc), stop, mx))
		case 11:
			s := edgeHeight(r, th)
			e := s + int(r.Pick(0, 1, 2, 10, -1, int64(th)))
			if r.Chance(1, 3) {
				e = edgeHeight(r, th)
			}
			if e > 2147483647 || e < -2147483648 || s > 2147483647 || s < -2147483648 {
				e = s
			}
			ops = append(ops, fmt.Sprintf("rng:%d:%d", s, e))
		case 12:
			end := anyNode()
			if r.Chance(1, 10) {
				end = t.n() + 2
			}
			eh := 0
			if end < t.n() {
				eh = t.height[end]
			}
			s := edgeHeight(r, eh)
			mx := int(r.Pick(0, 1, int64(eh-s), int64(eh-s+1), int64(eh-s+2), 1000, 1000000))
			ops = append(ops, fmt.Sprintf("h2h:%d:%d:%d", s, end, mx))
		case 13:
			end := anyNode()
			if r.Chance(1, 12) {
				end = t.n() + 2
			}
			iv := int(r.Pick(1, 2, 3, 7, 10, 100, 1000, 1<<20))
			ops = append(ops, fmt.Sprintf("ivl:%d:%d", end, iv))
		case 14:
			id := anyNode()
			if r.Chance(1, 8) {
				id = t.n() + r.Intn(3)
			}
			ops = append(ops, fmt.Sprintf("mch:%d", id), fmt.Sprintf("hbh:%d", id))
		case 15:
			ops = append(ops, fmt.Sprintf("bhh:%d", edgeHeight(r, th)))
		}
	}
	return ops
}

func (P) Generate(g *core.Gen) {
	r := g.R
	// Ancestor on long linear chains around every power of two (the skip heights are bit tricks);
	// thorough: up to 2^20
	{
		maxK := 12
		if g.Thorough() {
			maxK = 20
		}
		l := 1<<uint(maxK) + 3
		var ops []string
		for k := 0; k <= maxK; k++ {
			for _, d := range []int{-1, 0, 1} {
				n := 1<<uint(k) + d
				for j := 0; j <= maxK; j++ {
					for _, e := range []int{-1, 0, 1, 2} {
						ops = append(ops, fmt.Sprintf("anc:%d:%d", n, 1<<uint(j)+e-1))
					}
				}
				ops = append(ops, fmt.Sprintf("anc:%d:%d", n, n), fmt.Sprintf("anc:%d:%d", n, n+1), fmt.Sprintf("anc:%d:-1", n),
					fmt.Sprintf("anc:%d:%d", l, n), fmt.Sprintf("rel:%d:%d", l, n), fmt.Sprintf("isa:%d:%d", l, n))
			}
		}
		g.Case("anc-linear-pow2", true, fmt.Sprintf("C17 t 0:%d %s", l, strings.Join(ops, " ")))
	}
	for i := 0; i < g.N(6, 40); i++ {
		l := r.Intn(g.N(5000, 60000)) + 100
		var ops []string
		for k := 0; k < 400; k++ {
			n := r.Intn(l + 1)
			ops = append(ops, fmt.Sprintf("anc:%d:%d", n, edgeHeight(r, n)))
		}
		g.Case("anc-linear-rand", true, fmt.Sprintf("C17 t 0:%d %s", l, strings.Join(ops, " ")))
	}
	// Ancestor on linear chains: every target height for a few lengths (thin slice)
	for _, l := range []int{1, 2, 3, 15, 16, 17, 64, 100, 257} {
		var ops []string
		for h := -1; h <= l+1; h++ {
			ops = append(ops, fmt.Sprintf("anc:%d:%d", l, h))
		}
		g.Case("anc-linear-all", true, fmt.Sprintf("C17 t 0:%d %s", l, strings.Join(ops, " ")))
	}
	// all pairs on small random trees: anc / isa / rel / skip
	for i := 0; i < g.N(220, 4000); i++ {
		t := randTree(r, r.Intn(24)+1)
		var ops []string
		for a := 0; a < t.n(); a++ {
			for h := -1; h <= t.height[a]+1; h++ {
				ops = append(ops, fmt.Sprintf("anc:%d:%d", a, h))
			}
			for b := 0; b < t.n(); b++ {
				ops = append(ops, fmt.Sprintf("isa:%d:%d", a, b))
			}
			ops = append(ops, fmt.Sprintf("isa:%d:-", a), fmt.Sprintf("rel:%d:%d", a, r.Intn(t.height[a]+3)-1))
		}
		g.Case("allpairs-small", t.n() > 2, fmt.Sprintf("C17 t %s %s", t, strings.Join(ops, " ")))
	}
	// all pairs on small trees: view ops for every tip and every node
	for i := 0; i < g.N(220, 4000); i++ {
		t := randTree(r, r.Intn(14)+1)
		var ops []string
		for tip := 0; tip < t.n(); tip++ {
			ops = append(ops, fmt.Sprintf("tip:%d", tip), "view", "ht")
			for b := 0; b < t.n(); b++ {
				ops = append(ops, fmt.Sprintf("has:%d", b), fmt.Sprintf("nxt:%d", b), fmt.Sprintf("fork:%d", b), fmt.Sprintf("loc:%d", b))
			}
			for h := -1; h <= t.height[tip]+1; h++ {
				ops = append(ops, fmt.Sprintf("at:%d", h))
			}
		}
		g.Case("view-allpairs-small", t.n() > 2, fmt.Sprintf("C17 t %s %s", t, strings.Join(ops, " ")))
	}
	// every stop and max on small trees
	for i := 0; i < g.N(150, 3000); i++ {
		t := randTree(r, r.Intn(10)+2)
		tip := t.randNode(r)
		ops := []string{fmt.Sprintf("tip:%d", tip)}
		th := t.height[tip]
		for k := 0; k < 3; k++ {
			loc := randLocator(r, t, tip)
			for stop := 0; stop <= t.n(); stop++ {
				for mx := 0; mx <= th+1; mx++ {
					ops = append(ops, fmt.Sprintf("%s:%s:%d:%d", []string{"inv", "hdr", "reuse"}[(stop+mx)%3], locStr(r, loc), stop, mx))
				}
			}
		}
		g.Case("inv-every-stop-max", t.n() > 2, fmt.Sprintf("C17 t %s %s", t, strings.Join(ops, " ")))
	}
	// random trees up to 2000 nodes (thorough: 5000), random tips (re-orgs of the view) and queries
	for i := 0; i < g.N(600, 8000); i++ {
		maxN := int(r.Pick(5, 30, 30, 200, 200, 2000))
		if g.Thorough() && r.Chance(1, 10) {
			maxN = 5000
		}
		t := randTree(r, maxN)
		var ops []string
		for k := r.Intn(30) + 5; k > 0; k-- {
			a := t.randNode(r)
			switch r.Intn(5) {
			case 1:
				ops = append(ops, fmt.Sprintf("rel:%d:%d", a, edgeHeight(r, t.height[a])))
			case 2:
				b := t.randNode(r)
				if r.Bool() {
					p := t.path(a)
					b = p[r.Intn(len(p))]
				}
				ops = append(ops, fmt.Sprintf("isa:%d:%d", a, b))
			default:
				ops = append(ops, fmt.Sprintf("anc:%d:%d", a, edgeHeight(r, t.height[a])))
			}
		}
		// view life: several tips (grow, shrink, switch branch, nil)
		if r.Chance(1, 12) {
			ops = append(ops, "ht", "loc:-", "nxt:0", "fork:0", "at:0", "inv:0:0:5", "inv:-:0:5", "bhh:0", "mch:0")
		}
		for k := r.Intn(5) + 1; k > 0; k-- {
			tip := t.randNode(r)
			if r.Chance(1, 15) {
				ops = append(ops, "tip:-", "ht", "loc:-", "at:0", fmt.Sprintf("has:%d", tip), fmt.Sprintf("fork:%d", tip), "inv:0:0:3")
			}
			ops = append(ops, fmt.Sprintf("tip:%d", tip))
			if t.n() <= 64 {
				ops = append(ops, "view")
			}
			ops = append(ops, queryOps(r, t, tip, r.Intn(25)+5)...)
		}
		class := "tree-large"
		if t.n() <= 64 {
			class = "tree-medium"
		}
		g.Case(class, t.n() > 3, fmt.Sprintf("C17 t %s %s", t, strings.Join(ops, " ")))
	}
	// view life with revisits: tips drawn from a small pool (stale slice entries beyond len matter)
	for i := 0; i < g.N(400, 8000); i++ {
		t := randTree(r, int(r.Pick(8, 20, 60)))
		pool := []int{t.randNode(r), t.randNode(r), t.randNode(r), t.n() - 1, 0}
		var ops []string
		for k := r.Intn(10) + 3; k > 0; k-- {
			tip := pool[r.Intn(len(pool))]
			if r.Chance(1, 12) {
				ops = append(ops, "tip:-")
			}
			ops = append(ops, fmt.Sprintf("tip:%d", tip), "view")
			ops = append(ops, queryOps(r, t, tip, r.Intn(4))...)
		}
		g.Case("view-life", t.n() > 2, fmt.Sprintf("C17 t %s %s", t, strings.Join(ops, " ")))
	}
	// status-dependent error paths of HeightToHashRange / IntervalBlockHashes
	for i := 0; i < g.N(40, 600); i++ {
		t := randTree(r, 40)
		tip := t.randNode(r)
		a := t.randNode(r)
		st := r.Pick(0, 1, 2, 3, 4, 8, 16, 17, 19, 5)
		ops := []string{fmt.Sprintf("tip:%d", tip), fmt.Sprintf("st:%d:%d", a, st),
			fmt.Sprintf("h2h:0:%d:100", a), fmt.Sprintf("ivl:%d:2", a), fmt.Sprintf("h2h:%d:%d:1", t.height[a], a), "tips",
			fmt.Sprintf("stf:%d:%d:%d", t.randNode(r), r.Pick(0, 1, 2, 4, 8, 16, 12), r.Pick(0, 1, 2, 4, 8, 16, 3)), "tips",
			fmt.Sprintf("stf:%d:%d:%d", a, r.Pick(0, 2, 4, 8), r.Pick(0, 2, 4, 8, 31)), "tips", "itips",
			fmt.Sprintf("h2h:0:%d:100", a), fmt.Sprintf("ivl:%d:3", a)}
		g.Case("status-paths", true, fmt.Sprintf("C17 t %s %s", t, strings.Join(ops, " ")))
	}
	// slice capacity boundary of setTip: a new backing array is made when needed > cap, and cap is
	// needed + approxNodesPerWeek (1008) at the time of the last allocation
	for i := 0; i < g.N(4, 60); i++ {
		t := newTree()
		t.addSeg(0, 2400)
		fork := 200 + r.Intn(800)
		t.addSeg(fork, 1300) // ids 2401.., heights fork+1..
		h0 := r.Intn(150) + 1
		side := func(h int) int { return 2400 + (h - fork) }
		seq := []int{h0, h0 + 1007, h0 + 1008, side(h0 + 1008), h0 + 1009, side(h0 + 1009), h0, h0 + 1008 + 1009, side(h0 + 1010), h0 + 1010, 0, 1008, 1009, 2400}
		var ops []string
		for _, tip := range seq {
			th := t.height[tip]
			ops = append(ops, fmt.Sprintf("tip:%d", tip), "ht", fmt.Sprintf("at:%d", th), fmt.Sprintf("at:%d", th+1),
				fmt.Sprintf("at:%d", fork), fmt.Sprintf("at:%d", fork+1), fmt.Sprintf("has:%d", fork+1), fmt.Sprintf("has:%d", 2401),
				fmt.Sprintf("nxt:%d", fork), fmt.Sprintf("fork:%d", 2400), fmt.Sprintf("fork:%d", t.n()-1), "loc:-",
				fmt.Sprintf("inv:%d:%d:5", fork, t.n()+1))
		}
		g.Case("view-cap-1008", true, fmt.Sprintf("C17 t %s %s", t, strings.Join(ops, " ")))
	}
	// LocateHeaders' wire limit (2000 headers) and LocateBlocks' usual 500
	for _, th := range []int{1999, 2000, 2001, 2002} {
		ops := []string{fmt.Sprintf("tip:%d", th), "lh:0:9999", "lh:1:9999", fmt.Sprintf("lh:0:%d", th), "lh:0:2000", "lh:0:1999", "lh:5.3:2001",
			"inv:0:9999:500", "inv:0:500:500", "inv:0:499:500", "inv:0:501:500", "hdr:0:9999:2000", "hdr:0:9999:2001", "hdr:0:9999:1999"}
		g.Case("locate-wire-limits", true, fmt.Sprintf("C17 t 0:2003 %s", strings.Join(ops, " ")))
	}
	// locator length formula 12 + floor(log2(h-10)): heights 10 + 2^k - 1 / + 0 / + 1, on and off the view
	{
		var on, off []string
		for k := 1; k <= 11; k++ {
			for _, d := range []int{-1, 0, 1} {
				h := 10 + 1<<uint(k) + d
				on = append(on, fmt.Sprintf("loc:%d", h))
				off = append(off, fmt.Sprintf("loc:%d", 2100+h))
			}
		}
		g.Case("loc-pow2", true, "C17 t 0:2100,0:2100 tip:2100 "+strings.Join(on, " ")+" "+strings.Join(off, " ")+" tip:4200 "+strings.Join(on, " "))
	}
	genHeadersFirst(g)
	// independent instances side by side (A.3): 8 tree instances + 2 real chains per line
	for i := 0; i < g.N(10, 150); i++ {
		var subs []string
		for k := 0; k < 8; k++ {
			t := randTree(r, int(r.Pick(12, 40, 120)))
			var ops []string
			for j := r.Intn(3) + 1; j > 0; j-- {
				tip := t.randNode(r)
				ops = append(ops, fmt.Sprintf("tip:%d", tip), "view")
				ops = append(ops, queryOps(r, t, tip, r.Intn(12)+4)...)
			}
			subs = append(subs, fmt.Sprintf("t %s %s", t, strings.Join(ops, " ")))
		}
		for k := 0; k < 2; k++ {
			_, _, l := hfLine(r)
			subs = append(subs, l)
		}
		// interleave kinds
		subs[1], subs[8] = subs[8], subs[1]
		g.Case("par-10-instances", true, "C17 par "+strings.Join(subs, " ;; "))
	}
}
