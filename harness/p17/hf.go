package p17

// Headers-first tracking through the public API of a real regtest BlockChain
// (ffldb in a temp dir): ProcessBlockHeader / ProcessBlock deliveries of one
// block tree in arbitrary interleavings; after every delivery the result class,
// BestHeader and BestSnapshot tips are observed.

import (
	"fmt"
	"os"
	"path/filepath"
	"sort"
	"strconv"
	"strings"
	"time"

	"github.com/btcsuite/btcd/blockchain"
	"github.com/btcsuite/btcd/btcutil/v2"
	"github.com/btcsuite/btcd/chaincfg/v2"
	"github.com/btcsuite/btcd/chainhash/v2"
	"github.com/btcsuite/btcd/database"
	_ "github.com/btcsuite/btcd/database/ffldb"
	"github.com/btcsuite/btcd/txscript/v2"
	"github.com/btcsuite/btcd/wire/v2"
	"verifharness/core"
)

func errClass(err error) string {
	if re, ok := err.(blockchain.RuleError); ok {
		switch re.ErrorCode {
		case blockchain.ErrDuplicateBlock:
			return "err:dup"
		case blockchain.ErrPreviousBlockUnknown:
			return "err:prevunknown"
		case blockchain.ErrInvalidAncestorBlock:
			return "err:invalidancestor"
		case blockchain.ErrKnownInvalidBlock:
			return "err:knowninvalid"
		case blockchain.ErrBadCoinbaseValue:
			return "err:badblock"
		}
		return "err:rule-" + re.ErrorCode.String()
	}
	return "err:other"
}

// buildBlocks creates one valid regtest block per tree node (node 0 = the
// regtest genesis block); nodes listed in bad pay one satoshi too much.
func buildBlocks(params *chaincfg.Params, parents []int, bad map[int]bool) []*btcutil.Block {
	blocks := make([]*btcutil.Block, len(parents)+1)
	heights := make([]int32, len(parents)+1)
	blocks[0] = btcutil.NewBlock(params.GenesisBlock)
	for i, p := range parents {
		id := i + 1
		h := heights[p] + 1
		heights[id] = h
		script, err := txscript.NewScriptBuilder().AddInt64(int64(h)).AddInt64(int64(id) + 1000).Script()
		if err != nil {
			panic(err)
		}
		value := blockchain.CalcBlockSubsidy(h, params)
		if bad[id] {
			value++
		}
		cb := wire.NewMsgTx(1)
		cb.AddTxIn(&wire.TxIn{
			PreviousOutPoint: *wire.NewOutPoint(&chainhash.Hash{}, wire.MaxPrevOutIndex),
			SignatureScript:  script,
			Sequence:         wire.MaxTxInSequenceNum,
		})
		cb.AddTxOut(&wire.TxOut{Value: value, PkScript: []byte{txscript.OP_TRUE}})
		hdr := wire.BlockHeader{
			Version:    0x20000000,
			PrevBlock:  *blocks[p].Hash(),
			MerkleRoot: cb.TxHash(),
			Timestamp:  params.GenesisBlock.Header.Timestamp.Add(time.Duration(int64(h)*600+int64(id)) * time.Second),
			Bits:       params.PowLimitBits,
		}
		target := blockchain.CompactToBig(hdr.Bits)
		for {
			hash := hdr.BlockHash()
			if blockchain.HashToBig(&hash).Cmp(target) <= 0 {
				break
			}
			hdr.Nonce++
		}
		mb := wire.NewMsgBlock(&hdr)
		mb.AddTransaction(cb)
		blocks[id] = btcutil.NewBlock(mb)
	}
	return blocks
}

// newRegtestChain opens a fresh chain on ffldb in a temp dir.
func newRegtestChain(params *chaincfg.Params) (*blockchain.BlockChain, func()) {
	base := ""
	if st, e := os.Stat("/dev/shm"); e == nil && st.IsDir() {
		base = "/dev/shm" // tmpfs: ffldb's fsync per commit costs nothing there
	}
	dir, err := os.MkdirTemp(base, "c17hf")
	if err != nil {
		panic(err)
	}
	db, err := database.Create("ffldb", filepath.Join(dir, "db"), params.Net)
	if err != nil {
		os.RemoveAll(dir)
		panic(err)
	}
	chain, err := blockchain.New(&blockchain.Config{
		DB: db, ChainParams: params, TimeSource: blockchain.NewMedianTime(),
		UtxoCacheMaxSize: 1 << 20,
	})
	if err != nil {
		db.Close()
		os.RemoveAll(dir)
		panic(err)
	}
	return chain, func() { db.Close(); os.RemoveAll(dir) }
}

func execHeadersFirst(f []string) string {
	// f = [segs, badlist, deliveries…]
	if len(f) < 2 {
		return "bad-op"
	}
	parents, ok := parseSegs(f[0])
	if !ok {
		return "bad-op"
	}
	bad := map[int]bool{}
	if f[1] != "-" {
		for _, x := range strings.Split(f[1], ".") {
			bad[atoi(x)] = true
		}
	}
	params := chaincfg.RegressionNetParams
	params.Checkpoints = nil
	blocks := buildBlocks(&params, parents, bad)
	ids := map[chainhash.Hash]int{}
	for i, b := range blocks {
		ids[*b.Hash()] = i
	}
	chain, cleanup := newRegtestChain(&params)
	defer cleanup()
	idOf := func(h chainhash.Hash) string {
		if id, ok := ids[h]; ok {
			return strconv.Itoa(id)
		}
		return "?"
	}
	var out []string
	for _, d := range f[2:] {
		if len(d) < 2 {
			return "bad-op"
		}
		id := atoi(d[1:])
		if id < 1 || id >= len(blocks) {
			return "bad-op"
		}
		var res string
		switch d[0] {
		case 'h':
			hdr := blocks[id].MsgBlock().Header
			main, err := chain.ProcessBlockHeader(&hdr, blockchain.BFNone, false)
			switch {
			case err != nil:
				res = errClass(err)
			case main:
				res = "main"
			default:
				res = "side"
			}
		case 'b':
			// a fresh btcutil.Block so that cached heights do not leak between deliveries
			blk := btcutil.NewBlock(blocks[id].MsgBlock())
			main, orphan, err := chain.ProcessBlock(blk, blockchain.BFNone)
			switch {
			case err != nil:
				res = errClass(err)
			case orphan:
				res = "orphan"
			case main:
				res = "main"
			default:
				res = "side"
			}
		default:
			return "bad-op"
		}
		bh, bhh := chain.BestHeader()
		snap := chain.BestSnapshot()
		valid := "0"
		if chain.IsValidHeader(blocks[id].Hash()) {
			valid = "1"
		}
		tips := chain.ChainTips()
		sort.Slice(tips, func(i, j int) bool { return ids[tips[i].BlockHash] < ids[tips[j].BlockHash] })
		ts := make([]string, len(tips))
		for i, t := range tips {
			ts[i] = fmt.Sprintf("%s.%d.%d", idOf(t.BlockHash), t.Status, t.BranchLen)
		}
		out = append(out, fmt.Sprintf("%s/%s@%d/%s@%d/%s/f%d/%s", res, idOf(bh), bhh, idOf(snap.Hash), snap.Height, valid,
			chain.BestChainHeaderForkHeight(), strings.Join(ts, ",")))
	}
	// final observations: best-header chain by height, its locator, and the tip reached by the
	// block deliveries alone on a second chain
	maxH := int32(0)
	hts := make([]int32, len(blocks))
	for i, p := range parents {
		hts[i+1] = hts[p] + 1
		if hts[i+1] > maxH {
			maxH = hts[i+1]
		}
	}
	hdrs := make([]string, 0, maxH+2)
	for h := int32(0); h <= maxH+1; h++ {
		hh, err := chain.HeaderHashByHeight(h)
		if err != nil {
			hdrs = append(hdrs, "-")
		} else {
			hdrs = append(hdrs, idOf(*hh))
		}
	}
	loc, _ := chain.LatestBlockLocatorByHeader()
	hloc := make([]string, len(loc))
	for i, h := range loc {
		hloc[i] = idOf(*h)
	}
	chain2, cleanup2 := newRegtestChain(&params)
	defer cleanup2()
	for _, d := range f[2:] {
		if d[0] == 'b' {
			chain2.ProcessBlock(btcutil.NewBlock(blocks[atoi(d[1:])].MsgBlock()), blockchain.BFNone)
		}
	}
	snap2 := chain2.BestSnapshot()
	out = append(out, "hdrs="+strings.Join(hdrs, "."), "hloc="+strings.Join(hloc, "."),
		fmt.Sprintf("blocksonly=%s@%d", idOf(snap2.Hash), snap2.Height))
	return strings.Join(out, "|")
}

// genHeadersFirst: random small trees, deliveries = random interleavings of the
// headers and blocks of the tree (parents mostly before children, some out of
// order, duplicates), a few invalid blocks delivered when they extend the tip.
func genHeadersFirst(g *core.Gen) {
	r := g.R
	for i := 0; i < g.N(160, 1500); i++ {
		t := newTree()
		n := r.Intn(12) + 2
		for t.n() <= n {
			p := r.Intn(t.n())
			if r.Bool() {
				p = t.n() - 1 - r.Intn(min(t.n(), 2))
			}
			t.addSeg(p, r.Intn(3)+1)
		}
		mode := r.Intn(4) // 0 headers only, 1 blocks only, 2 headers then blocks, 3 mixed
		// simulation of the block side, to decide where an invalid block may be delivered
		data := map[int]bool{0: true}
		failed := map[int]bool{}
		tip := 0
		work := func(id int) int { return t.height[id] }
		parent := func(id int) int { return t.parents[id-1] }
		orphans := []int{}
		var bad []int
		var accept func(id int)
		accept = func(id int) {
			p := parent(id)
			if failed[p] {
				return
			}
			data[id] = true
			if p == tip || work(id) > work(tip) {
				tip = id
			}
		}
		deliverBlock := func(id int) {
			if data[id] {
				return
			}
			for _, o := range orphans {
				if o == id {
					return
				}
			}
			if !data[parent(id)] {
				orphans = append(orphans, id)
				return
			}
			accept(id)
			queue := []int{id}
			for len(queue) > 0 {
				q := queue[0]
				queue = queue[1:]
				rest := orphans[:0:0]
				for _, o := range orphans {
					if parent(o) == q && data[q] {
						accept(o)
						queue = append(queue, o)
					} else {
						rest = append(rest, o)
					}
				}
				orphans = rest
			}
		}
		var ds []string
		order := func() []int { // mostly topological order with some disorder
			ids := make([]int, 0, t.n()-1)
			for id := 1; id < t.n(); id++ {
				ids = append(ids, id)
			}
			for k := r.Intn(3); k > 0 && len(ids) > 1; k-- {
				a, b := r.Intn(len(ids)), r.Intn(len(ids))
				ids[a], ids[b] = ids[b], ids[a]
			}
			if r.Chance(1, 5) {
				for i := len(ids) - 1; i > 0; i-- {
					j := r.Intn(i + 1)
					ids[i], ids[j] = ids[j], ids[i]
				}
			}
			return ids
		}
		block := func(id int) {
			// an invalid version of this block may be delivered when it would extend the tip
			// (in every other position the light block model does not cover the outcome)
			if id != 0 && !data[id] && data[parent(id)] && parent(id) == tip && len(orphans) == 0 && r.Chance(1, 3) {
				bad = append(bad, id)
				failed[id] = true
				data[id] = true
				ds = append(ds, fmt.Sprintf("b%d", id))
				return
			}
			deliverBlock(id)
			ds = append(ds, fmt.Sprintf("b%d", id))
		}
		switch mode {
		case 0:
			for _, id := range order() {
				ds = append(ds, fmt.Sprintf("h%d", id))
			}
			for k := r.Intn(4); k > 0; k-- {
				ds = append(ds, fmt.Sprintf("h%d", 1+r.Intn(t.n()-1)))
			}
		case 1:
			for _, id := range order() {
				block(id)
			}
			for k := r.Intn(3); k > 0; k-- {
				block(1 + r.Intn(t.n()-1))
			}
		case 2:
			for _, id := range order() {
				ds = append(ds, fmt.Sprintf("h%d", id))
			}
			for _, id := range order() {
				block(id)
			}
		case 3:
			hs, bs := order(), order()
			for len(hs) > 0 || len(bs) > 0 {
				if len(bs) == 0 || (len(hs) > 0 && r.Bool()) {
					ds = append(ds, fmt.Sprintf("h%d", hs[0]))
					hs = hs[1:]
				} else {
					block(bs[0])
					bs = bs[1:]
				}
				if r.Chance(1, 8) {
					id := 1 + r.Intn(t.n()-1)
					if r.Bool() {
						ds = append(ds, fmt.Sprintf("h%d", id))
					} else {
						block(id)
					}
				}
			}
			// headers of everything again at the end: descendants of invalid blocks are refused
			for _, id := range order() {
				ds = append(ds, fmt.Sprintf("h%d", id))
			}
		}
		class := []string{"hf-headers-only", "hf-blocks-only", "hf-headers-then-blocks", "hf-mixed"}[mode]
		g.Case(class, len(ds) > 3, fmt.Sprintf("C17 hf %s %s %s", t, joinInts(bad), strings.Join(ds, " ")))
	}
}
