package p17

import "verifharness/core"

// headers-first tracking (filled in later)
func execHeadersFirst(f []string) string { return "bad-op" }

func genHeadersFirst(g *core.Gen) {}
