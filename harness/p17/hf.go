package p17

// Headers-first tracking through the public API of a real regtest BlockChain
// (ffldb in a temp dir): ProcessBlockHeader / ProcessBlock deliveries of one
// block tree in arbitrary interleavings; after every delivery the result class,
// BestHeader and BestSnapshot tips are observed.

import (
	"fmt"
	"os"
	"path/filepath"
	"sort"
	"strconv"
	"strings"
	"time"

	"github.com/btcsuite/btcd/blockchain"
	"github.com/btcsuite/btcd/btcutil/v2"
	"github.com/btcsuite/btcd/chaincfg/v2"
	"github.com/btcsuite/btcd/chainhash/v2"
	"github.com/btcsuite/btcd/database"
	_ "github.com/btcsuite/btcd/database/ffldb"
	"github.com/btcsuite/btcd/txscript/v2"
	"github.com/btcsuite/btcd/wire/v2"
	"verifharness/core"
)

func errClass(err error) string {
	if re, ok := err.(blockchain.RuleError); ok {
		switch re.ErrorCode {
		case blockchain.ErrDuplicateBlock:
			return "err:dup"
		case blockchain.ErrPreviousBlockUnknown:
			return "err:prevunknown"
		case blockchain.ErrInvalidAncestorBlock:
			return "err:invalidancestor"
		case blockchain.ErrKnownInvalidBlock:
			return "err:knowninvalid"
		case blockchain.ErrBadCoinbaseValue:
			return "err:badblock"
		}
		return "err:rule-" + re.ErrorCode.String()
	}
	return "err:other"
}

// buildBlocks creates one valid regtest block per tree node (node 0 = the
// regtest genesis block); nodes listed in bad pay one satoshi too much.
func buildBlocks(params *chaincfg.Params, parents []int, bad map[int]bool) []*btcutil.Block {
	blocks := make([]*btcutil.Block, len(parents)+1)
	heights := make([]int32, len(parents)+1)
	blocks[0] = btcutil.NewBlock(params.GenesisBlock)
	for i, p := range parents {
		id := i + 1
		h := heights[p] + 1
		heights[id] = h
		script, err := txscript.NewScriptBuilder().AddInt64(int64(h)).AddInt64(int64(id) + 1000).Script()
		if err != nil {
			panic(err)
		}
		value := blockchain.CalcBlockSubsidy(h, params)
		if bad[id] {
			value++
		}
		cb := wire.NewMsgTx(1)
		cb.AddTxIn(&wire.TxIn{
			PreviousOutPoint: *wire.NewOutPoint(&chainhash.Hash{}, wire.MaxPrevOutIndex),
			SignatureScript:  script,
			Sequence:         wire.MaxTxInSequenceNum,
		})
		cb.AddTxOut(&wire.TxOut{Value: value, PkScript: []byte{txscript.OP_TRUE}})
		hdr := wire.BlockHeader{
			Version:    0x20000000 + int32(id%5), // versions differ from block to block
			PrevBlock:  *blocks[p].Hash(),
			MerkleRoot: cb.TxHash(),
			Timestamp:  params.GenesisBlock.Header.Timestamp.Add(time.Duration(int64(h)*600+int64(id)) * time.Second),
			Bits:       params.PowLimitBits,
		}
		target := blockchain.CompactToBig(hdr.Bits)
		for {
			hash := hdr.BlockHash()
			if blockchain.HashToBig(&hash).Cmp(target) <= 0 {
				break
			}
			hdr.Nonce++
		}
		mb := wire.NewMsgBlock(&hdr)
		mb.AddTransaction(cb)
		blocks[id] = btcutil.NewBlock(mb)
	}
	return blocks
}

// regChain is one real regtest chain on ffldb in a temp dir; it can be closed and re-opened on the
// same database with a different configuration.
type regChain struct {
	params *chaincfg.Params
	dir    string
	db     database.DB
	chain  *blockchain.BlockChain
}

var utxoCacheSizes = []uint64{1 << 20, 0, 1 << 10, 250 << 20, 1}

func newRegChain(params *chaincfg.Params) *regChain {
	base := ""
	if st, e := os.Stat("/dev/shm"); e == nil && st.IsDir() {
		base = "/dev/shm" // tmpfs: ffldb's fsync per commit costs nothing there
	}
	dir, err := os.MkdirTemp(base, "c17hf")
	if err != nil {
		panic(err)
	}
	c := &regChain{params: params, dir: dir}
	c.db, err = database.Create("ffldb", filepath.Join(dir, "db"), params.Net)
	if err != nil {
		os.RemoveAll(dir)
		panic(err)
	}
	c.open(0)
	return c
}

func (c *regChain) open(k int) {
	chain, err := blockchain.New(&blockchain.Config{
		DB: c.db, ChainParams: c.params, TimeSource: blockchain.NewMedianTime(),
		UtxoCacheMaxSize: utxoCacheSizes[k%len(utxoCacheSizes)],
	})
	if err != nil {
		c.close()
		panic(err)
	}
	c.chain = chain
}

// restart = clean shutdown (utxo cache flushed), database closed and re-opened, new BlockChain with
// another utxo cache size.
func (c *regChain) restart(k int) {
	if err := c.chain.FlushUtxoCache(blockchain.FlushRequired); err != nil {
		panic(err)
	}
	c.db.Close()
	db, err := database.Open("ffldb", filepath.Join(c.dir, "db"), c.params.Net)
	if err != nil {
		os.RemoveAll(c.dir)
		panic(err)
	}
	c.db = db
	c.open(k)
}

func (c *regChain) close() { c.db.Close(); os.RemoveAll(c.dir) }

func execHeadersFirst(f []string) string {
	// f = [segs, badlist, deliveries…]; delivery = h<id> | b<id> | r<k> (restart)
	if len(f) < 2 {
		return "bad-op"
	}
	parents, ok := parseSegs(f[0])
	if !ok {
		return "bad-op"
	}
	bad := map[int]bool{}
	if f[1] != "-" {
		for _, x := range strings.Split(f[1], ".") {
			bad[atoi(x)] = true
		}
	}
	params := chaincfg.RegressionNetParams
	params.Checkpoints = nil
	blocks := buildBlocks(&params, parents, bad)
	ids := map[chainhash.Hash]int{}
	for i, b := range blocks {
		ids[*b.Hash()] = i
	}
	if len(f) > 2 && strings.HasPrefix(f[2], "mo=") {
		// the orphan pool bound the generator read from the tree: a model parameter, unused here
		f = append(append([]string{}, f[:2]...), f[3:]...)
	}
	for _, d := range f[2:] {
		if len(d) < 2 {
			return "bad-op"
		}
		id := atoi(d[1:])
		if d[0] != 'r' && (id < 1 || id >= len(blocks)) || !strings.ContainsRune("hbr", rune(d[0])) {
			return "bad-op"
		}
	}
	rc := newRegChain(&params)
	defer func() { rc.close() }()
	idOf := func(h chainhash.Hash) string {
		if id, ok := ids[h]; ok {
			return strconv.Itoa(id)
		}
		return "?"
	}
	obs := func() string {
		chain := rc.chain
		bh, bhh := chain.BestHeader()
		snap := chain.BestSnapshot()
		tips := chain.ChainTips()
		sort.Slice(tips, func(i, j int) bool { return ids[tips[i].BlockHash] < ids[tips[j].BlockHash] })
		ts := make([]string, len(tips))
		for i, t := range tips {
			ts[i] = fmt.Sprintf("%s.%d.%d", idOf(t.BlockHash), tipStatus(t.Status), t.BranchLen)
		}
		return fmt.Sprintf("%s@%d/%s@%d/f%d/%s", idOf(bh), bhh, idOf(snap.Hash), snap.Height,
			chain.BestChainHeaderForkHeight(), strings.Join(ts, ","))
	}
	var out []string
	for _, d := range f[2:] {
		id := atoi(d[1:])
		chain := rc.chain
		var res string
		switch d[0] {
		case 'r':
			rc.restart(id)
			out = append(out, "restart/"+obs())
			continue
		case 'h':
			hdr := blocks[id].MsgBlock().Header
			// both values of skipCheckpoint and the no-PoW-check flag: no effect on valid regtest headers
			flags := blockchain.BFNone
			if (id+len(out))%3 == 0 {
				flags = blockchain.BFNoPoWCheck
			}
			main, err := chain.ProcessBlockHeader(&hdr, flags, (id+len(out))%2 == 0)
			switch {
			case err != nil:
				res = errClass(err)
			case main:
				res = "main"
			default:
				res = "side"
			}
		case 'b':
			// a fresh btcutil.Block so that cached heights do not leak between deliveries
			blk := btcutil.NewBlock(blocks[id].MsgBlock())
			main, orphan, err := chain.ProcessBlock(blk, blockchain.BFNone)
			switch {
			case err != nil:
				res = errClass(err)
			case orphan:
				res = "orphan"
			case main:
				res = "main"
			default:
				res = "side"
			}
		}
		h := blocks[id].Hash()
		have, err := chain.HaveBlock(h)
		if err != nil {
			panic(err)
		}
		hh := "-"
		if ht, err := chain.HeaderHeightByHash(*h); err == nil {
			hh = strconv.Itoa(int(ht))
		}
		out = append(out, fmt.Sprintf("%s/%s/%s%s/%s/%s/%s", res, b01(chain.IsValidHeader(h)),
			b01(have), b01(chain.IsKnownOrphan(h)), idOf(*chain.GetOrphanRoot(h)), hh, obs()))
	}
	// final observations: best-header chain by height, its locator, and the tip reached by the
	// block deliveries alone on a second chain
	chain := rc.chain
	maxH := int32(0)
	hts := make([]int32, len(blocks))
	for i, p := range parents {
		hts[i+1] = hts[p] + 1
		if hts[i+1] > maxH {
			maxH = hts[i+1]
		}
	}
	hdrs := make([]string, 0, maxH+2)
	for h := int32(0); h <= maxH+1; h++ {
		hh, err := chain.HeaderHashByHeight(h)
		if err != nil {
			hdrs = append(hdrs, "-")
		} else {
			hdrs = append(hdrs, idOf(*hh))
		}
	}
	// main-chain block lookups by height and by hash (BlockByHeight / BlockByHash / the public
	// query methods on the real chain)
	var byH, byHash []string
	for h := int32(0); h <= maxH+1; h++ {
		blk, err := chain.BlockByHeight(h)
		hh, err2 := chain.BlockHashByHeight(h)
		switch {
		case err != nil && err2 != nil:
			byH = append(byH, "-")
		case err == nil && err2 == nil && *blk.Hash() == *hh && blk.Height() == h:
			byH = append(byH, idOf(*hh))
		default:
			byH = append(byH, "inconsistent")
		}
	}
	for id := range blocks {
		h := blocks[id].Hash()
		blk, err := chain.BlockByHash(h)
		ht, err2 := chain.BlockHeightByHash(h)
		mc := chain.MainChainHasBlock(h)
		switch {
		case err != nil && err2 != nil && !mc:
			byHash = append(byHash, "-")
		case err == nil && err2 == nil && mc && *blk.Hash() == *h && blk.Height() == ht:
			byHash = append(byHash, strconv.Itoa(int(ht)))
		default:
			byHash = append(byHash, "inconsistent")
		}
	}
	out = append(out, "byheight="+strings.Join(byH, "."), "byhash="+strings.Join(byHash, "."))
	loc, _ := chain.LatestBlockLocatorByHeader()
	hloc := make([]string, len(loc))
	for i, h := range loc {
		hloc[i] = idOf(*h)
	}
	rc2 := newRegChain(&params)
	defer rc2.close()
	for _, d := range f[2:] {
		if d[0] == 'b' {
			rc2.chain.ProcessBlock(btcutil.NewBlock(blocks[atoi(d[1:])].MsgBlock()), blockchain.BFNone)
		}
	}
	snap2 := rc2.chain.BestSnapshot()
	out = append(out, "hdrs="+strings.Join(hdrs, "."), "hloc="+strings.Join(hloc, "."),
		fmt.Sprintf("blocksonly=%s@%d", idOf(snap2.Hash), snap2.Height))
	// the caller's block objects (delivered many times, to two chains) are unchanged
	for i, b := range blocks {
		if h := b.MsgBlock().BlockHash(); ids[h] != i || len(b.MsgBlock().Transactions) != len(blocks[i].Transactions()) {
			out = append(out, "inputs-changed")
			break
		}
	}
	return strings.Join(out, "|")
}

// genHeadersFirst: random small trees of real regtest blocks, some of them invalid (coinbase pays
// too much) anywhere in the tree; deliveries = headers only / blocks only / headers then blocks /
// random interleavings, mostly parents first with some disorder and duplicates; some histories
// restart the chain (new BlockChain on the same database with another utxo cache size).
func genHeadersFirst(g *core.Gen) {
	for i := 0; i < g.N(140, 1500); i++ {
		class, nontrivial, line := hfLine(g.R)
		g.Case(class, nontrivial, "C17 "+line)
	}
	genOrphanPool(g)
	genAttachPositions(g)
}

// genOrphanPool: the orphan pool bound (100): 99 / 100 / 101 / more orphans, the oldest one is evicted;
// a stale cached "oldest" pointer (its orphan was accepted meanwhile) evicts nothing.
func genOrphanPool(g *core.Gen) {
	r := g.R
	mo := blockchain.VerifMaxOrphanBlocks() // internal tuning constant: read from the tree, passed as `mo=`
	for i := 0; i < g.N(4, 40); i++ {
		k := mo + int(r.Pick(0, 1, 2, 3, 4, 8)) // chain 0..k: blocks k..2 delivered first are k-1 orphans
		var ds []string
		for id := k; id >= 2; id-- {
			ds = append(ds, fmt.Sprintf("b%d", id))
		}
		ds = append(ds, fmt.Sprintf("b%d", k), fmt.Sprintf("b%d", k-1), fmt.Sprintf("b%d", k-3), "b1")
		for j := 0; j < 4; j++ {
			ds = append(ds, fmt.Sprintf("b%d", k-j), fmt.Sprintf("h%d", k-j))
		}
		g.Case("hf-orphan-pool", true, fmt.Sprintf("C17 hf 0:%d - mo=%d %s", k, mo, strings.Join(ds, " ")))
	}
	for i := 0; i < g.N(2, 20); i++ {
		// nodes: 1 (child of 0), 2 (child of 1), chain 3..(2+m) off the root; 3 is never delivered
		m := mo + int(r.Pick(3, 4, 6))
		top := 2 + m
		ds := []string{"b2", fmt.Sprintf("b%d", top), "b1"} // pool [2,top], oldest=2; b1 accepts 1 and 2: pointer stale
		n := mo + int(r.Pick(-2, -1, 0, 1))
		for id := top - 1; id > top-1-n && id > 3; id-- {
			ds = append(ds, fmt.Sprintf("b%d", id))
		}
		ds = append(ds, fmt.Sprintf("b%d", top), fmt.Sprintf("b%d", top-1), fmt.Sprintf("b%d", top-2), "b3", fmt.Sprintf("b%d", top))
		g.Case("hf-orphan-pool-stale", true, fmt.Sprintf("C17 hf 0:1,1:1,0:%d - mo=%d %s", m, mo, strings.Join(ds, " ")))
	}
}

// genAttachPositions: an invalid block at the first / a middle / the last position of a multi-block
// attach list, after it, and two of them; branch delivered in order (re-organisation at the 4th
// side block) and in reverse (orphan chain flushed by the fork child).
func genAttachPositions(g *core.Gen) {
	// a known-invalid block 2, 3, 4 links below a newly delivered block whose parent is not marked:
	// the walk of getReorganizeNodes must look at every node, not only the first
	for nb := 1; nb <= 4; nb++ {
		m := nb + 1
		x := m + 1
		a := func(j int) int { return x + j }     // A_j, j = 1..m
		b := func(j int) int { return x + m + j } // B_j, j = 1..nb+2
		var ds []string
		for i := 1; i <= m; i++ {
			ds = append(ds, fmt.Sprintf("b%d", i))
		}
		ds = append(ds, fmt.Sprintf("b%d", x))
		for j := 1; j < m; j++ {
			ds = append(ds, fmt.Sprintf("b%d", a(j)))
		}
		for j := 1; j <= nb; j++ {
			ds = append(ds, fmt.Sprintf("b%d", b(j)))
		}
		ds = append(ds, fmt.Sprintf("b%d", a(m)), fmt.Sprintf("b%d", b(nb+1)), fmt.Sprintf("b%d", b(nb+2)),
			fmt.Sprintf("h%d", b(nb+2)), fmt.Sprintf("h%d", b(1)), fmt.Sprintf("h%d", x), fmt.Sprintf("b%d", b(nb+1)))
		g.Case("hf-known-invalid-deep", true, fmt.Sprintf("C17 hf 0:%d,0:1,%d:%d,%d:%d %d %s", m, x, m, x, nb+2, x, strings.Join(ds, " ")))
	}
	for _, bad := range []string{"4", "5", "6", "7", "8", "4.7", "5.6", "6.8", "-"} {
		g.Case("hf-attach-positions", true, fmt.Sprintf("C17 hf 0:3,0:5 %s b1 b2 b3 h4 b4 b5 b6 b7 b8 h5 h6 h7 h8 b5 b8", bad))
		g.Case("hf-attach-positions", true, fmt.Sprintf("C17 hf 0:3,0:5 %s b1 b2 b3 b8 b7 b6 b5 h8 b4 h4 h5 h6 h7 h8 b6", bad))
		g.Case("hf-attach-positions", true, fmt.Sprintf("C17 hf 0:3,0:2,5:3,5:4 %s b1 b2 b3 b4 b5 b6 b7 b9 b10 b11 b8 b12 h8 h12 h7", bad))
	}
}

// hfLine makes one headers-first history (without the property prefix).
func hfLine(r *core.Rand) (string, bool, string) {
	{
		t := newTree()
		n := r.Intn(12) + 2
		for t.n() <= n {
			p := r.Intn(t.n())
			if r.Bool() {
				p = t.n() - 1 - r.Intn(min(t.n(), 2))
			}
			t.addSeg(p, r.Intn(3)+1)
		}
		var bad []int
		if r.Chance(2, 3) {
			for id := 1; id < t.n(); id++ {
				if r.Chance(1, 6) {
					bad = append(bad, id)
				}
			}
		}
		mode := r.Intn(5) // 0 headers only, 1 blocks only, 2 headers then blocks, 3/4 mixed
		var ds []string
		order := func() []int { // mostly creation (topological) order with some disorder
			ids := make([]int, 0, t.n()-1)
			for id := 1; id < t.n(); id++ {
				ids = append(ids, id)
			}
			for k := r.Intn(3); k > 0 && len(ids) > 1; k-- {
				a, b := r.Intn(len(ids)), r.Intn(len(ids))
				ids[a], ids[b] = ids[b], ids[a]
			}
			switch r.Intn(6) {
			case 0: // full shuffle
				for i := len(ids) - 1; i > 0; i-- {
					j := r.Intn(i + 1)
					ids[i], ids[j] = ids[j], ids[i]
				}
			case 1: // reverse: every block but the last is an orphan first
				for i, j := 0, len(ids)-1; i < j; i, j = i+1, j-1 {
					ids[i], ids[j] = ids[j], ids[i]
				}
			}
			return ids
		}
		maybeRestart := func() {
			if r.Chance(1, 14) {
				ds = append(ds, fmt.Sprintf("r%d", r.Intn(5)))
			}
		}
		switch mode {
		case 0:
			for _, id := range order() {
				ds = append(ds, fmt.Sprintf("h%d", id))
			}
			for k := r.Intn(4); k > 0; k-- {
				ds = append(ds, fmt.Sprintf("h%d", 1+r.Intn(t.n()-1)))
			}
		case 1:
			for _, id := range order() {
				ds = append(ds, fmt.Sprintf("b%d", id))
				maybeRestart()
			}
			for k := r.Intn(3); k > 0; k-- {
				ds = append(ds, fmt.Sprintf("b%d", 1+r.Intn(t.n()-1)))
			}
		case 2:
			for _, id := range order() {
				ds = append(ds, fmt.Sprintf("h%d", id))
			}
			for _, id := range order() {
				ds = append(ds, fmt.Sprintf("b%d", id))
			}
		default:
			hs, bs := order(), order()
			for len(hs) > 0 || len(bs) > 0 {
				if len(bs) == 0 || (len(hs) > 0 && r.Bool()) {
					ds = append(ds, fmt.Sprintf("h%d", hs[0]))
					hs = hs[1:]
				} else {
					ds = append(ds, fmt.Sprintf("b%d", bs[0]))
					bs = bs[1:]
				}
				if r.Chance(1, 8) {
					ds = append(ds, fmt.Sprintf("%c%d", "hb"[r.Intn(2)], 1+r.Intn(t.n()-1)))
				}
				if mode == 4 {
					maybeRestart()
				}
			}
			// headers of everything again at the end: descendants of invalid blocks are refused
			for _, id := range order() {
				ds = append(ds, fmt.Sprintf("h%d", id))
			}
		}
		class := []string{"hf-headers-only", "hf-blocks-only", "hf-headers-then-blocks", "hf-mixed", "hf-mixed-restarts"}[mode]
		return class, len(ds) > 3, fmt.Sprintf("hf %s %s %s", t, joinInts(bad), strings.Join(ds, " "))
	}
}
