package p02

import (
	"math/big"
	"sort"
	"strings"

	"github.com/btcsuite/btcd/blockchain"
	"verifharness/core"
)

// randTree draws a rooted tree on ids 1..n. shape: 0 = uniform random parent,
// 1 = few long branches (parent among the last few nodes), 2 = bushy (parent
// among the first few). Verdict bits: mostly valid; pInv in 1000 of a block
// being invalid at one stage.
func randTree(r *core.Rand, n, shape, pInv int) []blk {
	tree := make([]blk, 0, n)
	for id := 1; id <= n; id++ {
		var par int
		switch shape {
		case 1:
			lo := id - 1 - r.Intn(3)
			if r.Chance(1, 6) {
				lo = r.Intn(id)
			}
			if lo < 0 {
				lo = 0
			}
			par = lo
		case 2:
			par = r.Intn(minInt(id, 4))
		default:
			par = r.Intn(id)
		}
		b := blk{id: id, parent: par, work: 1, sane: true, hdrOk: true, ctxOk: true, connOk: true}
		if r.Intn(1000) < pInv {
			switch r.Intn(6) {
			case 0:
				b.sane = false
			case 1:
				b.hdrOk = false
			case 2:
				b.ctxOk = false
			default:
				b.connOk = false // the interesting one: stored, fails only when connected
			}
		}
		tree = append(tree, b)
	}
	return tree
}

func maxInt(a, b int) int {
	if a > b {
		return a
	}
	return b
}

// relabelWithOps applies one random id permutation to a tree and to the ops that refer to it.
func relabelWithOps(r *core.Rand, tree []blk, ops *[]op) []blk {
	n := len(tree)
	perm := make([]int, n+1)
	for i := 1; i <= n; i++ {
		perm[i] = i
	}
	for i := n; i > 1; i-- {
		j := 1 + r.Intn(i)
		perm[i], perm[j] = perm[j], perm[i]
	}
	out := make([]blk, n)
	for i, b := range tree {
		b.id = perm[b.id]
		if b.parent != 0 {
			b.parent = perm[b.parent]
		}
		out[i] = b
	}
	sort.Slice(out, func(i, j int) bool { return out[i].id < out[j].id })
	for i := range *ops {
		if (*ops)[i].kind != 'R' && (*ops)[i].id != 0 {
			(*ops)[i].id = perm[(*ops)[i].id]
		}
	}
	return out
}

func minInt(a, b int) int {
	if a < b {
		return a
	}
	return b
}

// relabel applies a random permutation to the ids so that insertion order,
// id order and tree order are unrelated.
func relabel(r *core.Rand, tree []blk) []blk {
	n := len(tree)
	perm := make([]int, n+1)
	for i := 1; i <= n; i++ {
		perm[i] = i
	}
	for i := n; i > 1; i-- {
		j := 1 + r.Intn(i)
		perm[i], perm[j] = perm[j], perm[i]
	}
	out := make([]blk, n)
	for i, b := range tree {
		b.id = perm[b.id]
		if b.parent != 0 {
			b.parent = perm[b.parent]
		}
		out[i] = b
	}
	sort.Slice(out, func(i, j int) bool { return out[i].id < out[j].id })
	return out
}

func shuffle(r *core.Rand, xs []int) {
	for i := len(xs) - 1; i > 0; i-- {
		j := r.Intn(i + 1)
		xs[i], xs[j] = xs[j], xs[i]
	}
}

func idsOf(tree []blk) []int {
	ids := make([]int, len(tree))
	for i, b := range tree {
		ids[i] = b.id
	}
	return ids
}

// topo returns the ids parents-first (a valid in-order delivery).
func topo(tree []blk) []int {
	par := map[int]int{}
	for _, b := range tree {
		par[b.id] = b.parent
	}
	depth := map[int]int{}
	var d func(int) int
	d = func(id int) int {
		if id == 0 {
			return 0
		}
		if v, ok := depth[id]; ok {
			return v
		}
		v := d(par[id]) + 1
		depth[id] = v
		return v
	}
	ids := idsOf(tree)
	sort.SliceStable(ids, func(i, j int) bool { return d(ids[i]) < d(ids[j]) })
	return ids
}

func permutations(ids []int, emit func([]int)) {
	var rec func(k int)
	rec = func(k int) {
		if k == len(ids) {
			emit(append([]int(nil), ids...))
			return
		}
		for i := k; i < len(ids); i++ {
			ids[k], ids[i] = ids[i], ids[k]
			rec(k + 1)
			ids[k], ids[i] = ids[i], ids[k]
		}
	}
	rec(0)
}

func blockOps(order []int) []op {
	ops := make([]op, len(order))
	for i, id := range order {
		ops[i] = op{'b', id}
	}
	return ops
}

// randomOrder: a delivery sequence of every block in random order with
// duplicates (pDup per mille), headers interleaved (pHdr), and a degree of
// "orderliness" (0 = fully random, 100 = parents first).
func randomOrder(r *core.Rand, tree []blk, pDup, pHdr, orderly int) []op {
	ids := topo(tree)
	if orderly < 100 {
		// perturb: swap random pairs proportionally to disorder
		swaps := len(ids) * (100 - orderly) / 50
		for k := 0; k < swaps; k++ {
			i, j := r.Intn(len(ids)), r.Intn(len(ids))
			ids[i], ids[j] = ids[j], ids[i]
		}
	}
	var ops []op
	for _, id := range ids {
		if r.Intn(1000) < pHdr {
			ops = append(ops, op{'h', id})
		}
		ops = append(ops, op{'b', id})
		if r.Intn(1000) < pDup {
			ops = append(ops, op{'b', ids[r.Intn(len(ids))]})
		}
		if r.Intn(1000) < pHdr/2 {
			ops = append(ops, op{'h', ids[r.Intn(len(ids))]})
		}
	}
	// rare shape: the genesis block / header itself is re-delivered
	if r.Chance(1, 8) {
		at := r.Intn(len(ops) + 1)
		g := op{"bhnk"[r.Intn(4)], 0}
		ops = append(ops[:at], append([]op{g}, ops[at:]...)...)
	}
	// argument variants that must not matter: BFNoPoWCheck on a block with valid
	// proof of work, skipCheckpoint on a chain without checkpoints
	for i := range ops {
		if r.Chance(1, 6) {
			switch ops[i].kind {
			case 'b':
				ops[i].kind = 'n'
			case 'h':
				ops[i].kind = 'k'
			}
		}
	}
	return ops
}

func nontrivial(tree []blk, ops []op) bool {
	// rule: at least one fork (two blocks with the same parent) or an invalid block, and >= 3 deliveries
	seen := map[int]bool{}
	fork := false
	for _, b := range tree {
		if seen[b.parent] {
			fork = true
		}
		seen[b.parent] = true
		if !(b.sane && b.hdrOk && b.ctxOk && b.connOk) {
			fork = true
		}
	}
	return fork && len(ops) >= 3
}

func generate(g *core.Gen) {
	r := g.R

	// ---- fixed shapes delivered in order and in reverse (thin end-to-end slice)
	{
		v := func(id, par int) blk { return blk{id, par, 1, true, true, true, true, 0} }
		tree := []blk{v(1, 0), v(2, 1), v(3, 0), v(4, 3), v(5, 4)}
		g.Case("fork-inorder", true, mkLine(tree, blockOps([]int{1, 2, 3, 4, 5})))
		g.Case("fork-reverse", true, mkLine(tree, blockOps([]int{5, 4, 3, 2, 1})))
		g.Case("empty", false, mkLine(nil, nil))
		g.Case("empty", false, mkLine(tree, nil))
	}

	// ---- every delivery order of small trees
	exh := func(n, trees int) {
		for t := 0; t < trees; t++ {
			tree := relabel(r, randTree(r, n, r.Intn(3), 220))
			permutations(idsOf(tree), func(p []int) {
				g.Case("exhaustive-perm", nontrivial(tree, blockOps(p)), mkLine(tree, blockOps(p)))
			})
		}
	}
	exh(3, g.N(3, 10))
	exh(4, g.N(4, 20))
	exh(5, g.N(1, 12))
	exh(6, g.N(0, 6))
	if g.Thorough() {
		exh(7, 2)
	}

	// ---- random trees, random orders
	for i, n := 0, g.N(110, 2000); i < n; i++ {
		size := 4 + r.Intn(g.N(28, 60))
		if r.Chance(1, 8) {
			size = g.N(40, 100) + r.Intn(g.N(21, 300))
		}
		tree := relabel(r, randTree(r, size, r.Intn(3), int(r.Pick(0, 60, 150, 300))))
		ops := randomOrder(r, tree, int(r.Pick(0, 100, 300)), int(r.Pick(0, 0, 150, 400)), int(r.Pick(0, 30, 70, 95, 100)))
		cls := "random-order"
		for _, o := range ops {
			if o.kind == 'h' {
				cls = "random-order-headers"
				break
			}
		}
		g.Case(cls, nontrivial(tree, ops), mkLine(tree, ops))
	}

	// ---- children strictly before parents (everything goes through the orphan pool)
	for i, n := 0, g.N(40, 600); i < n; i++ {
		size := 3 + r.Intn(g.N(25, 90))
		tree := relabel(r, randTree(r, size, r.Intn(3), int(r.Pick(0, 100, 250))))
		ids := topo(tree)
		for a, b := 0, len(ids)-1; a < b; a, b = a+1, b-1 {
			ids[a], ids[b] = ids[b], ids[a]
		}
		g.Case("orphans-reverse", nontrivial(tree, blockOps(ids)), mkLine(tree, blockOps(ids)))
	}

	// ---- long competing chains with an invalid block deep inside (failed multi-block reorganisations)
	for i, n := 0, g.N(40, 600); i < n; i++ {
		var tree []blk
		id := 0
		nb := 2 + r.Intn(3)
		var tipsOf []int
		for b := 0; b < nb; b++ {
			par := 0
			if b > 0 && r.Chance(1, 2) && len(tree) > 0 {
				par = tree[r.Intn(len(tree))].id
			}
			ln := 2 + r.Intn(g.N(9, 20))
			bad := -1
			if r.Chance(2, 3) {
				bad = r.Intn(ln)
			}
			for k := 0; k < ln; k++ {
				id++
				x := blk{id, par, 1, true, true, true, true, 0}
				if k == bad {
					x.connOk = false
				}
				tree = append(tree, x)
				par = id
			}
			tipsOf = append(tipsOf, id)
		}
		tree = relabel(r, tree)
		ops := randomOrder(r, tree, 50, int(r.Pick(0, 200)), int(r.Pick(60, 90, 100)))
		g.Case("invalid-deep", nontrivial(tree, ops), mkLine(tree, ops))
	}

	// ---- orphan pool bound: more than maxOrphanBlocks orphans, then the missing parents
	for i, n := 0, g.N(2, 12); i < n; i++ {
		size := 103 + r.Intn(g.N(12, 60))
		tree := randTree(r, size, 1, 0)
		// deliver everything except a few roots first, then the roots
		ids := topo(tree)
		k := 1 + r.Intn(3)
		var ops []op
		rest := append([]int(nil), ids[k:]...)
		if r.Bool() {
			shuffle(r, rest)
		}
		ops = append(ops, blockOps(rest)...)
		ops = append(ops, blockOps(ids[:k])...)
		ops = append(ops, blockOps(rest)...) // re-deliver: evicted ones are accepted now
		g.Case("orphan-overflow", true, mkLine(tree, ops))
	}

	// ---- headers-first: every header in order (as netsync does), then the blocks in random order
	for i, n := 0, g.N(30, 600); i < n; i++ {
		size := 4 + r.Intn(g.N(30, 120))
		tree := relabel(r, randTree(r, size, r.Intn(3), int(r.Pick(0, 80, 200))))
		var ops []op
		for _, id := range topo(tree) {
			ops = append(ops, op{'h', id})
		}
		ids := idsOf(tree)
		shuffle(r, ids)
		ops = append(ops, blockOps(ids)...)
		if r.Bool() {
			for _, id := range topo(tree) {
				if r.Chance(1, 4) {
					ops = append(ops, op{'h', id})
				}
			}
		}
		g.Case("headers-first", nontrivial(tree, ops), mkLine(tree, ops))
	}

	genVariedWork(g)
	genInvRec(g)
	genHardening(g)

	// ---- malformed lines
	for _, l := range []string{
		"C02 run", "C02 run 1:0:1:1111", "C02 run 1:0:1:111 b1", "C02 run 1:0:1:1111 b2", "C02 run 1:0:1:1111 x1",
		"C02 run 1:0:0:1111 b1", "C02 run 1:0:1:1111,1:0:1:1111 b1", "C02 run 0:0:1:1111 b0", "C02 run 1:2:1:1111 b1",
		"C02 run 1:2:1:1111,2:1:1:1111 b1", "C02 run 1:0:1:1211 b1", "C02 walk - -", "C02 run 1:0:1:1111:x b1", "C02 run 1:0:1:1111:f,2:1:1:1111 b1", "C02 run 1:0:1:1111 b0",
	} {
		g.Case("malformed", false, l)
	}
}

// pacedTree turns a tree into a paced one: every block gets a pace (its
// timestamp distance to the parent) and the work that btcd's retarget rule
// then requires, computed with the real rule through the block factory. The
// difficulty is kept within 4 retarget steps of the minimum so that solving a
// block stays cheap.
func pacedTree(r *core.Rand, tree []blk) (res []blk) {
	// calls into the real difficulty code while GENERATING: never let a (mutated) tree crash the
	// generator - fall back to the unpaced tree (the case is then an ordinary equal-work one)
	defer func() {
		if rec := recover(); rec != nil {
			res = tree
		}
	}()
	f := newFactory(pacedParams())
	tm := map[int]blk{}
	for _, b := range tree {
		tm[b.id] = b
	}
	idx := map[int]int{}
	for i, b := range tree {
		idx[b.id] = i
	}
	out := append([]blk(nil), tree...)
	for _, id := range topo(tree) {
		b := out[idx[id]]
		level := int64(1)
		if b.parent != 0 {
			level = int64(out[idx[b.parent]].work)
		}
		switch {
		case level >= 256:
			b.pace = "nns"[r.Intn(3)]
		default:
			b.pace = "ffnns"[r.Intn(5)]
		}
		b.work = 1
		tm[b.id] = b
		x := f.build(b, tm, 0)
		if x.ok {
			b.work = int(new(big.Int).Rsh(blockchain.CalcWork(x.bits), 1).Int64())
		}
		out[idx[id]] = b
		tm[b.id] = b
	}
	return out
}

// genVariedWork: chains whose blocks carry different work (2, 8, 32, … per
// block), so that "most cumulative work" and "longest" disagree.
func genVariedWork(g *core.Gen) {
	r := g.R
	for i, n := 0, g.N(70, 1000); i < n; i++ {
		size := 5 + r.Intn(g.N(22, 60))
		tree := pacedTree(r, randTree(r, size, int(r.Pick(1, 1, 0)), int(r.Pick(0, 0, 80, 200))))
		ops := randomOrder(r, tree, int(r.Pick(0, 100)), int(r.Pick(0, 0, 200)), int(r.Pick(40, 80, 95, 100)))
		if i%2 == 1 {
			// the header view must also follow WORK, not height: all headers first, branch by branch
			// in a random order of the blocks within each depth
			var hops []op
			for _, id := range topo(tree) {
				hops = append(hops, op{"hk"[r.Intn(2)], id})
			}
			for k := 0; k+1 < len(hops); k++ { // local disorder that keeps parents first most of the time
				if r.Chance(1, 5) {
					hops[k], hops[k+1] = hops[k+1], hops[k]
				}
			}
			ops = append(hops, ops...)
		}
		g.Case("varied-work", nontrivial(tree, ops), mkLine(tree, ops))
	}
	// every delivery order of a few small paced trees (two branches of 2-3 blocks)
	for t, n := 0, g.N(1, 6); t < n; t++ {
		tree := pacedTree(r, randTree(r, 5, 1, 100))
		permutations(idsOf(tree), func(p []int) {
			g.Case("exhaustive-perm-varied-work", nontrivial(tree, blockOps(p)), mkLine(tree, blockOps(p)))
		})
	}
}

// genHardening: restart with a changed configuration between lives, BFFastAdd
// deliveries, independent chains run concurrently.
func genHardening(g *core.Gen) {
	r := g.R
	// ---- clean restarts on the same database, configuration varied between lives;
	// header-only nodes and orphans do not survive, statuses and the chain do
	for i, n := 0, g.N(60, 500); i < n; i++ {
		size := 4 + r.Intn(g.N(22, 60))
		tree := relabel(r, randTree(r, size, r.Intn(3), int(r.Pick(0, 80, 200))))
		base := randomOrder(r, tree, int(r.Pick(0, 100)), int(r.Pick(0, 200, 400)), int(r.Pick(30, 70, 95)))
		var ops []op
		for _, o := range base {
			ops = append(ops, o)
			if r.Chance(1, 7) {
				ops = append(ops, op{'R', r.Intn(8)})
			}
		}
		ops = append(ops, op{'R', r.Intn(8)})
		// after the last restart deliver everything once more (what was only pooled is accepted now)
		ids := idsOf(tree)
		shuffle(r, ids)
		ops = append(ops, blockOps(ids[:minInt(len(ids), 6)])...)
		g.Case("restart", nontrivial(tree, ops), mkLine(tree, ops))
	}
	// ---- BFFastAdd deliveries (checks skipped by design), mixed with normal ones
	for i, n := 0, g.N(40, 300); i < n; i++ {
		size := 4 + r.Intn(g.N(18, 40))
		tree := relabel(r, randTree(r, size, r.Intn(3), int(r.Pick(100, 250, 400))))
		ops := randomOrder(r, tree, 50, int(r.Pick(0, 150)), int(r.Pick(50, 90, 100)))
		for i := range ops {
			if (ops[i].kind == 'b' || ops[i].kind == 'n') && r.Chance(1, 2) {
				ops[i].kind = 'f'
			}
		}
		g.Case("fast-add", nontrivial(tree, ops), mkLine(tree, ops))
	}
	// ---- chains around the 500-hash limit of LocateBlocks (thorough only: ~1000 ops per line)
	if g.Thorough() {
		for _, n := range []int{499, 500, 501} {
			var tree []blk
			for id := 1; id <= n; id++ {
				tree = append(tree, blk{id, id - 1, 1, true, true, true, true, 0})
			}
			tree = append(tree, blk{n + 1, n - 3, 1, true, true, true, true, 0}) // a short fork near the tip
			g.Case("long-chain", true, mkLine(tree, blockOps(idsOf(tree))))
		}
	}
	// ---- every kind of invalid block at the first / a middle / the last position of a multi-block
	// attach list (and of a chain drained from the orphan pool), branches differing in length, work
	// (paced variant) and timestamps
	for kind := 0; kind < 4; kind++ {
		for pos := 0; pos < 3; pos++ {
			for variant := 0; variant < g.N(2, 6); variant++ {
				mainLen := 2 + r.Intn(3)
				sideLen := mainLen + 1 + r.Intn(2)
				var tree []blk
				id := 0
				par := 0
				for k := 0; k < mainLen; k++ {
					id++
					tree = append(tree, blk{id, par, 1, true, true, true, true, 0})
					par = id
				}
				forkAt := r.Intn(mainLen) // 0 = genesis
				par = forkAt
				badAt := []int{0, sideLen / 2, sideLen - 1}[pos]
				var side []int
				for k := 0; k < sideLen; k++ {
					id++
					x := blk{id, par, 1, true, true, true, true, 0}
					if k == badAt {
						switch kind {
						case 0:
							x.sane = false
						case 1:
							x.hdrOk = false
						case 2:
							x.ctxOk = false
						default:
							x.connOk = false
						}
					}
					tree = append(tree, x)
					side = append(side, id)
					par = id
				}
				if variant%2 == 1 {
					tree = pacedTree(r, tree)
				}
				var ops []op
				for k := 1; k <= mainLen; k++ {
					ops = append(ops, op{'b', k})
				}
				switch variant % 3 {
				case 0: // side chain in order: reorg attempted at its heavier blocks
					ops = append(ops, blockOps(side)...)
				case 1: // side chain children first: the whole chain comes out of the orphan pool at once
					for k := len(side) - 1; k >= 0; k-- {
						ops = append(ops, op{'b', side[k]})
					}
				default: // headers first, then data in random order
					for _, x := range side {
						ops = append(ops, op{'h', x})
					}
					sh := append([]int(nil), side...)
					shuffle(r, sh)
					ops = append(ops, blockOps(sh)...)
				}
				ops = append(ops, blockOps(side)...) // re-deliver everything once
				g.Case("attach-positions", true, mkLine(tree, ops))
			}
		}
	}
	// ---- 8 independent chains at once (no hidden shared state between instances)
	for i, n := 0, g.N(4, 30); i < n; i++ {
		parts := []string{"C02", "par"}
		for k := 0; k < 8; k++ {
			size := 3 + r.Intn(14)
			var tree []blk
			if k%4 == 3 {
				tree = pacedTree(r, randTree(r, size, 1, 100))
			} else {
				tree = relabel(r, randTree(r, size, r.Intn(3), int(r.Pick(0, 150))))
			}
			ops := randomOrder(r, tree, 100, int(r.Pick(0, 300)), int(r.Pick(30, 80, 100)))
			if k%3 == 0 {
				ops = append(ops, op{'R', k})
				ops = append(ops, op{'b', tree[0].id})
			}
			parts = append(parts, fmtTree(tree), fmtOps(ops))
		}
		g.Case("concurrent-8", true, strings.Join(parts, " "))
	}
}

func hasIR(ops []op) bool {
	for _, o := range ops {
		if o.kind == 'i' || o.kind == 'r' {
			return true
		}
	}
	return false
}

// genInvRec: histories with InvalidateBlock / ReconsiderBlock at random nodes.
// btcd's outcome can depend on Go map iteration order (ties between equal-work
// tips); such histories are recognised by the model (`amb`) and left out, except
// that the shapes of the known findings stay in (they are attributed by
// ClassifyMismatch when the implementation's choice is not the most-work one).
func genInvRec(g *core.Gen) {
	r := g.R
	var cand []struct {
		tree []blk
		ops  []op
	}
	for i, n := 0, g.N(150, 3000); i < n; i++ {
		size := 3 + r.Intn(g.N(14, 40))
		tree := relabel(r, randTree(r, size, int(r.Pick(0, 1, 1, 2)), int(r.Pick(0, 0, 100))))
		ops := randomOrder(r, tree, 0, int(r.Pick(0, 0, 0, 100)), int(r.Pick(90, 100, 100)))
		if r.Chance(1, 3) {
			// headers for everything first, data only for some blocks: invalidate / reconsider
			// then also hit header-only nodes
			var hops []op
			for _, id := range topo(tree) {
				hops = append(hops, op{'h', id})
			}
			keep := hops
			for _, o := range ops {
				if o.kind != 'h' && o.kind != 'k' && r.Chance(2, 3) {
					keep = append(keep, o)
				}
			}
			ops = keep
		}
		ids := idsOf(tree)
		k := 1 + r.Intn(4)
		var done []int
		for j := 0; j < k; j++ {
			if len(done) > 0 && r.Chance(1, 2) {
				// reconsider an invalidated block - or ANY block: a descendant, an ancestor or a
				// sibling of an invalidated one leaves a branch only partly cleared
				if r.Chance(1, 3) {
					ops = append(ops, op{'r', ids[r.Intn(len(ids))]})
				} else {
					ops = append(ops, op{'r', done[r.Intn(len(done))]})
				}
			} else {
				x := ids[r.Intn(len(ids))]
				done = append(done, x)
				ops = append(ops, op{'i', x})
			}
			if r.Chance(1, 3) {
				ops = append(ops, op{'b', ids[r.Intn(len(ids))]})
			}
			if r.Chance(1, 6) {
				ops = append(ops, op{'R', r.Intn(8)})
			}
		}
		cand = append(cand, struct {
			tree []blk
			ops  []op
		}{tree, ops})
	}
	// ---- nested invalidate / reconsider on ONE straight branch that does not win at once:
	// invalidate Xa, reconsider a strict descendant Xb (the blocks in between stay marked), reconsider
	// Xa (or invalidate / reconsider further members), then the branch is extended until it has the
	// most work: every block of it must have become acceptable again
	for i, n := 0, g.N(60, 600); i < n; i++ {
		forkH := r.Intn(2) // fork at genesis or at the first main block
		brLen := 3 + r.Intn(3)
		mainLen := forkH + brLen + r.Intn(2) // the delivered part of the branch has no more work than the active chain
		var tree []blk
		id := 0
		par := 0
		for k := 0; k < mainLen; k++ {
			id++
			tree = append(tree, blk{id, par, 1, true, true, true, true, 0})
			par = id
		}
		par = forkH
		var br []int
		extra := 1 + r.Intn(3)
		for k := 0; k < mainLen+extra+1; k++ { // long enough to overtake the main chain later
			id++
			tree = append(tree, blk{id, par, 1, true, true, true, true, 0})
			br = append(br, id)
			par = id
		}
		var ops []op
		for k := 1; k <= mainLen; k++ {
			ops = append(ops, op{'b', k})
		}
		first := br[:brLen] // delivered now: no more work than the active chain
		if r.Chance(1, 4) {
			for _, x := range first {
				ops = append(ops, op{'h', x})
			}
		}
		ops = append(ops, blockOps(first)...)
		a := r.Intn(brLen - 2)
		b := a + 2 + r.Intn(brLen-a-2)
		ops = append(ops, op{'i', first[a]}, op{'r', first[b]})
		switch r.Intn(4) {
		case 0:
			ops = append(ops, op{'r', first[a]})
		case 1:
			ops = append(ops, op{'r', first[a+1]}, op{'r', first[a]})
		case 2:
			ops = append(ops, op{'i', first[b]}, op{'r', first[a]}, op{'r', first[b]})
		default:
			ops = append(ops, op{'r', first[a]}, op{'i', first[r.Intn(brLen)]}, op{'r', first[r.Intn(brLen)]})
		}
		if r.Chance(1, 5) {
			ops = append(ops, op{'R', r.Intn(8)})
		}
		ops = append(ops, blockOps(br[brLen:])...) // the branch grows beyond the active chain
		ops = append(ops, op{'r', first[a]})
		ops = append(ops, blockOps(br[brLen:])...)
		cand = append(cand, struct {
			tree []blk
			ops  []op
		}{relabelWithOps(r, tree, &ops), ops})
	}
	lines := make([]string, len(cand))
	for i, c := range cand {
		lines[i] = strings.Replace(mkLine(c.tree, c.ops), "C02 run ", "C02 amb ", 1)
	}
	amb, err := core.RunLean("C02", lines)
	for i, c := range cand {
		if err != nil || i >= len(amb) || amb[i] != "0" {
			continue // outcome depends on map iteration order: not comparable verbatim
		}
		g.Case("inv-rec", true, mkLine(c.tree, c.ops))
	}
}
