// Package p02: correspondence for C02 (active chain = most-work fully-valid
// chain for every delivery order; all views agree; invalidate/reconsider).
//
// Line protocol (one self-contained history per line):
//
//	C02 run <tree> <ops>
//	tree = id:parent:work:flags[:pace],...   ids 1..n in any order, 0 = genesis,
//	       flags = 4 chars 0/1: sane, hdrOk, ctxOk, connOk
//	       work  = the block's own work in units of the minimum-difficulty work
//	       pace  = f|n|s (all blocks or none): the chain then runs on synthetic
//	               parameters that retarget every 2 blocks, the block's timestamp
//	               is parent + 1 s / 20 min / 80 min, and the required bits (hence
//	               the work, which must match the work field) follow from btcd's
//	               own retarget rule
//	ops  = b<id> | h<id> | i<id> | r<id>, comma separated
//
// Answer: one observation per op, joined by ';' (see observe).
package p02

import (
	"bytes"
	"fmt"
	"os"
	"path/filepath"
	"runtime"
	"sort"
	"strconv"
	"strings"
	"sync"
	"time"

	"github.com/btcsuite/btcd/blockchain"
	"github.com/btcsuite/btcd/btcutil/v2"
	"github.com/btcsuite/btcd/chaincfg/v2"
	"github.com/btcsuite/btcd/chainhash/v2"
	"github.com/btcsuite/btcd/database"
	_ "github.com/btcsuite/btcd/database/ffldb"
	"github.com/btcsuite/btcd/txscript/v2"
	"github.com/btcsuite/btcd/wire/v2"
	"verifharness/core"
)

type P struct{}

// status bit values come from the tree (hook), never from literals here
var (
	stData   = byte(blockchain.VerifC02Consts()["statusDataStored"])
	stFailed = byte(blockchain.VerifC02Consts()["statusValidateFailed"])
	stInvAnc = byte(blockchain.VerifC02Consts()["statusInvalidAncestor"])
)

func (P) ID() string { return "C02" }

func (P) Facts() []core.Fact {
	var fs []core.Fact
	for k, v := range blockchain.VerifC02Consts() {
		fs = append(fs, core.Fact{Name: k, Value: v})
	}
	return fs
}

// ---------------------------------------------------------------- line parsing

type blk struct {
	id, parent, work          int
	sane, hdrOk, ctxOk, connOk bool
	pace                      byte // 0 = regtest mode, else 'f' 'n' 's'
}

type op struct {
	kind byte // b h i r
	id   int
}

func parseLine(line string) (tree []blk, ops []op, ok bool) {
	f := strings.Fields(line)
	if len(f) != 4 || f[0] != "C02" || f[1] != "run" {
		return nil, nil, false
	}
	return parseTreeOps(f[2], f[3])
}

func parseTreeOps(treeTok, opsTok string) (tree []blk, ops []op, ok bool) {
	seen := map[int]bool{}
	if treeTok != "-" {
		for _, t := range strings.Split(treeTok, ",") {
			p := strings.Split(t, ":")
			var pace byte
			if len(p) == 5 && (p[4] == "f" || p[4] == "n" || p[4] == "s") {
				pace = p[4][0]
				p = p[:4]
			}
			if len(p) != 4 || len(p[3]) != 4 {
				return nil, nil, false
			}
			id, e1 := strconv.Atoi(p[0])
			par, e2 := strconv.Atoi(p[1])
			w, e3 := strconv.Atoi(p[2])
			if e1 != nil || e2 != nil || e3 != nil || id <= 0 || par < 0 || w <= 0 || seen[id] {
				return nil, nil, false
			}
			for _, c := range p[3] {
				if c != '0' && c != '1' {
					return nil, nil, false
				}
			}
			seen[id] = true
			tree = append(tree, blk{id, par, w, p[3][0] == '1', p[3][1] == '1', p[3][2] == '1', p[3][3] == '1', pace})
		}
		for _, b := range tree {
			if (b.pace == 0) != (tree[0].pace == 0) {
				return nil, nil, false // pace on all blocks or on none
			}
		}
	}
	if opsTok != "-" {
		for _, t := range strings.Split(opsTok, ",") {
			if len(t) < 2 || strings.IndexByte("bnfhkirR", t[0]) < 0 {
				return nil, nil, false
			}
			id, err := strconv.Atoi(t[1:])
			if err != nil || id < 0 {
				return nil, nil, false
			}
			switch t[0] {
			case 'R': // restart; the number selects the configuration of the next life
			case 'i', 'r':
				if id != 0 && !seen[id] {
					return nil, nil, false
				}
			default:
				if id != 0 && !seen[id] { // id 0: the genesis block / header itself is (re-)delivered
					return nil, nil, false
				}
			}
			ops = append(ops, op{t[0], id})
		}
	}
	return tree, ops, true
}

// ---------------------------------------------------------------- block factory

const baseTime = 1333238400 + 86400 // 2012-04-02

type built struct {
	b      blk
	block  *btcutil.Block
	height int32
	ts     int64
	bits   uint32
	par    *built // nil when the parent is genesis or unresolvable
	gen    *built // the genesis pseudo-node (for the header context)
	ok     bool   // could be built (its parent chain resolves to genesis)
	badWork bool  // the work field of the line does not match the required difficulty
}

// HeaderCtx over the factory's own tree, so that the required bits of a paced
// block can be computed with btcd's retarget rule before any chain exists.
func (x *built) Height() int32    { return x.height }
func (x *built) Bits() uint32     { return x.bits }
func (x *built) Timestamp() int64 { return x.ts }
func (x *built) Parent() blockchain.HeaderCtx {
	if x.height == 0 {
		return nil
	}
	if x.par == nil {
		return x.gen
	}
	return x.par
}
func (x *built) RelativeAncestorCtx(d int32) blockchain.HeaderCtx {
	if d < 0 || d > x.height {
		return nil
	}
	n := x
	for i := int32(0); i < d; i++ {
		if n.par == nil {
			n = n.gen
		} else {
			n = n.par
		}
	}
	return n
}

// chainCtx is the ChainCtx of the synthetic parameters (what BlockChain derives from them).
type chainCtx struct{ p *chaincfg.Params }

func (c chainCtx) ChainParams() *chaincfg.Params { return c.p }
func (c chainCtx) BlocksPerRetarget() int32 {
	return int32(c.p.TargetTimespan / c.p.TargetTimePerBlock)
}
func (c chainCtx) MinRetargetTimespan() int64 {
	return int64(c.p.TargetTimespan/time.Second) / c.p.RetargetAdjustmentFactor
}
func (c chainCtx) MaxRetargetTimespan() int64 {
	return int64(c.p.TargetTimespan/time.Second) * c.p.RetargetAdjustmentFactor
}
func (c chainCtx) VerifyCheckpoint(int32, *chainhash.Hash) bool { return false }
func (c chainCtx) FindPreviousCheckpoint() (blockchain.HeaderCtx, error) {
	return nil, nil
}

type factory struct {
	params *chaincfg.Params
	byID   map[int]*built
	idOf   map[chainhash.Hash]int
	gen    *built
}

func newFactory(params *chaincfg.Params) *factory {
	f := &factory{params: params, byID: map[int]*built{}, idOf: map[chainhash.Hash]int{*params.GenesisHash: 0}}
	f.gen = &built{height: 0, ts: params.GenesisBlock.Header.Timestamp.Unix(), bits: params.GenesisBlock.Header.Bits, ok: true}
	return f
}

func (f *factory) mtp(n *built) int64 {
	// median of the last 11 timestamps ending at n (nil = genesis)
	var ts []int64
	for i := 0; i < 11; i++ {
		if n == nil {
			ts = append(ts, f.params.GenesisBlock.Header.Timestamp.Unix())
			break
		}
		ts = append(ts, n.ts)
		n = n.par
	}
	sort.Slice(ts, func(i, j int) bool { return ts[i] < ts[j] })
	return ts[len(ts)/2]
}

func solve(h *wire.BlockHeader) {
	target := blockchain.CompactToBig(h.Bits)
	for {
		hash := h.BlockHash()
		if blockchain.HashToBig(&hash).Cmp(target) <= 0 {
			return
		}
		h.Nonce++
	}
}

func (f *factory) build(b blk, tree map[int]blk, depth int) *built {
	if x, ok := f.byID[b.id]; ok {
		return x
	}
	x := &built{b: b, gen: f.gen}
	f.byID[b.id] = x
	var prevHash chainhash.Hash
	if b.parent == 0 {
		prevHash = *f.params.GenesisHash
		x.height = 1
		x.ok = true
	} else if pb, ok := tree[b.parent]; ok && depth < 100000 && pb.id != b.id {
		p := f.build(pb, tree, depth+1)
		if p.ok && p.block != nil {
			x.par = p
			prevHash = *p.block.Hash()
			x.height = p.height + 1
			x.ok = true
		}
	}
	if !x.ok {
		return x
	}
	x.ts = baseTime + int64(x.height)*600 + int64(b.id%500)
	x.bits = f.params.PowLimitBits
	if b.pace != 0 {
		// paced mode: timestamp relative to the parent, bits from btcd's retarget rule
		if x.par == nil {
			x.ts = baseTime + int64(b.id%500)
		} else {
			dt := int64(1200)
			switch b.pace {
			case 'f':
				dt = 1
			case 's':
				dt = 4800
			}
			x.ts = x.par.ts + dt
		}
	}
	if !b.hdrOk {
		x.ts = f.mtp(x.par) // must be strictly greater than the median time past
	}
	if b.pace != 0 {
		var last blockchain.HeaderCtx = f.gen
		if x.par != nil {
			last = x.par
		}
		bits, err := blockchain.VerifCalcNextRequiredDifficulty(last, time.Unix(x.ts, 0), chainCtx{f.params})
		if err != nil {
			x.ok = false
			return x
		}
		x.bits = bits
	}
	if w := blockchain.CalcWork(x.bits); !w.IsInt64() || w.Int64() != 2*int64(b.work) {
		x.badWork = true
	}
	script, _ := txscript.NewScriptBuilder().AddInt64(int64(x.height)).AddInt64(int64(b.id) + 0x10000).Script()
	cb := wire.NewMsgTx(1)
	cb.AddTxIn(&wire.TxIn{
		PreviousOutPoint: *wire.NewOutPoint(&chainhash.Hash{}, wire.MaxPrevOutIndex),
		Sequence:         wire.MaxTxInSequenceNum,
		SignatureScript:  script,
	})
	val := blockchain.CalcBlockSubsidy(x.height, f.params)
	if !b.connOk {
		val++ // pays one satoshi too much: rejected only by checkConnectBlock
	}
	cb.AddTxOut(&wire.TxOut{Value: val, PkScript: []byte{txscript.OP_TRUE}})
	if !b.ctxOk {
		// a coinbase that is not final at this height: rejected by checkBlockContext
		cb.TxIn[0].Sequence = 0
		cb.LockTime = uint32(x.height) + 1000
	}
	msg := &wire.MsgBlock{
		Header: wire.BlockHeader{
			Version:    0x20000000,
			PrevBlock:  prevHash,
			MerkleRoot: cb.TxHash(),
			Timestamp:  time.Unix(x.ts, 0),
			Bits:       x.bits,
		},
		Transactions: []*wire.MsgTx{cb},
	}
	if !b.sane {
		msg.Header.MerkleRoot[0] ^= 0x55 // wrong merkle root: rejected by checkBlockSanity
	}
	solve(&msg.Header)
	x.block = btcutil.NewBlock(msg)
	f.idOf[*x.block.Hash()] = b.id
	return x
}

// ---------------------------------------------------------------- the real chain

// pacedParams: regtest with retargeting switched on, a retarget every 2 blocks
// and the usual factor 4, so that sibling chains can carry different work.
func pacedParams() *chaincfg.Params {
	p := cloneParams()
	p.PoWNoRetargeting = false
	p.ReduceMinDifficulty = false
	p.TargetTimePerBlock = 10 * time.Minute
	p.TargetTimespan = 20 * time.Minute
	p.RetargetAdjustmentFactor = 4
	return p
}

func cloneParams() *chaincfg.Params {
	p := chaincfg.RegressionNetParams
	p.Deployments = chaincfg.RegressionNetParams.Deployments // array copy
	for i := range p.Deployments {
		d := p.Deployments[i]
		p.Deployments[i] = d
	}
	p.Checkpoints = nil
	return &p
}

var tmpRoot = func() string {
	if st, err := os.Stat("/dev/shm"); err == nil && st.IsDir() {
		return "/dev/shm"
	}
	return ""
}()

type inst struct {
	chain  *blockchain.BlockChain
	db     database.DB
	dir    string
	notes  []string
	f      *factory
	params *chaincfg.Params
	// results are values: every BestSnapshot ever handed out, with its rendering at that time
	snaps    []*blockchain.BestState
	snapStrs []string
	notes2   int // notifications seen by a second, independent subscriber
}

func renderSnap(b *blockchain.BestState) string {
	return fmt.Sprintf("%v/%d/%d/%d/%d/%d/%d/%d", b.Hash, b.Height, b.Bits, b.BlockSize, b.BlockWeight, b.NumTxns, b.TotalTxns, b.MedianTime.Unix())
}

func (in *inst) subscribe() {
	in.chain.Subscribe(func(n *blockchain.Notification) {
		blk, ok := n.Data.(*btcutil.Block)
		if !ok {
			return
		}
		id := in.f.idOf[*blk.Hash()]
		switch n.Type {
		case blockchain.NTBlockConnected:
			in.notes = append(in.notes, "+"+strconv.Itoa(id))
		case blockchain.NTBlockDisconnected:
			in.notes = append(in.notes, "-"+strconv.Itoa(id))
		}
	})
	// every subscriber sees the same stream
	in.chain.Subscribe(func(n *blockchain.Notification) {
		if n.Type == blockchain.NTBlockConnected || n.Type == blockchain.NTBlockDisconnected {
			in.notes2++
		}
	})
}

// restart: clean shutdown (flush the utxo cache, close the database) and a new
// BlockChain on the same database, with a different configuration of the parts
// that must not matter (utxo cache size, signature/hash caches).
func (in *inst) restart(cfg int) error {
	if err := in.chain.FlushUtxoCache(blockchain.FlushRequired); err != nil {
		return err
	}
	if err := in.db.Close(); err != nil {
		return err
	}
	db, err := database.Open("ffldb", in.dir, in.params.Net)
	if err != nil {
		in.db = nil
		return err
	}
	in.db = db
	c := &blockchain.Config{
		DB:               db,
		ChainParams:      in.params,
		TimeSource:       blockchain.NewMedianTime(),
		UtxoCacheMaxSize: []uint64{8 << 20, 0, 1 << 10, 64 << 20}[cfg%4],
	}
	if cfg%2 == 1 {
		c.SigCache = txscript.NewSigCache(10)
		c.HashCache = txscript.NewHashCache(10)
	}
	chain, err := blockchain.New(c)
	if err != nil {
		return err
	}
	in.chain = chain
	in.subscribe()
	return nil
}

func (in *inst) closeNow() {
	if in.db != nil {
		in.db.Close()
	}
	if in.dir != "" {
		os.RemoveAll(in.dir)
	}
}

// Creating and closing an ffldb-backed chain costs far more than the ops of a
// case, and neither depends on the case: instances are prepared ahead by
// background workers and closed in the background (bounded), so Exec itself
// only pays for the history it replays.
var (
	closeSem  = make(chan struct{}, 16)
	instPool  chan *inst
	poolStart sync.Once
)

func (in *inst) close() {
	closeSem <- struct{}{}
	go func() {
		in.closeNow()
		<-closeSem
	}()
}

func pooledInst() (*inst, error) {
	poolStart.Do(func() {
		// remove what a crashed earlier run may have left behind
		if old, _ := filepath.Glob(filepath.Join(tmpDir(), "verif-c02-*")); len(old) > 0 {
			for _, d := range old {
				if st, err := os.Stat(d); err == nil && time.Since(st.ModTime()) > 10*time.Minute {
					os.RemoveAll(d)
				}
			}
		}
		instPool = make(chan *inst, 6)
		for w := 0; w < 3; w++ {
			go func() {
				for {
					in, err := newInst()
					if err != nil {
						in = nil
					}
					instPool <- in
				}
			}()
		}
	})
	in := <-instPool
	if in == nil {
		return newInst()
	}
	return in, nil
}

func tmpDir() string {
	if tmpRoot != "" {
		return tmpRoot
	}
	return os.TempDir()
}

func newInst() (*inst, error) { return newInstWith(cloneParams()) }

func newInstWith(params *chaincfg.Params) (*inst, error) {
	dir, err := os.MkdirTemp(tmpRoot, "verif-c02-")
	if err != nil {
		return nil, err
	}
	db, err := database.Create("ffldb", dir, params.Net)
	if err != nil {
		os.RemoveAll(dir)
		return nil, err
	}
	in := &inst{db: db, dir: dir, params: params}
	chain, err := blockchain.New(&blockchain.Config{
		DB:               db,
		ChainParams:      params,
		TimeSource:       blockchain.NewMedianTime(),
		UtxoCacheMaxSize: 8 << 20,
	})
	if err != nil {
		in.closeNow()
		return nil, err
	}
	in.chain = chain
	in.f = newFactory(params)
	in.subscribe()
	return in, nil
}

func errClass(err error) string {
	if err == nil {
		return ""
	}
	if re, ok := err.(blockchain.RuleError); ok {
		if re.ErrorCode == blockchain.ErrDuplicateBlock {
			return "d"
		}
		return "e"
	}
	return "x"
}

// observe renders every view of the active chain after one op:
//
//	res/tip@height/besthdr@height/c0.c1...ck/mainbits/hdrbits/statuses/tips/notes/orphans
//
// chain = BlockHashByHeight for heights 0.. until the first miss; every secondary
// accessor of the same information is compared with it on the spot and a
// disagreement is rendered as an extra "!…" marker (which the model never
// produces): BlockHeightByHash, the persisted height<->hash buckets, BlockByHeight,
// BlockByHash, HeaderByHash, HeightRange, HeightToHashRange, IntervalBlockHashes,
// LatestBlockLocator / BlockLocatorFromHash, LocateBlocks / LocateHeaders, the
// other fields of BestSnapshot; for the header view HeaderHashByHeight,
// HeaderHeightByHash, LatestBlockLocatorByHeader, BestChainHeaderForkHeight; for
// the orphan pool HaveBlock vs IsKnownOrphan. mainbits = MainChainHasBlock per id;
// hdrbits = IsValidHeader per id; statuses = per id '-' not indexed, 'h' header
// only, 'd' data stored, + 'i' known invalid; tips = ChainTips sorted by id; notes = the connected/disconnected
// notifications raised by this op; orphans = per id 'o<GetOrphanRoot>' or '-'.
func (in *inst) observe(res string, ids []int) string {
	var sb strings.Builder
	sb.WriteString(res)
	snap := in.chain.BestSnapshot()
	in.snaps = append(in.snaps, snap)
	in.snapStrs = append(in.snapStrs, renderSnap(snap))
	fmt.Fprintf(&sb, "/%d@%d", in.f.idOf[snap.Hash], snap.Height)
	// the other fields of the snapshot must describe the same tip: coinbase-only
	// blocks => total txns = height+1; median time = median of the last 11
	// timestamps of the tip's own chain (from the factory's tree)
	if snap.TotalTxns != uint64(snap.Height)+1 || snap.NumTxns != 1 {
		sb.WriteString("!txns")
	}
	tipB := in.f.byID[in.f.idOf[snap.Hash]]
	if snap.MedianTime.Unix() != in.f.mtp(tipB) {
		sb.WriteString("!mtp")
	}
	if tipB != nil && snap.Bits != tipB.bits {
		sb.WriteString("!bits")
	}
	// header view
	hh, hheight := in.chain.BestHeader()
	fmt.Fprintf(&sb, "/%d@%d", in.f.idOf[hh], hheight)
	{
		// walk the factory's parent pointers from the header tip: must agree with HeaderHashByHeight
		n := in.f.byID[in.f.idOf[hh]]
		forkH := int32(-1)
		for h := hheight; h >= 0; h-- {
			want := *in.f.params.GenesisHash
			if n != nil {
				want = *n.block.Hash()
			}
			got, err := in.chain.HeaderHashByHeight(h)
			if err != nil || *got != want {
				sb.WriteString("!hhbh")
				break
			}
			if back, err := in.chain.HeaderHeightByHash(want); err != nil || back != h {
				sb.WriteString("!hhbh2")
				break
			}
			if forkH < 0 && in.chain.MainChainHasBlock(&want) {
				forkH = h
			}
			if n != nil {
				n = n.par
			}
		}
		if _, err := in.chain.HeaderHashByHeight(hheight + 1); err == nil {
			sb.WriteString("!hhbh3")
		}
		if fh := in.chain.BestChainHeaderForkHeight(); fh != forkH {
			sb.WriteString("!hfork")
		}
		if loc, err := in.chain.LatestBlockLocatorByHeader(); err != nil || len(loc) == 0 || *loc[0] != hh {
			sb.WriteString("!hloc")
		}
	}
	sb.WriteByte('/')
	var chain []chainhash.Hash
	for h := int32(0); ; h++ {
		hash, err := in.chain.BlockHashByHeight(h)
		if err != nil {
			break
		}
		chain = append(chain, *hash)
		if h > 0 {
			sb.WriteByte('.')
		}
		sb.WriteString(strconv.Itoa(in.f.idOf[*hash]))
		if hh, err := in.chain.BlockHeightByHash(hash); err != nil || hh != h {
			sb.WriteString("!hbh")
		}
		if blk, err := in.chain.BlockByHeight(h); err != nil || *blk.Hash() != *hash || blk.Height() != h {
			sb.WriteString("!bbh")
		}
		if blk, err := in.chain.BlockByHash(hash); err != nil || *blk.Hash() != *hash {
			sb.WriteString("!bbhash")
		}
	}
	dbc, ok := in.chain.VerifC02DBMainChain()
	same := ok && len(dbc) == len(chain)
	for i := 0; same && i < len(chain); i++ {
		same = dbc[i] == chain[i]
	}
	if !same {
		sb.WriteString("!db")
		for _, h := range dbc {
			sb.WriteString("." + strconv.Itoa(in.f.idOf[h]))
		}
	}
	eq := func(a []chainhash.Hash, b []chainhash.Hash) bool {
		if len(a) != len(b) {
			return false
		}
		for i := range a {
			if a[i] != b[i] {
				return false
			}
		}
		return true
	}
	n := int32(len(chain))
	tipHash := chain[n-1]
	if r, err := in.chain.HeightRange(0, n); err != nil || !eq(r, chain) {
		sb.WriteString("!hr")
	}
	if n > 2 {
		if r, err := in.chain.HeightRange(1, n-1); err != nil || !eq(r, chain[1:n-1]) {
			sb.WriteString("!hr2")
		}
	}
	if r, err := in.chain.HeightToHashRange(0, &tipHash, int(n)+1); err != nil || !eq(r, chain) {
		sb.WriteString("!h2h")
	}
	for _, iv := range []int{1, 2, 3} {
		r, err := in.chain.IntervalBlockHashes(&tipHash, iv)
		okI := err == nil && len(r) == int(n-1)/iv
		for i := 0; okI && i < len(r); i++ {
			okI = r[i] == chain[(i+1)*iv]
		}
		if !okI {
			sb.WriteString("!ivl")
		}
	}
	if loc, err := in.chain.LatestBlockLocator(); err != nil || len(loc) == 0 || *loc[0] != tipHash || *loc[len(loc)-1] != chain[0] {
		sb.WriteString("!loc")
	} else {
		prev := n
		for _, l := range loc {
			h, err := in.chain.BlockHeightByHash(l)
			if err != nil || h >= prev {
				sb.WriteString("!loc2")
				break
			}
			prev = h
		}
		loc2 := in.chain.BlockLocatorFromHash(&tipHash)
		if len(loc2) != len(loc) {
			sb.WriteString("!loc3")
		}
	}
	if r := in.chain.LocateBlocks(blockchain.BlockLocator{&chain[0]}, &chainhash.Hash{}, 500); !eq(r, chain[1:minI(len(chain), 501)]) {
		sb.WriteString("!lb")
	}
	if r := in.chain.LocateHeaders(blockchain.BlockLocator{&chain[0]}, &chainhash.Hash{}); len(r) != minI(len(chain)-1, 2000) {
		sb.WriteString("!lh")
	} else {
		for i := range r {
			if r[i].BlockHash() != chain[i+1] {
				sb.WriteString("!lh2")
				break
			}
		}
	}
	sb.WriteByte('/')
	for _, id := range ids {
		x := in.f.byID[id]
		if x != nil && x.block != nil && in.chain.MainChainHasBlock(x.block.Hash()) {
			sb.WriteByte('1')
		} else {
			sb.WriteByte('0')
		}
	}
	sb.WriteByte('/')
	for _, id := range ids {
		x := in.f.byID[id]
		if x != nil && x.block != nil && in.chain.IsValidHeader(x.block.Hash()) {
			sb.WriteByte('1')
		} else {
			sb.WriteByte('0')
		}
	}
	sb.WriteByte('/')
	var orph []string
	for i, id := range ids {
		if i > 0 {
			sb.WriteByte('.')
		}
		x := in.f.byID[id]
		if x == nil || x.block == nil {
			sb.WriteByte('-')
			orph = append(orph, "-")
			continue
		}
		// at the level of the public API only: not indexed / header only / data
		// stored, + known invalid (the raw status byte is bookkeeping: when the valid
		// bit is set, failed vs invalid-ancestor, are not part of the property)
		st, ok := in.chain.VerifC02NodeStatus(x.block.Hash())
		if !ok {
			sb.WriteByte('-')
		} else {
			if st&stData != 0 {
				sb.WriteByte('d')
			} else {
				sb.WriteByte('h')
			}
			if st&(stFailed|stInvAnc) != 0 {
				sb.WriteByte('i')
			}
		}
		// the header accessor knows exactly the indexed nodes
		if hdr, err := in.chain.HeaderByHash(x.block.Hash()); (err == nil) != ok || (err == nil && hdr.BlockHash() != *x.block.Hash()) {
			sb.WriteString("!hdr")
		}
		isOrph := in.chain.IsKnownOrphan(x.block.Hash())
		have, _ := in.chain.HaveBlock(x.block.Hash())
		if have != (isOrph || (ok && st&stData != 0)) {
			sb.WriteString("!have")
		}
		if isOrph {
			orph = append(orph, "o"+strconv.Itoa(in.f.idOf[*in.chain.GetOrphanRoot(x.block.Hash())]))
		} else {
			if r := in.chain.GetOrphanRoot(x.block.Hash()); *r != *x.block.Hash() {
				sb.WriteString("!oroot")
			}
			orph = append(orph, "-")
		}
	}
	sb.WriteByte('/')
	tips := in.chain.ChainTips()
	sort.Slice(tips, func(i, j int) bool { return in.f.idOf[tips[i].BlockHash] < in.f.idOf[tips[j].BlockHash] })
	for i, t := range tips {
		if i > 0 {
			sb.WriteByte(',')
		}
		c := "u"
		switch t.Status {
		case blockchain.StatusActive:
			c = "a"
		case blockchain.StatusInvalid:
			c = "i"
		case blockchain.StatusValidFork:
			c = "v"
		}
		fmt.Fprintf(&sb, "%d:%d:%d:%s", in.f.idOf[t.BlockHash], t.Height, t.BranchLen, c)
	}
	sb.WriteByte('/')
	if len(in.notes) != in.notes2 {
		sb.WriteString("!sub2")
	}
	in.notes2 = 0
	if in.chain.IsCurrent() {
		sb.WriteString("!current") // tips dated 2012 are never "current"
	}
	if len(in.notes) == 0 {
		sb.WriteByte('=')
	}
	for _, n := range in.notes {
		sb.WriteString(n)
	}
	in.notes = in.notes[:0]
	sb.WriteByte('/')
	sb.WriteString(strings.Join(orph, "."))
	return sb.String()
}

func minI(a, b int) int {
	if a < b {
		return a
	}
	return b
}

// Exec runs one line against the real code under a watchdog: a (mutated) tree
// that blocks or spins must produce an answer ("timeout") instead of hanging the run.
func (p P) Exec(line string) string {
	done := make(chan string, 1)
	go func() {
		defer func() {
			if r := recover(); r != nil {
				done <- "panic"
			}
		}()
		done <- p.exec(line)
	}()
	select {
	case out := <-done:
		return out
	case <-time.After(120 * time.Second):
		return "timeout"
	}
}

func (P) exec(line string) string {
	f := strings.Fields(line)
	if len(f) >= 4 && f[0] == "C02" && f[1] == "par" && len(f)%2 == 0 {
		// independent histories on independent chains, run concurrently at staggered offsets
		n := (len(f) - 2) / 2
		outs := make([]string, n)
		var wg sync.WaitGroup
		for i := 0; i < n; i++ {
			wg.Add(1)
			go func(i int) {
				defer wg.Done()
				defer func() {
					if r := recover(); r != nil {
						outs[i] = "panic"
					}
				}()
				time.Sleep(time.Duration(i*3) * time.Millisecond)
				tree, ops, ok := parseTreeOps(f[2+2*i], f[3+2*i])
				if !ok {
					outs[i] = "bad-op"
					return
				}
				outs[i] = execOne(tree, ops, true)
			}(i)
		}
		wg.Wait()
		return strings.Join(outs, "#")
	}
	tree, ops, ok := parseLine(line)
	if !ok {
		return "bad-op"
	}
	out := execOne(tree, ops, false)
	// Which orphan is dropped when the pool overflows is an internal policy; the
	// property admits any outcome in which at most one pooled orphan is dropped.
	// For histories that can overflow the pool the comparison is therefore
	// membership: if the implementation's observations differ from the model's
	// own policy but the model admits them for SOME victim at every overflow
	// (driver op `member`), the model's rendering is reported as the canonical
	// representative of that admissible set (logged as model-diverged).
	deliveries := 0
	for _, o := range ops {
		if o.kind == 'b' || o.kind == 'n' || o.kind == 'f' {
			deliveries++
		}
	}
	if deliveries > int(blockchain.VerifC02Consts()["maxOrphanBlocks"]) && !strings.ContainsAny(out, " \t") {
		f := strings.Fields(line)
		ans, err := core.RunLean("C02", []string{line, "C02 member " + f[2] + " " + f[3] + " " + out})
		if err == nil && len(ans) == 2 && ans[0] != out && ans[1] == "1" {
			fmt.Fprintf(os.Stderr, "C02: model-diverged (admissible orphan eviction choice) on a %d-op history\n", len(ops))
			return ans[0]
		}
	}
	return out
}

func execOne(tree []blk, ops []op, yield bool) string {
	var in *inst
	var err error
	if len(tree) > 0 && tree[0].pace != 0 {
		in, err = newInstWith(pacedParams())
	} else {
		in, err = pooledInst()
	}
	if err != nil {
		return "harness-error"
	}
	defer func() { in.close() }()
	tm := map[int]blk{}
	ids := make([]int, 0, len(tree))
	for _, b := range tree {
		tm[b.id] = b
		ids = append(ids, b.id)
	}
	sort.Ints(ids)
	for _, b := range tree {
		in.f.build(b, tm, 0)
	}
	for _, b := range tree {
		if x := in.f.byID[b.id]; x == nil || !x.ok {
			return "bad-op" // a block whose parent chain does not reach genesis cannot be built
		}
		if in.f.byID[b.id].badWork {
			return "bad-work" // the line's work field contradicts the real difficulty rule
		}
	}
	var out []string
	nDeliv := 0
	reused := map[int]*btcutil.Block{}
	// the caller's blocks must read the same after the history as before it
	before := map[int]chainhash.Hash{}
	for id, x := range in.f.byID {
		if x.block != nil {
			before[id] = x.block.MsgBlock().BlockHash()
		}
	}
	for _, o := range ops {
		var res string
		var hash *chainhash.Hash
		var x *built
		if o.kind != 'R' {
			if o.id == 0 {
				hash = in.f.params.GenesisHash
			} else {
				x = in.f.byID[o.id]
				hash = x.block.Hash()
			}
		}
		switch o.kind {
		case 'b', 'n', 'f':
			flags := blockchain.BFNone
			if o.kind == 'n' {
				flags = blockchain.BFNoPoWCheck
			} else if o.kind == 'f' {
				flags = blockchain.BFFastAdd
			}
			// inputs are values: every other delivery of a block re-uses ONE wrapper
			// object (and thereby whatever ProcessBlock cached in it), the others get a
			// fresh wrapper as a peer would hand it over
			var blkk *btcutil.Block
			nDeliv++
			switch {
			case x == nil:
				blkk = btcutil.NewBlock(in.f.params.GenesisBlock)
			case nDeliv%2 == 0:
				if reused[o.id] == nil {
					reused[o.id] = btcutil.NewBlock(x.block.MsgBlock())
				}
				blkk = reused[o.id]
			default:
				blkk = btcutil.NewBlock(x.block.MsgBlock())
			}
			isMain, isOrphan, err := in.chain.ProcessBlock(blkk, flags)
			switch {
			case err != nil:
				res = errClass(err)
			case isOrphan:
				res = "o"
			case isMain:
				res = "m"
			default:
				res = "s"
			}
		case 'h', 'k':
			var hdr *wire.BlockHeader
			if x == nil {
				g := in.f.params.GenesisBlock.Header
				hdr = &g
			} else if nDeliv%2 == 0 {
				hdr = &x.block.MsgBlock().Header // the caller's own header object, reused
			} else {
				c := x.block.MsgBlock().Header // a copy, as a peer would hand it over
				hdr = &c
			}
			nDeliv++
			isMain, err := in.chain.ProcessBlockHeader(hdr, blockchain.BFNone, o.kind == 'k')
			switch {
			case err != nil:
				res = errClass(err)
			case isMain:
				res = "m"
			default:
				res = "s"
			}
		case 'i':
			if err := in.chain.InvalidateBlock(hash); err != nil {
				res = "f"
			} else {
				res = "k"
			}
		case 'r':
			if err := in.chain.ReconsiderBlock(hash); err != nil {
				res = "f"
			} else {
				res = "k"
			}
		case 'R':
			if err := in.restart(o.id); err != nil {
				return "harness-error"
			}
			res = "k"
		}
		out = append(out, in.observe(res, ids))
		if yield {
			runtime.Gosched()
		}
	}
	if len(out) == 0 {
		return "-"
	}
	for id, x := range in.f.byID {
		if x.block != nil {
			var buf bytes.Buffer
			x.block.MsgBlock().Serialize(&buf)
			if x.block.MsgBlock().BlockHash() != before[id] || *btcutil.NewBlock(x.block.MsgBlock()).Hash() != before[id] {
				out[len(out)-1] += "!inmut"
				break
			}
		}
	}
	// results are values: every snapshot handed out earlier still reads as it did then
	for i, sp := range in.snaps {
		if renderSnap(sp) != in.snapStrs[i] {
			out[len(out)-1] += "!snapalias"
			break
		}
	}
	return strings.Join(out, ";")
}

// ---------------------------------------------------------------- generators

func fmtTree(tree []blk) string {
	if len(tree) == 0 {
		return "-"
	}
	parts := make([]string, len(tree))
	for i, b := range tree {
		fl := []byte("0000")
		for j, v := range []bool{b.sane, b.hdrOk, b.ctxOk, b.connOk} {
			if v {
				fl[j] = '1'
			}
		}
		parts[i] = fmt.Sprintf("%d:%d:%d:%s", b.id, b.parent, b.work, fl)
		if b.pace != 0 {
			parts[i] += ":" + string(b.pace)
		}
	}
	return strings.Join(parts, ",")
}

func fmtOps(ops []op) string {
	if len(ops) == 0 {
		return "-"
	}
	parts := make([]string, len(ops))
	for i, o := range ops {
		parts[i] = fmt.Sprintf("%c%d", o.kind, o.id)
	}
	return strings.Join(parts, ",")
}

func mkLine(tree []blk, ops []op) string {
	return "C02 run " + fmtTree(tree) + " " + fmtOps(ops)
}

func (P) Generate(g *core.Gen) {
	generate(g)
}

// ClassifyMismatch attributes a disagreement to a known finding iff the Lean
// model, replayed with the map-order choices read back from the
// implementation's own observations, reproduces those observations op by op
// and the first op at which the implementation's tip is not a most-work valid
// chain is an InvalidateBlock (F-C02-a), a ReconsiderBlock (F-C02-b) or the
// delivery of a block whose header-only node was manually invalidated (F-C02-e).
func (P) ClassifyMismatch(line, goOut, leanOut string) string {
	f := strings.Fields(line)
	if len(f) != 4 || f[1] != "run" || strings.ContainsAny(goOut, " \t") || goOut == "" {
		return ""
	}
	tree, ops, ok := parseLine(line)
	if !ok || !hasIR(ops) || len(tree) == 0 {
		return ""
	}
	out, err := core.RunLean("C02", []string{"C02 explain " + f[2] + " " + f[3] + " " + goOut})
	if err != nil || len(out) != 1 {
		return ""
	}
	switch {
	case strings.HasPrefix(out[0], "F-C02-a@"):
		return "F-C02-a"
	case strings.HasPrefix(out[0], "F-C02-b@"):
		return "F-C02-b"
	case strings.HasPrefix(out[0], "F-C02-e@"):
		return "F-C02-e"
	}
	return ""
}
