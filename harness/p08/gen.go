package p08

import (
	"bytes"
	"encoding/binary"
	"encoding/hex"
	"fmt"
	"net"
	"time"

	"github.com/btcsuite/btcd/chainhash/v2"
	"github.com/btcsuite/btcd/wire/v2"
	"verifharness/core"
)

// protocol versions at which some layout or admissibility changes, each with its neighbours
var pvers = []uint32{0, 208, 209, 31401, 31402, 60000, 60001, 60002, 70000, 70001, 70002, 70010, 70011, 70012, 70013, 70015, 70016, 70017}

type gen struct {
	g *core.Gen
	r *core.Rand
}

// Trace, when set, sees every generated case (profiling aid).
var Trace func(class, line string)

// safely runs one generator section; if the real code it calls while generating panics (on a changed tree), the
// section is cut short and a line is emitted on which implementation and model must disagree.
func (x *gen) safely(name string, f func()) {
	defer func() {
		if r := recover(); r != nil {
			x.g.Case("generator-crash", true, "C08 gencrash "+name)
		}
	}()
	f()
}

func (x *gen) emit(class string, nontrivial bool, line string) {
	if Trace != nil {
		Trace(class, line)
	}
	x.g.Case(class, nontrivial, line)
}

func (x *gen) hash() chainhash.Hash {
	var h chainhash.Hash
	switch x.r.Intn(8) {
	case 0: // zero
	case 1:
		for i := range h {
			h[i] = 0xff
		}
	default:
		copy(h[:], x.r.Bytes(32))
	}
	return h
}

func (x *gen) hashes(n int) []*chainhash.Hash {
	out := make([]*chainhash.Hash, n)
	for i := range out {
		h := x.hash()
		out[i] = &h
	}
	return out
}

func (x *gen) u32() uint32 {
	switch x.r.Intn(6) {
	case 0:
		return 0
	case 1:
		return 0xffffffff
	case 2:
		return 0x80000000
	case 3:
		return uint32(x.r.Intn(256))
	}
	return x.r.U32()
}

func (x *gen) u64() uint64 {
	switch x.r.Intn(6) {
	case 0:
		return 0
	case 1:
		return ^uint64(0)
	case 2:
		return 1 << 63
	case 3:
		return uint64(x.r.Intn(70000))
	}
	return x.r.U64()
}

// blen picks a byte-string length around the varint boundaries.
func (x *gen) blen(max int) int {
	c := []int{0, 0, 1, 2, 25, 75, 0xfc, 0xfd, 0xfe, 0x100, 520}
	n := c[x.r.Intn(len(c))]
	if x.r.Chance(1, 40) {
		n = []int{0xffff, 0x10000, 0x10001}[x.r.Intn(3)]
	}
	if n > max {
		n = max
	}
	return n
}

func (x *gen) count(max int) int {
	c := []int{0, 1, 1, 2, 3, 5}
	n := c[x.r.Intn(len(c))]
	if x.r.Chance(1, 12) {
		n = []int{0xfc, 0xfd, 0xfe}[x.r.Intn(3)]
	}
	if n > max {
		n = max
	}
	return n
}

func (x *gen) header() wire.BlockHeader {
	return wire.BlockHeader{Version: int32(x.u32()), PrevBlock: x.hash(), MerkleRoot: x.hash(),
		Timestamp: time.Unix(int64(x.u32()), 0), Bits: x.u32(), Nonce: x.u32()}
}

func (x *gen) tx(nIn, nOut int, wit bool) *wire.MsgTx {
	t := &wire.MsgTx{Version: int32(x.u32()), LockTime: x.u32()}
	for i := 0; i < nIn; i++ {
		in := &wire.TxIn{PreviousOutPoint: wire.OutPoint{Hash: x.hash(), Index: x.u32()},
			SignatureScript: x.r.Bytes(x.blen(20000)), Sequence: x.u32()}
		if wit && x.r.Chance(2, 3) {
			k := x.count(300)
			for j := 0; j < k; j++ {
				in.Witness = append(in.Witness, x.r.Bytes(x.blen(20000)))
			}
		}
		t.TxIn = append(t.TxIn, in)
	}
	for i := 0; i < nOut; i++ {
		t.TxOut = append(t.TxOut, &wire.TxOut{Value: int64(x.u64()), PkScript: x.r.Bytes(x.blen(20000))})
	}
	return t
}

func (x *gen) netaddr() *wire.NetAddress {
	ip := net.IP(x.r.Bytes(16))
	switch x.r.Intn(5) {
	case 0:
		ip = net.IPv4(byte(x.r.Intn(256)), 2, 3, 4)
	case 1:
		ip = nil
	case 2:
		ip = net.IP(x.r.Bytes(4)) // 4-byte form; To16 maps it
	}
	return &wire.NetAddress{Timestamp: time.Unix(int64(x.u32()), 0), Services: wire.ServiceFlag(x.u64()), IP: ip, Port: uint16(x.u32())}
}

func (x *gen) invs(n int) []*wire.InvVect {
	out := make([]*wire.InvVect, n)
	for i := range out {
		ty := wire.InvType(x.u32())
		if x.r.Bool() {
			ty = []wire.InvType{wire.InvTypeTx, wire.InvTypeBlock, wire.InvTypeWitnessTx, wire.InvTypeWitnessBlock, wire.InvTypeFilteredBlock}[x.r.Intn(5)]
		}
		out[i] = &wire.InvVect{Type: ty, Hash: x.hash()}
	}
	return out
}

// addrV2Entry builds one raw BIP155 entry.
func (x *gen) addrV2Entry() []byte {
	var b bytes.Buffer
	binary.Write(&b, binary.LittleEndian, x.u32())
	wire.WriteVarInt(&b, 0, x.u64())
	ids := []byte{1, 2, 3, 4, 5, 6, 0, 7, 200}
	id := ids[x.r.Intn(len(ids))]
	if x.r.Chance(2, 3) {
		id = ids[x.r.Intn(4)]
	}
	want := map[byte]int{1: 4, 2: 16, 3: 10, 4: 32, 5: 32, 6: 16}
	n, known := want[id]
	if !known {
		n = []int{0, 1, 16, 511, 512, 513}[x.r.Intn(6)]
	} else if x.r.Chance(1, 10) {
		n += []int{-1, 1}[x.r.Intn(2)]
	} else if x.r.Chance(1, 8) {
		n = []int{4, 10, 16, 32}[x.r.Intn(4)] // another network's size
	}
	b.WriteByte(id)
	wire.WriteVarInt(&b, 0, uint64(n))
	a := x.r.Bytes(n)
	if id == 2 && n == 16 {
		switch x.r.Intn(6) {
		case 0:
			copy(a, []byte{0xfd, 0x87, 0xd8, 0x7e, 0xeb, 0x43})
		case 1:
			copy(a, []byte{0, 0, 0, 0, 0, 0, 0, 0, 0, 0, 0xff, 0xff})
		case 2:
			copy(a, []byte{0xfd, 0x87, 0xd8, 0x7e, 0xeb, 0x42})
		}
	}
	b.Write(a)
	binary.Write(&b, binary.BigEndian, uint16(x.u32()))
	return b.Bytes()
}

type built struct {
	kind     string
	msg      wire.Message // nil when raw is given
	raw      []byte
	countOff int  // offset of the element count varint in the payload, -1 if none
	invalid  bool // deliberately outside the domain (the encoder is expected to refuse it)
}

// build returns one random structured message of the kind.
func (x *gen) build(kind string) built {
	r := x.r
	switch kind {
	case "tx":
		nIn, nOut := x.count(300), x.count(300)
		if r.Chance(5, 6) && nIn == 0 {
			nIn = 1
		}
		return built{kind: kind, msg: x.tx(nIn, nOut, r.Bool()), countOff: 4}
	case "block":
		b := &wire.MsgBlock{Header: x.header()}
		n := x.count(260)
		for i := 0; i < n; i++ {
			b.Transactions = append(b.Transactions, x.tx(1+r.Intn(2), r.Intn(3), r.Chance(1, 3)))
		}
		return built{kind: kind, msg: b, countOff: 80}
	case "inv", "getdata", "notfound":
		l := x.invs(x.count(wire.MaxInvPerMsg))
		switch kind {
		case "inv":
			return built{kind: kind, msg: &wire.MsgInv{InvList: l}, countOff: 0}
		case "getdata":
			return built{kind: kind, msg: &wire.MsgGetData{InvList: l}, countOff: 0}
		}
		return built{kind: kind, msg: &wire.MsgNotFound{InvList: l}, countOff: 0}
	case "headers":
		m := &wire.MsgHeaders{}
		n := x.count(wire.MaxBlockHeadersPerMsg)
		for i := 0; i < n; i++ {
			h := x.header()
			m.Headers = append(m.Headers, &h)
		}
		return built{kind: kind, msg: m, countOff: 0}
	case "getblocks":
		return built{kind: kind, msg: &wire.MsgGetBlocks{ProtocolVersion: x.u32(), BlockLocatorHashes: x.hashes(x.count(500)), HashStop: x.hash()}, countOff: 4}
	case "getheaders":
		return built{kind: kind, msg: &wire.MsgGetHeaders{ProtocolVersion: x.u32(), BlockLocatorHashes: x.hashes(x.count(500)), HashStop: x.hash()}, countOff: 4}
	case "addr":
		m := &wire.MsgAddr{}
		n := x.count(wire.MaxAddrPerMsg)
		for i := 0; i < n; i++ {
			m.AddrList = append(m.AddrList, x.netaddr())
		}
		return built{kind: kind, msg: m, countOff: 0}
	case "addrv2":
		var b bytes.Buffer
		n := x.count(wire.MaxV2AddrPerMsg)
		wire.WriteVarInt(&b, 0, uint64(n))
		for i := 0; i < n; i++ {
			b.Write(x.addrV2Entry())
		}
		return built{kind: kind, raw: b.Bytes(), countOff: 0}
	case "version":
		m := &wire.MsgVersion{ProtocolVersion: int32(x.u32()), Services: wire.ServiceFlag(x.u64()),
			Timestamp: time.Unix(int64(x.u64()), 0), AddrYou: *x.netaddr(), AddrMe: *x.netaddr(), Nonce: x.u64(),
			UserAgent: string(r.Bytes([]int{0, 1, 15, 0xfc, 0xfd, 255, 256}[r.Intn(7)])), LastBlock: int32(x.u32()),
			DisableRelayTx: r.Bool()}
		return built{kind: kind, msg: m, countOff: -1}
	case "ping":
		return built{kind: kind, msg: &wire.MsgPing{Nonce: x.u64()}, countOff: -1}
	case "pong":
		return built{kind: kind, msg: &wire.MsgPong{Nonce: x.u64()}, countOff: -1}
	case "reject":
		cmd := []string{"block", "tx", "version", "", "blockx", "Tx", string(r.Bytes(r.Intn(20)))}[r.Intn(7)]
		if r.Chance(1, 2) {
			cl := commandList()
			cmd = cl[r.Intn(len(cl))]
		}
		return built{kind: kind, msg: &wire.MsgReject{Cmd: cmd, Code: wire.RejectCode(r.Intn(256)), Reason: string(r.Bytes(x.blen(1000))), Hash: x.hash()}, countOff: 0}
	case "feefilter":
		return built{kind: kind, msg: &wire.MsgFeeFilter{MinFee: int64(x.u64())}, countOff: -1}
	case "filterload":
		hf := uint32(r.Intn(51))
		if r.Chance(1, 6) {
			hf = []uint32{50, 51, 0xffffffff}[r.Intn(3)]
		}
		n := x.blen(wire.MaxFilterLoadFilterSize)
		if r.Chance(1, 10) {
			n = wire.MaxFilterLoadFilterSize - r.Intn(2)
		}
		return built{kind: kind, msg: &wire.MsgFilterLoad{Filter: r.Bytes(n), HashFuncs: hf, Tweak: x.u32(), Flags: wire.BloomUpdateType(r.Intn(256))}, countOff: 0, invalid: hf > wire.MaxFilterLoadHashFuncs}
	case "filteradd":
		n := x.blen(wire.MaxFilterAddDataSize)
		if r.Chance(1, 4) {
			n = wire.MaxFilterAddDataSize - r.Intn(2)
		}
		return built{kind: kind, msg: &wire.MsgFilterAdd{Data: r.Bytes(n)}, countOff: 0}
	case "merkleblock":
		return built{kind: kind, msg: &wire.MsgMerkleBlock{Header: x.header(), Transactions: x.u32(), Hashes: x.hashes(x.count(1000)), Flags: r.Bytes(x.blen(2000))}, countOff: 84}
	case "cfilter":
		return built{kind: kind, msg: &wire.MsgCFilter{FilterType: wire.FilterType(r.Intn(256)), BlockHash: x.hash(), Data: r.Bytes(x.blen(wire.MaxCFilterDataSize))}, countOff: 33}
	case "cfheaders":
		return built{kind: kind, msg: &wire.MsgCFHeaders{FilterType: wire.FilterType(r.Intn(256)), StopHash: x.hash(), PrevFilterHeader: x.hash(), FilterHashes: x.hashes(x.count(2000))}, countOff: 65}
	case "cfcheckpt":
		return built{kind: kind, msg: &wire.MsgCFCheckpt{FilterType: wire.FilterType(r.Intn(256)), StopHash: x.hash(), FilterHeaders: x.hashes(x.count(2000))}, countOff: 33}
	case "getcfilters":
		return built{kind: kind, msg: &wire.MsgGetCFilters{FilterType: wire.FilterType(r.Intn(256)), StartHeight: x.u32(), StopHash: x.hash()}, countOff: -1}
	case "getcfheaders":
		return built{kind: kind, msg: &wire.MsgGetCFHeaders{FilterType: wire.FilterType(r.Intn(256)), StartHeight: x.u32(), StopHash: x.hash()}, countOff: -1}
	case "getcfcheckpt":
		return built{kind: kind, msg: &wire.MsgGetCFCheckpt{FilterType: wire.FilterType(r.Intn(256)), StopHash: x.hash()}, countOff: -1}
	case "verack":
		return built{kind: kind, msg: &wire.MsgVerAck{}, countOff: -1}
	case "getaddr":
		return built{kind: kind, msg: &wire.MsgGetAddr{}, countOff: -1}
	case "mempool":
		return built{kind: kind, msg: &wire.MsgMemPool{}, countOff: -1}
	case "filterclear":
		return built{kind: kind, msg: &wire.MsgFilterClear{}, countOff: -1}
	case "sendheaders":
		return built{kind: kind, msg: &wire.MsgSendHeaders{}, countOff: -1}
	case "sendaddrv2":
		return built{kind: kind, msg: &wire.MsgSendAddrV2{}, countOff: -1}
	case "wtxidrelay":
		return built{kind: kind, msg: &wire.MsgWTxIdRelay{}, countOff: -1}
	}
	panic("build: " + kind)
}

var kinds = []string{"tx", "block", "inv", "getdata", "notfound", "headers", "getblocks", "getheaders", "addr", "addrv2",
	"version", "ping", "pong", "reject", "feefilter", "filterload", "filteradd", "merkleblock", "cfilter", "cfheaders",
	"cfcheckpt", "getcfilters", "getcfheaders", "getcfcheckpt", "verack", "getaddr", "mempool", "filterclear",
	"sendheaders", "sendaddrv2", "wtxidrelay"}

// gatePvers: the versions worth trying for a kind (its own gates ±1 plus the extremes)
func gatePvers(kind string) []uint32 {
	switch kind {
	case "addr":
		return []uint32{0, 208, 209, 31401, 31402, 70016}
	case "version":
		return []uint32{0, 31401, 31402, 70000, 70001, 70016}
	case "ping", "pong":
		return []uint32{0, 60000, 60001, 70016}
	case "reject":
		return []uint32{70001, 70002, 70016}
	case "feefilter":
		return []uint32{70012, 70013, 70016}
	case "filterload", "filteradd", "filterclear", "merkleblock":
		return []uint32{70000, 70001, 70016}
	case "mempool":
		return []uint32{60001, 60002, 70016}
	case "sendheaders":
		return []uint32{70011, 70012, 70016}
	case "sendaddrv2", "wtxidrelay":
		return []uint32{70015, 70016, 70017}
	}
	return []uint32{0, 70016}
}

func encs(kind string) []string {
	if kind == "tx" || kind == "block" {
		return []string{"w", "b"}
	}
	return []string{"b"}
}

func wenc(s string) wire.MessageEncoding {
	if s == "w" {
		return wire.WitnessEncoding
	}
	return wire.BaseEncoding
}

func (x *gen) payload(b built, pver uint32, enc string) ([]byte, bool) {
	if b.msg == nil {
		return b.raw, true
	}
	var w bytes.Buffer
	if err := b.msg.BtcEncode(&w, pver, wenc(enc)); err != nil {
		return nil, false
	}
	return w.Bytes(), true
}

func (x *gen) dec(class, kind string, pver uint32, enc string, p []byte, nontrivial bool) {
	x.emit(class, nontrivial, fmt.Sprintf("C08 dec %s %d %s %s", kind, pver, enc, hx(p)))
}

func varintBytes(v uint64, form int) []byte {
	switch form {
	case 1:
		return []byte{byte(v)}
	case 3:
		return []byte{0xfd, byte(v), byte(v >> 8)}
	case 5:
		return []byte{0xfe, byte(v), byte(v >> 8), byte(v >> 16), byte(v >> 24)}
	}
	b := make([]byte, 9)
	b[0] = 0xff
	binary.LittleEndian.PutUint64(b[1:], v)
	return b
}

// countLimit returns the decoder's count cap at the kind's count offset (0 = not a count)
func countLimit(kind string) uint64 {
	c := wire.VerifConstsC08()
	switch kind {
	case "tx":
		return uint64(c["maxTxInPerMessage"])
	case "block":
		return uint64(c["maxTxPerBlock"])
	case "inv", "getdata", "notfound":
		return wire.MaxInvPerMsg
	case "headers":
		return wire.MaxBlockHeadersPerMsg
	case "getblocks", "getheaders":
		return wire.MaxBlockLocatorsPerMsg
	case "addr":
		return wire.MaxAddrPerMsg
	case "addrv2":
		return wire.MaxV2AddrPerMsg
	case "merkleblock":
		return uint64(c["maxTxPerBlock"])
	case "cfheaders":
		return wire.MaxCFHeadersPerMsg
	case "cfcheckpt":
		return uint64(c["maxCFHeadersLen"])
	case "cfilter":
		return wire.MaxCFilterDataSize
	case "filterload":
		return wire.MaxFilterLoadFilterSize
	case "filteradd":
		return wire.MaxFilterAddDataSize
	case "reject":
		return wire.MaxMessagePayload
	}
	return 0
}

// heavyCap: kinds whose count cap makes the decoder allocate tens of MB up front; the cap itself is
// exercised once in hostile(), not for every payload.
func heavyCap(kind string) bool {
	switch kind {
	case "tx", "block", "merkleblock", "cfcheckpt", "reject":
		return true
	}
	return false
}

// malformed derives hostile variants of a valid payload.
func (x *gen) malformed(b built, pver uint32, enc string, p []byte) {
	r := x.r
	kind := b.kind
	small := len(p) <= 3000
	// truncation: every offset for short payloads, a sample otherwise
	if len(p) <= 120 {
		for i := 0; i < len(p); i++ {
			x.dec("trunc", kind, pver, enc, p[:i], true)
		}
	} else {
		n := 3
		if small {
			n = 12
		}
		for k := 0; k < n; k++ {
			x.dec("trunc", kind, pver, enc, p[:r.Intn(len(p))], true)
		}
		x.dec("trunc", kind, pver, enc, p[:len(p)-1], true)
	}
	// extension
	x.dec("extend", kind, pver, enc, append(append([]byte{}, p...), r.Bytes(1+r.Intn(3))...), true)
	// flips
	if len(p) > 0 {
		n := 2
		if small {
			n = 6
		}
		for k := 0; k < n; k++ {
			q := append([]byte{}, p...)
			i := r.Intn(len(q))
			if k < n/2 && len(q) > 100 {
				i = r.Intn(100) // the structure-bearing front
			}
			q[i] ^= byte(1 << r.Intn(8))
			x.dec("flip", kind, pver, enc, q, true)
		}
	}
	// BIP144: any flag byte other than 01 after the 00 marker must be refused
	if kind == "tx" && enc == "w" && len(p) > 6 && p[4] == 0 && p[5] == 1 {
		for _, fl := range []byte{0, 2, 3, 0x81, 0xff} {
			q := append([]byte{}, p...)
			q[5] = fl
			x.dec("bip144-flag", kind, pver, enc, q, true)
		}
	}
	// count / length lies and non-minimal varints at the count offset
	if b.countOff >= 0 && b.countOff < len(p) {
		rd := bytes.NewReader(p[b.countOff:])
		c, err := wire.ReadVarInt(rd, 0)
		if err == nil {
			used := len(p[b.countOff:]) - rd.Len()
			pre, post := p[:b.countOff], p[b.countOff+used:]
			if !small && len(post) > 3000 {
				post = post[:3000] // the decoder fails or stops long before
			}
			put := func(class string, vb []byte) {
				q := append(append(append([]byte{}, pre...), vb...), post...)
				x.dec(class, kind, pver, enc, q, true)
			}
			for _, form := range []int{3, 5, 9} {
				if form > used {
					if form == 3 && c > 0xffff || form == 5 && c > 0xffffffff {
						continue
					}
					put("noncanon-varint", varintBytes(c, form))
				}
			}
			lim := countLimit(kind)
			vals := []uint64{c + 1, lim + 1, 0xffffffff, 0x100000000, ^uint64(0)}
			if !heavyCap(kind) {
				vals = append(vals, 0xffff, 0x10000)
				if lim*44 < 100000 || r.Chance(1, 6) {
					vals = append(vals, lim-1, lim)
				}
			}
			for _, v := range vals {
				if heavyCap(kind) && v != c+1 && v <= lim {
					continue
				}
				var w bytes.Buffer
				wire.WriteVarInt(&w, 0, v)
				put("count-lie", w.Bytes())
			}
			if c > 0 {
				var w bytes.Buffer
				wire.WriteVarInt(&w, 0, c-1)
				put("count-lie", w.Bytes())
			}
		}
	}
}

func frameMsg(net uint32, cmd []byte, length uint32, ck []byte, payload []byte) []byte {
	var b bytes.Buffer
	binary.Write(&b, binary.LittleEndian, net)
	var c [12]byte
	copy(c[:], cmd)
	b.Write(c[:])
	binary.Write(&b, binary.LittleEndian, length)
	b.Write(ck)
	b.Write(payload)
	return b.Bytes()
}

func (x *gen) msgCase(class string, pver uint32, net uint32, enc string, stream []byte) {
	x.emit(class, true, fmt.Sprintf("C08 msg %d %d %s %s", pver, net, enc, hx(stream)))
}

func (x *gen) messageLevel(b built, pver uint32, enc string, p []byte) {
	r := x.r
	nets := []uint32{uint32(wire.MainNet), uint32(wire.TestNet3), uint32(wire.SimNet), 0, 0xffffffff}
	net := nets[r.Intn(3)]
	ck := chainhash.DoubleHashB(p)[:4]
	good := frameMsg(net, []byte(b.kind), uint32(len(p)), ck, p)
	x.msgCase("msg-valid", pver, net, enc, good)
	if r.Chance(1, 3) {
		st := good
		switch r.Intn(5) {
		case 0:
			st = append(append([]byte{}, good...), r.Bytes(1+r.Intn(20))...)
		case 1:
			st = good[:r.Intn(len(good)+1)]
		case 2:
			st = append([]byte{}, good...)
			st[r.Intn(len(st))] ^= byte(1 << r.Intn(8))
		case 3:
			cmds := [][]byte{append([]byte{0}, []byte(b.kind)...), append([]byte(b.kind), 0, 'x'), []byte(b.kind + " "), {0xff, 0xfe}}
			st = frameMsg(net, cmds[r.Intn(len(cmds))], uint32(len(p)), ck, p)
		}
		x.emit("api-agree", true, fmt.Sprintf("C08 api %d %d %s", pver, net, hx(st)))
	}
	x.v2Level(b, pver, enc, p)
	if r.Chance(1, 3) {
		x.msgCase("msg-valid+rest", pver, net, enc, append(append([]byte{}, good...), r.Bytes(1+r.Intn(30))...))
	}
	switch r.Intn(12) {
	case 0:
		x.msgCase("msg-badmagic", pver, nets[r.Intn(len(nets))], enc, good)
	case 1:
		bad := append([]byte{}, ck...)
		bad[r.Intn(4)] ^= byte(1 << r.Intn(8))
		x.msgCase("msg-badchecksum", pver, net, enc, frameMsg(net, []byte(b.kind), uint32(len(p)), bad, p))
	case 2:
		cmds := [][]byte{[]byte("bogus"), []byte(b.kind + "x"), append([]byte(b.kind), 0, 'x'), {0xff, 0xfe}, []byte("VERSION"), {}, []byte("abcdefghijkl"), append([]byte{0}, []byte(b.kind)...)}
		x.msgCase("msg-badcommand", pver, net, enc, frameMsg(net, cmds[r.Intn(len(cmds))], uint32(len(p)), ck, p))
	case 3:
		ls := []uint32{uint32(len(p)) + 1, uint32(len(p)) - 1, 4000000, 4000001, 0xffffffff, 33554432, 33554433}
		if len(p) > 2000 {
			ls = []uint32{uint32(len(p)) + 1, uint32(len(p)) - 1, ls[2+r.Intn(5)]}
		}
		for _, l := range ls {
			x.msgCase("msg-lenlie", pver, net, enc, frameMsg(net, []byte(b.kind), l, ck, p))
		}
	case 4:
		q := append(append([]byte{}, p...), r.Bytes(1+r.Intn(9))...)
		x.msgCase("msg-trailing", pver, net, enc, frameMsg(net, []byte(b.kind), uint32(len(q)), chainhash.DoubleHashB(q)[:4], q))
	case 5:
		for i := 0; i <= 24 && i < len(good); i++ {
			x.msgCase("msg-trunc", pver, net, enc, good[:i])
		}
		if len(good) > 25 {
			x.msgCase("msg-trunc", pver, net, enc, good[:24+r.Intn(len(good)-24)])
		}
	case 6:
		if len(p) > 0 {
			q := p[:r.Intn(len(p))]
			x.msgCase("msg-shortpayload", pver, net, enc, frameMsg(net, []byte(b.kind), uint32(len(q)), chainhash.DoubleHashB(q)[:4], q))
		}
	case 7:
		// another kind's payload under this command
		other := x.build(kinds[r.Intn(len(kinds))])
		if q, ok := x.payload(other, pver, enc); ok {
			x.msgCase("msg-crosskind", pver, net, enc, frameMsg(net, []byte(b.kind), uint32(len(q)), chainhash.DoubleHashB(q)[:4], q))
		}
	}
}

// hostile: inputs made only of claims (counts and lengths at and over every cap, nothing behind them).
func (x *gen) hostile() {
	c := wire.VerifConstsC08()
	vi := func(v uint64) []byte {
		var w bytes.Buffer
		wire.WriteVarInt(&w, 0, v)
		return w.Bytes()
	}
	cat := func(bs ...[]byte) []byte { return bytes.Join(bs, nil) }
	z := func(n int) []byte { return make([]byte, n) }
	ds := []int64{0, 1}
	if x.g.Thorough() {
		ds = []int64{-1, 0, 1}
	}
	for _, d := range ds {
		nin := uint64(c["maxTxInPerMessage"] + d)
		nout := uint64(c["maxTxOutPerMessage"] + d)
		nwit := uint64(c["maxWitnessItemsPerInput"] + d)
		nsz := uint64(c["maxWitnessItemSize"] + d)
		ntx := uint64(c["maxTxPerBlock"] + d)
		in1 := cat(z(36), []byte{0}, z(4)) // one empty input
		es := []string{"w", "b"}
		if d <= 0 && !x.g.Thorough() {
			es = []string{"w"} // each of these makes the real decoder allocate 30..150 MB
		}
		for _, e := range es {
			x.dec("hostile-tx", "tx", 70016, e, cat(z(4), vi(nin)), true)
			x.dec("hostile-tx", "tx", 70016, e, cat(z(4), vi(1), in1, vi(nout)), true)
			x.dec("hostile-tx", "tx", 70016, e, cat(z(4), vi(1), z(36), vi(nsz), z(10)), true)
			x.dec("hostile-tx", "tx", 70016, e, cat(z(4), []byte{0, 1}, vi(1), in1, vi(0), vi(nwit)), true)
			x.dec("hostile-tx", "tx", 70016, e, cat(z(4), []byte{0, 1}, vi(1), in1, vi(0), vi(1), vi(nsz)), true)
			x.dec("hostile-block", "block", 70016, e, cat(z(80), vi(ntx)), true)
			if d > 0 || x.g.Thorough() {
				x.dec("hostile-tx", "tx", 70016, e, cat(z(4), []byte{0, 1}, vi(nin)), true)
				x.dec("hostile-block", "block", 70016, e, cat(z(80), vi(2), z(4), vi(nin)), true)
			}
		}
		x.dec("hostile-list", "inv", 70016, "b", vi(uint64(wire.MaxInvPerMsg+d)), true)
		x.dec("hostile-list", "headers", 70016, "b", vi(uint64(wire.MaxBlockHeadersPerMsg+d)), true)
		x.dec("hostile-list", "addr", 70016, "b", vi(uint64(wire.MaxAddrPerMsg+d)), true)
		x.dec("hostile-list", "addrv2", 70016, "b", vi(uint64(wire.MaxV2AddrPerMsg+d)), true)
		x.dec("hostile-list", "getblocks", 70016, "b", cat(z(4), vi(uint64(wire.MaxBlockLocatorsPerMsg+d))), true)
		x.dec("hostile-list", "merkleblock", 70016, "b", cat(z(84), vi(ntx)), true)
		x.dec("hostile-list", "merkleblock", 70016, "b", cat(z(84), vi(0), vi(uint64(c["maxFlagsPerMerkleBlock"]+d))), true)
		x.dec("hostile-list", "cfheaders", 70016, "b", cat(z(65), vi(uint64(wire.MaxCFHeadersPerMsg+d))), true)
		x.dec("hostile-list", "cfcheckpt", 70016, "b", cat(z(33), vi(uint64(c["maxCFHeadersLen"]+d))), true)
		x.dec("hostile-list", "cfilter", 70016, "b", cat(z(33), vi(uint64(wire.MaxCFilterDataSize+d))), true)
		x.dec("hostile-list", "filterload", 70016, "b", vi(uint64(wire.MaxFilterLoadFilterSize+d)), true)
		x.dec("hostile-list", "filteradd", 70016, "b", vi(uint64(wire.MaxFilterAddDataSize+d)), true)
		x.dec("hostile-list", "reject", 70016, "b", vi(uint64(wire.MaxMessagePayload+d)), true)
		x.dec("hostile-list", "version", 70016, "b", cat(z(80), vi(uint64(wire.MaxMessagePayload+d))), true)
		x.dec("hostile-list", "version", 70016, "b", cat(z(80), vi(uint64(wire.MaxUserAgentLen+d)), z(int(wire.MaxUserAgentLen+d)), z(5)), true)
		x.dec("hostile-list", "addrv2", 70016, "b", cat(vi(1), z(4), vi(0), []byte{9}, vi(uint64(c["maxAddrV2Size"]+d))), true)
	}
	// the same claims through the message reader, with a correct checksum
	for _, pl := range [][2]any{{"tx", cat(z(4), vi(uint64(c["maxTxInPerMessage"])))}, {"inv", vi(wire.MaxInvPerMsg)},
		{"block", cat(z(80), vi(uint64(c["maxTxPerBlock"])))}, {"cfcheckpt", cat(z(33), vi(uint64(c["maxCFHeadersLen"])))}} {
		if pl[0].(string) == "tx" && !x.g.Thorough() {
			continue
		}
		p := pl[1].([]byte)
		x.msgCase("hostile-msg", 70016, uint32(wire.MainNet), "w", frameMsg(uint32(wire.MainNet), []byte(pl[0].(string)), uint32(len(p)), chainhash.DoubleHashB(p)[:4], p))
	}
}

// boundary: full-size lists at the varint boundaries and at the per-message caps.
func (x *gen) boundary() {
	big := x.g.Thorough()
	emit := func(b built, pver uint32) {
		for _, e := range encs(b.kind) {
			if p, ok := x.payload(b, pver, e); ok {
				x.dec("boundary", b.kind, pver, e, p, true)
			}
		}
	}
	for _, n := range []int{0xfc, 0xfd, 0xfe} {
		emit(built{kind: "inv", msg: &wire.MsgInv{InvList: x.invs(n)}}, 70016)
		emit(built{kind: "getblocks", msg: &wire.MsgGetBlocks{BlockLocatorHashes: x.hashes(n)}}, 70016)
		t := &wire.MsgTx{Version: 2}
		for i := 0; i < n; i++ {
			t.TxIn = append(t.TxIn, &wire.TxIn{PreviousOutPoint: wire.OutPoint{Hash: x.hash(), Index: x.u32()}, SignatureScript: x.r.Bytes(x.r.Intn(3)), Sequence: x.u32(), Witness: [][]byte{x.r.Bytes(x.r.Intn(3))}})
			t.TxOut = append(t.TxOut, &wire.TxOut{Value: int64(x.u64()), PkScript: x.r.Bytes(x.r.Intn(3))})
		}
		emit(built{kind: "tx", msg: t}, 70016)
		m := &wire.MsgAddr{}
		for i := 0; i < n; i++ {
			m.AddrList = append(m.AddrList, x.netaddr())
		}
		emit(built{kind: "addr", msg: m}, 70016)
		emit(built{kind: "addr", msg: m}, 31401)
	}
	// per-message maxima with all data present (encoder accepts max, rejects max+1)
	caps := []struct {
		kind string
		n    int
	}{{"getblocks", 500}, {"getheaders", 500}, {"addr", 1000}, {"headers", 2000}, {"cfheaders", 2000}}
	caps = append(caps, struct {
		kind string
		n    int
	}{"inv", 50000})
	for _, c := range caps {
		for _, d := range []int{-1, 0, 1} {
			if d == -1 && c.kind == "inv" {
				continue
			}
			n := c.n + d
			var b built
			switch c.kind {
			case "getblocks":
				b = built{kind: c.kind, msg: &wire.MsgGetBlocks{BlockLocatorHashes: x.hashes(n)}}
			case "getheaders":
				b = built{kind: c.kind, msg: &wire.MsgGetHeaders{BlockLocatorHashes: x.hashes(n)}}
			case "addr":
				m := &wire.MsgAddr{}
				for i := 0; i < n; i++ {
					m.AddrList = append(m.AddrList, x.netaddr())
				}
				b = built{kind: c.kind, msg: m}
			case "headers":
				m := &wire.MsgHeaders{}
				for i := 0; i < n; i++ {
					h := x.header()
					m.Headers = append(m.Headers, &h)
				}
				b = built{kind: c.kind, msg: m}
			case "cfheaders":
				b = built{kind: c.kind, msg: &wire.MsgCFHeaders{FilterHashes: x.hashes(n)}}
			case "inv":
				b = built{kind: c.kind, msg: &wire.MsgInv{InvList: x.invs(n)}}
			}
			if d <= 0 {
				emit(b, 70016)
				continue
			}
			// max+1: the encoder refuses; hand-make the bytes from the max encoding
			if c.kind == "inv" || c.kind == "headers" || c.kind == "addr" {
				continue
			}
		}
	}
	// user agent at MaxUserAgentLen and one above (hand-made bytes for the one above)
	for _, n := range []int{wire.MaxUserAgentLen - 1, wire.MaxUserAgentLen, wire.MaxUserAgentLen + 1} {
		m := &wire.MsgVersion{UserAgent: string(x.r.Bytes(wire.MaxUserAgentLen - 1)), AddrYou: *x.netaddr(), AddrMe: *x.netaddr()}
		var w bytes.Buffer
		m.BtcEncode(&w, 70016, wire.BaseEncoding)
		p := w.Bytes()
		// splice a user agent of n bytes: offset 80 = 4+8+8+26+26+8
		q := append([]byte{}, p[:80]...)
		var vb bytes.Buffer
		wire.WriteVarInt(&vb, 0, uint64(n))
		q = append(q, vb.Bytes()...)
		q = append(q, x.r.Bytes(n)...)
		q = append(q, p[len(p)-5:]...)
		x.dec("boundary", "version", 70016, "b", q, true)
	}
	// merkleblock flags, filterload, filteradd, cfilter at their byte caps and one above
	for _, d := range []int{0, 1} {
		capBytes := func(kind string, pre []byte, n int, post []byte) {
			var vb bytes.Buffer
			wire.WriteVarInt(&vb, 0, uint64(n))
			q := append(append(append(append([]byte{}, pre...), vb.Bytes()...), x.r.Bytes(n)...), post...)
			x.dec("boundary", kind, 70016, "b", q, true)
		}
		capBytes("merkleblock", append(make([]byte, 84), 0), int(wire.VerifConstsC08()["maxFlagsPerMerkleBlock"])+d, nil)
		capBytes("filterload", nil, wire.MaxFilterLoadFilterSize+d, []byte{50, 0, 0, 0, 1, 2, 3, 4, 1})
		capBytes("filteradd", nil, wire.MaxFilterAddDataSize+d, nil)
		capBytes("cfilter", make([]byte, 33), wire.MaxCFilterDataSize+d, nil)
		// hash funcs 50 / 51
		capBytes("filterload", nil, 3, []byte{byte(50 + d), 0, 0, 0, 1, 2, 3, 4, 1})
	}
	// list caps + 1 with all data present (the encoder refuses these, so the bytes are hand-made)
	for _, c := range []struct {
		kind string
		pre  int
		n    int
		esz  int
		post int
	}{{"getblocks", 4, 501, 32, 32}, {"getheaders", 4, 501, 32, 32}, {"headers", 0, 2001, 81, 0}, {"cfheaders", 65, 2001, 32, 0},
		{"addr", 0, 1001, 30, 0}, {"inv", 0, 50001, 36, 0}} {
		if c.kind == "inv" && !big {
			continue
		}
		var vb bytes.Buffer
		wire.WriteVarInt(&vb, 0, uint64(c.n))
		q := append(make([]byte, c.pre), vb.Bytes()...)
		q = append(q, make([]byte, c.n*c.esz+c.post)...)
		x.dec("boundary", c.kind, 70016, "b", q, true)
	}
	// the only plain hash list that can cross 0xffff: cfcheckpt (cap 100000)
	for _, n := range []int{0xffff, 0x10000, 0x10001} {
		if !big && n != 0x10000 {
			continue
		}
		emit(built{kind: "cfcheckpt", msg: &wire.MsgCFCheckpt{FilterHeaders: x.hashes(n)}}, 70016)
	}
	// a message whose payload is exactly MaxProtocolMessageLength (quick: through ReadMessage only), and one byte more
	{
		ds := []int{0}
		if big {
			ds = []int{0, 1}
		}
		for _, d := range ds {
			m := &wire.MsgReject{Cmd: "x", Code: 1, Reason: string(make([]byte, 4000000-2-1-5+d))}
			var w bytes.Buffer
			m.BtcEncode(&w, 70016, wire.BaseEncoding)
			p := w.Bytes()
			net := uint32(wire.MainNet)
			st := frameMsg(net, []byte("reject"), uint32(len(p)), chainhash.DoubleHashB(p)[:4], p)
			x.msgCase("boundary", 70016, net, "b", st)
			if big {
				x.emit("boundary", true, fmt.Sprintf("C08 api 70016 %d %s", net, hx(st)))
				x.emit("boundary", true, fmt.Sprintf("C08 v2 70016 b %s", hx(append(append([]byte{0}, frameCmd("reject")...), p...))))
			}
		}
	}
	// 0xffff / 0x10000 inputs-outputs-witness items (one each; a few MB in thorough only)
	for _, n := range []int{0xffff, 0x10000} {
		if !big && n == 0x10000 {
			continue
		}
		t := &wire.MsgTx{Version: 2}
		in := &wire.TxIn{}
		for j := 0; j < n; j++ {
			in.Witness = append(in.Witness, nil)
		}
		in.Witness[0] = []byte{1}
		t.TxIn = []*wire.TxIn{in}
		emit(built{kind: "tx", msg: t}, 70016)
		if big {
			t2 := &wire.MsgTx{Version: 2}
			for j := 0; j < n; j++ {
				t2.TxOut = append(t2.TxOut, &wire.TxOut{Value: int64(j)})
			}
			t2.TxIn = []*wire.TxIn{{}}
			emit(built{kind: "tx", msg: t2}, 70016)
		}
	}
	// the costliest honest input per byte: ~4M empty witness items (24 bytes of slice header each)
	if big {
		t := &wire.MsgTx{Version: 2}
		in := &wire.TxIn{Witness: make([][]byte, 3999900)}
		in.Witness[0] = []byte{1}
		t.TxIn = []*wire.TxIn{in}
		emit(built{kind: "tx", msg: t}, 70016)
	}
	// script pool: total script bytes of one transaction at 4 MiB, one below, one above (thorough)
	if big {
		slab := int(wire.VerifConstsC08()["scriptSlabSize"])
		for _, d := range []int{-1, 0, 1} {
			t := &wire.MsgTx{Version: 1}
			t.TxIn = []*wire.TxIn{{SignatureScript: make([]byte, 4000000)}}
			t.TxOut = []*wire.TxOut{{PkScript: make([]byte, slab-4000000+d)}}
			emit(built{kind: "tx", msg: t}, 70016)
		}
		for _, d := range []int{0, 1} {
			t := &wire.MsgTx{Version: 1}
			t.TxIn = []*wire.TxIn{{SignatureScript: make([]byte, 4000000+d)}}
			emit(built{kind: "tx", msg: t}, 70016)
		}
	}
}

func (P) Generate(g *core.Gen) {
	// core.NewRand is linear in the seed (seed k+1 is seed k's stream advanced by one draw, and variable-length
	// consumption re-synchronises the two after a few cases), so fork once: the fork's state is a mixed
	// 64-bit value of the seed and different seeds give unrelated streams.
	x := &gen{g: g, r: g.R.Fork()}
	r := x.r
	// varints: every boundary and random
	edges := []uint64{0, 1, 0xfc, 0xfd, 0xfe, 0xff, 0x100, 0xfffe, 0xffff, 0x10000, 0x10001, 0xfffffffe, 0xffffffff, 0x100000000, 0x100000001, 1 << 63, ^uint64(0) - 1, ^uint64(0)}
	for _, v := range edges {
		x.emit("wvarint", true, fmt.Sprintf("C08 wvarint %d", v))
		for _, form := range []int{1, 3, 5, 9} {
			if form == 1 && v > 0xff || form == 3 && v > 0xffff || form == 5 && v > 0xffffffff {
				continue
			}
			vb := varintBytes(v, form)
			x.emit("varint", true, "C08 varint "+hex.EncodeToString(append(vb, r.Bytes(r.Intn(3))...)))
			for i := 0; i < len(vb); i++ {
				x.emit("varint-trunc", true, "C08 varint "+hx(vb[:i]))
			}
		}
	}
	for i := 0; i < g.N(300, 5000); i++ {
		v := r.U64() >> uint(r.Intn(64))
		x.emit("wvarint", v != 0, fmt.Sprintf("C08 wvarint %d", v))
		x.emit("varint", true, "C08 varint "+hex.EncodeToString(r.Bytes(1+r.Intn(10))))
	}
	// headers
	for i := 0; i < g.N(60, 600); i++ {
		h := x.header()
		var w bytes.Buffer
		h.Serialize(&w)
		p := w.Bytes()
		x.dec("header", "header", 70016, "b", p, true)
		if i < 3 {
			for k := 0; k < 80; k++ {
				x.dec("trunc", "header", 70016, "b", p[:k], true)
			}
		}
	}
	x.safely("hostile", x.hostile)
	x.safely("boundary", x.boundary)
	// structured messages of every kind at every gate version, with their hostile variants
	rounds := g.N(6, 45)
	for round := 0; round < rounds; round++ {
		for _, kind := range kinds {
			kind := kind
			x.safely("structured:"+kind, func() {
				b := x.build(kind)
				pvs := gatePvers(kind)
				if round%3 == 1 {
					pvs = []uint32{pvers[r.Intn(len(pvers))]}
				}
				for _, pver := range pvs {
					for _, e := range encs(kind) {
						p, ok := x.payload(b, pver, e)
						if !ok {
							// the encoder refuses the value at this version: the decoder must refuse its
							// would-be bytes too (take the encoding at the newest version)
							if q, ok2 := x.payload(b, wire.ProtocolVersion, e); ok2 {
								x.dec("gate:"+kind, kind, pver, e, q, true)
							} else if !b.invalid {
								// a value the generator holds to be in the domain, refused by the real encoder at
								// the current protocol version: the model's domain is wrong, or the encoder is
								x.emit("encoder-refuses", true, fmt.Sprintf("C08 encrefused %s %d %s", kind, pver, e))
							}
							continue
						}
						x.dec("valid:"+kind, kind, pver, e, p, len(p) > 0)
						if round < g.N(4, 20) && pver == pvs[len(pvs)-1] {
							x.malformed(b, pver, e, p)
						}
						if len(p) <= 200000 {
							x.messageLevel(b, pver, e, p)
						}
					}
				}
				if kind == "tx" || kind == "block" {
					if p, ok := x.payload(b, 0, "w"); ok && len(p) < 400000 {
						op := "txbytes"
						if kind == "block" {
							op = "blockbytes"
						}
						x.emit(op, true, "C08 "+op+" "+hx(p))
						x.emit(op, true, "C08 "+op+" "+hx(append(append([]byte{}, p...), 0)))
						if len(p) > 1 {
							x.emit(op, true, "C08 "+op+" "+hx(p[:r.Intn(len(p))]))
						}
					}
				}
			})
		}
	}
	x.safely("sequences", x.sequences)
	x.safely("helperAPIs", x.helperAPIs)
	x.safely("primitives", x.primitives)
	x.safely("byteSweeps", x.byteSweeps)
	x.safely("round3", x.round3)
	x.safely("addrv2Skips", x.addrv2Skips)
	// random garbage into every decoder
	for i := 0; i < g.N(300, 6000); i++ {
		kind := kinds[r.Intn(len(kinds))]
		n := r.Intn(120)
		p := r.Bytes(n)
		if r.Bool() {
			for j := range p {
				if r.Chance(2, 3) {
					p[j] = byte(r.Intn(3))
				}
			}
		}
		e := encs(kind)[r.Intn(len(encs(kind)))]
		x.dec("garbage", kind, pvers[r.Intn(len(pvers))], e, p, true)
	}
}

// sequences: stateful accessor histories on btcutil.Block / btcutil.Tx. One line = constructor, value, and a
// random sequence of accessor calls; every call is observed. The cached accessors must answer as the pure
// specification does, whatever was called before.
func (x *gen) sequences() {
	r := x.r
	smallTx := func(wit bool) *wire.MsgTx {
		t := &wire.MsgTx{Version: int32(x.u32()), LockTime: x.u32()}
		nIn := 1 + r.Intn(3)
		for i := 0; i < nIn; i++ {
			in := &wire.TxIn{PreviousOutPoint: wire.OutPoint{Hash: x.hash(), Index: x.u32()}, SignatureScript: r.Bytes(r.Intn(40)), Sequence: x.u32()}
			if wit && (i == 0 || r.Bool()) {
				k := 1 + r.Intn(3)
				for j := 0; j < k; j++ {
					in.Witness = append(in.Witness, r.Bytes(r.Intn(40)))
				}
				if len(in.Witness[0]) == 0 {
					in.Witness[0] = []byte{1}
				}
			}
			t.TxIn = append(t.TxIn, in)
		}
		for i := r.Intn(3); i > 0; i-- {
			t.TxOut = append(t.TxOut, &wire.TxOut{Value: int64(x.u64()), PkScript: r.Bytes(r.Intn(40))})
		}
		return t
	}
	blkOps := func(n int) string {
		var ops []string
		for k := 3 + r.Intn(9); k > 0; k-- {
			switch r.Intn(11) {
			case 0, 1:
				ops = append(ops, "B")
			case 2, 3:
				ops = append(ops, "N")
			case 4:
				ops = append(ops, "H")
			case 5:
				ops = append(ops, "T")
			case 6:
				ops = append(ops, "L")
			case 7:
				ops = append(ops, fmt.Sprintf("t%d", r.Intn(n+2)))
			case 8:
				ops = append(ops, fmt.Sprintf("h%d", r.Intn(n+2)))
			case 9:
				ops = append(ops, "G")
			case 10:
				ops = append(ops, fmt.Sprintf("S%d", x.u32()&0x7fffffff)) // never the "unknown" sentinel, whatever its value
			}
		}
		return joinOps(ops)
	}
	ctors := []string{"new", "bytes", "reader", "blockandbytes"}
	for i := 0; i < x.g.N(160, 1500); i++ {
		b := &wire.MsgBlock{Header: x.header()}
		n := r.Intn(5)
		for j := 0; j < n; j++ {
			b.Transactions = append(b.Transactions, smallTx(r.Chance(2, 3)))
		}
		var w bytes.Buffer
		b.Serialize(&w)
		x.emit("blk-seq", true, fmt.Sprintf("C08 blk %s %s %s", ctors[r.Intn(len(ctors))], hx(w.Bytes()), blkOps(n)))
	}
	tctors := []string{"new", "bytes", "reader"}
	for i := 0; i < x.g.N(80, 800); i++ {
		t := smallTx(r.Bool())
		var w bytes.Buffer
		t.Serialize(&w)
		var ops []string
		for k := 2 + r.Intn(8); k > 0; k-- {
			switch r.Intn(6) {
			case 0:
				ops = append(ops, "H")
			case 1:
				ops = append(ops, "W")
			case 2:
				ops = append(ops, "X")
			case 3:
				ops = append(ops, "I")
			case 4:
				ops = append(ops, "M")
			case 5:
				ops = append(ops, fmt.Sprintf("S%d", r.Intn(100000)))
			}
		}
		p := w.Bytes()
		if r.Chance(1, 10) && len(p) > 1 {
			p = p[:r.Intn(len(p))]
		}
		x.emit("utx-seq", true, fmt.Sprintf("C08 utx %s %s %s", tctors[r.Intn(len(tctors))], hx(p), joinOps(ops)))
	}
}

func joinOps(ops []string) string {
	s := ""
	for i, o := range ops {
		if i > 0 {
			s += ","
		}
		s += o
	}
	return s
}

// v2Level: BIP324 plaintext framing of the same payload: short id where the command owns one, the 12-byte form,
// and their hostile variants.
func (x *gen) v2Level(b built, pver uint32, enc string, p []byte) {
	r := x.r
	if !r.Chance(1, 2) {
		return
	}
	ids, cmds := wire.VerifV2Table()
	short := -1
	for i, c := range cmds {
		if c == b.kind {
			short = int(ids[i])
		}
	}
	long := append(append([]byte{0}, frameCmd(b.kind)...), p...)
	emit := func(class string, pt []byte) {
		x.emit(class, true, fmt.Sprintf("C08 v2 %d %s %s", pver, enc, hx(pt)))
	}
	if short >= 0 {
		emit("v2-short", append([]byte{byte(short)}, p...))
		if r.Chance(1, 4) {
			emit("v2-long-of-short", long) // accepted, re-written short: F-C08-f
		}
	} else {
		emit("v2-long", long)
	}
	switch r.Intn(8) {
	case 0:
		emit("v2-unknown-id", append([]byte{[]byte{3, 4, 10, 20, 29, 30, 127, 255}[r.Intn(8)]}, p...))
	case 1:
		emit("v2-trunc", long[:r.Intn(14)])
	case 2:
		base := long
		if short >= 0 {
			base = append([]byte{byte(short)}, p...)
		}
		emit("v2-trailing", append(append([]byte{}, base...), r.Bytes(1+r.Intn(4))...))
		if len(base) > 1 {
			emit("v2-trunc", base[:1+r.Intn(len(base)-1)])
		}
	case 3:
		bad := append([]byte{0}, frameCmd(b.kind)...)
		bad[1+r.Intn(12)] ^= 0x20
		emit("v2-badcommand", append(bad, p...))
		emit("v2-badcommand", append(append([]byte{0}, frameCmd(b.kind+"\x00x")...), p...))
	case 4:
		// another kind's short id in front of this payload
		emit("v2-crosskind", append([]byte{byte(ids[r.Intn(len(ids))])}, p...))
	}
}

func frameCmd(cmd string) []byte {
	var c [12]byte
	copy(c[:], cmd)
	return c[:]
}

// helperAPIs: MsgTx / MsgBlock helper methods, and value semantics of decode results.
func (x *gen) helperAPIs() {
	r := x.r
	mk := func(pattern int) *wire.MsgTx {
		t := &wire.MsgTx{Version: int32(x.u32()), LockTime: x.u32()}
		nIn := 1 + r.Intn(4)
		for i := 0; i < nIn; i++ {
			in := &wire.TxIn{PreviousOutPoint: wire.OutPoint{Hash: x.hash(), Index: x.u32()}, SignatureScript: r.Bytes(x.blen(600)), Sequence: x.u32()}
			wit := false
			switch pattern {
			case 1:
				wit = true
			case 2:
				wit = i > 0 // the first input has none
			case 3:
				wit = i == nIn-1
			case 4:
				wit = r.Bool()
			}
			if wit {
				for k := 1 + r.Intn(3); k > 0; k-- {
					in.Witness = append(in.Witness, r.Bytes(1+x.blen(300)))
				}
			}
			t.TxIn = append(t.TxIn, in)
		}
		for i := r.Intn(4); i > 0; i-- {
			t.TxOut = append(t.TxOut, &wire.TxOut{Value: int64(x.u64()), PkScript: r.Bytes(x.blen(600))})
		}
		return t
	}
	var subs []string
	for i := 0; i < x.g.N(120, 1200); i++ {
		t := mk(i % 5)
		x.emit("txapi", true, "C08 txapi "+hx(serTx(t)))
		if i%4 == 0 {
			subs = append(subs, "tx/70016/w/"+hx(serTx(t)))
		}
	}
	for i := 0; i < x.g.N(50, 500); i++ {
		b := &wire.MsgBlock{Header: x.header()}
		for j := r.Intn(5); j > 0; j-- {
			b.Transactions = append(b.Transactions, mk(r.Intn(5)))
		}
		var w bytes.Buffer
		b.Serialize(&w)
		x.emit("blkapi", true, "C08 blkapi "+hx(w.Bytes()))
		if i%3 == 0 {
			subs = append(subs, "block/70016/w/"+hx(w.Bytes()))
		}
	}
	// input/output counts on either side of the compact-size boundary (the two counts are separate fields)
	for _, c := range [][2]int{{1, 0xfc}, {1, 0xfd}, {0xfd, 1}, {0xfc, 0xfd}, {0xfd, 0xfd}, {2, 0xfe}} {
		t := &wire.MsgTx{Version: 2}
		for i := 0; i < c[0]; i++ {
			in := &wire.TxIn{Sequence: uint32(i)}
			if i == c[0]-1 && r.Bool() {
				in.Witness = [][]byte{{1}}
			}
			t.TxIn = append(t.TxIn, in)
		}
		for i := 0; i < c[1]; i++ {
			t.TxOut = append(t.TxOut, &wire.TxOut{Value: int64(i), PkScript: r.Bytes(r.Intn(3))})
		}
		x.emit("txapi", true, "C08 txapi "+hx(serTx(t)))
		subs = append(subs, "tx/70016/w/"+hx(serTx(t)))
	}
	// truncated / extended bytes into the helper ops
	for i := 0; i < x.g.N(20, 200); i++ {
		p := serTx(mk(r.Intn(5)))
		if r.Bool() {
			p = p[:r.Intn(len(p))]
		} else {
			p = append(p, 0)
		}
		x.emit("txapi", true, "C08 txapi "+hx(p))
	}
	// other kinds for the overlap classes
	for _, k := range []string{"inv", "headers", "addr", "version", "merkleblock", "cfheaders", "reject", "getblocks"} {
		for j := 0; j < 3; j++ {
			bb := x.build(k)
			if p, ok := x.payload(bb, 70016, "b"); ok && len(p) < 20000 {
				subs = append(subs, fmt.Sprintf("%s/70016/b/%s", k, hx(p)))
			}
		}
	}
	// many small fixed-width messages at once: every integer goes through the shared 8-byte scratch-buffer free list
	for i := 0; i < x.g.N(4, 30); i++ {
		var small []string
		for j := 0; j < 16; j++ {
			k := []string{"version", "ping", "pong", "feefilter", "version", "getcfilters"}[r.Intn(6)]
			bb := x.build(k)
			if p, ok := x.payload(bb, 70016, "b"); ok && len(p) < 340 {
				small = append(small, fmt.Sprintf("%s/70016/b/%s", k, hx(p)))
			}
		}
		if len(small) >= 8 {
			x.emit("multi-c-small", true, "C08 multi c "+joinWith(small, "|"))
		}
	}
	// results are values (decode all, observe afterwards) and no hidden shared state (>= 8 goroutines)
	for i := 0; i < x.g.N(12, 80); i++ {
		n := 8 + r.Intn(8)
		pick := make([]string, n)
		for j := range pick {
			pick[j] = subs[r.Intn(len(subs))]
		}
		mode := "s"
		if i%2 == 1 {
			mode = "c"
		}
		x.emit("multi-"+mode, true, "C08 multi "+mode+" "+joinWith(pick, "|"))
	}
}

func joinWith(l []string, sep string) string {
	s := ""
	for i, o := range l {
		if i > 0 {
			s += sep
		}
		s += o
	}
	return s
}

// primitives: the exported field-level readers/writers of common.go / msgtx.go, the Add… caps, NetAddressV2FromBytes.
func (x *gen) primitives() {
	r := x.r
	vi := func(v uint64) []byte {
		var w bytes.Buffer
		wire.WriteVarInt(&w, 0, v)
		return w.Bytes()
	}
	lens := []int{0, 1, 2, 0xfb, 0xfc, 0xfd, 0xfe, 0xff, 0x100, 519, 520, 521, 0xfffe, 0xffff, 0x10000, 0x10001}
	for _, n := range lens {
		body := r.Bytes(n)
		good := append(vi(uint64(n)), body...)
		x.emit("varstr", true, "C08 varstr "+hx(append(append([]byte{}, good...), r.Bytes(r.Intn(3))...)))
		if n > 0 {
			x.emit("varstr", true, "C08 varstr "+hx(good[:len(good)-1]))
		}
		for _, mx := range []int{n - 1, n, n + 1} {
			if mx >= 0 {
				x.emit("varbytes", true, fmt.Sprintf("C08 varbytes %d %s", mx, hx(good)))
			}
		}
		x.emit("txout", true, "C08 txout "+hx(append(append(r.Bytes(8), vi(uint64(n))...), body...)))
		// non-minimal length prefix
		if n < 0xfd {
			x.emit("varstr", true, "C08 varstr "+hx(append([]byte{0xfd, byte(n), 0}, body...)))
			x.emit("txout", true, "C08 txout "+hx(append(append(r.Bytes(8), 0xfd, byte(n), 0), body...)))
		}
	}
	for _, v := range []uint64{wire.MaxMessagePayload - 1, wire.MaxMessagePayload, wire.MaxMessagePayload + 1, 4000000, 4000001, 1 << 32, ^uint64(0)} {
		x.emit("varstr", true, "C08 varstr "+hx(append(vi(v), 1, 2, 3)))
		x.emit("txout", true, "C08 txout "+hx(append(append(r.Bytes(8), vi(v)...), 1, 2, 3)))
		x.emit("varbytes", true, fmt.Sprintf("C08 varbytes %d %s", uint32(v), hx(append(vi(v), 1, 2, 3))))
	}
	for i := 0; i < 12; i++ {
		h := x.hash()
		x.emit("outpoint", true, fmt.Sprintf("C08 outpoint %s %d", hx(h[:]), x.u32()))
	}
	for _, k := range []string{"inv", "getdata", "notfound", "headers", "getblocks", "getheaders", "addr", "cfheaders", "merkleblock"} {
		x.emit("addcap", true, "C08 addcap "+k)
	}
	for _, n := range []int{0, 3, 4, 5, 9, 10, 11, 15, 16, 17, 31, 32, 33} {
		for k := 0; k < 2; k++ {
			a := r.Bytes(n)
			if n == 16 && k == 0 {
				switch r.Intn(3) {
				case 0:
					copy(a, []byte{0xfd, 0x87, 0xd8, 0x7e, 0xeb, 0x43})
				case 1:
					copy(a, []byte{0, 0, 0, 0, 0, 0, 0, 0, 0, 0, 0xff, 0xff})
				}
			}
			x.emit("fromv2", true, fmt.Sprintf("C08 fromv2 %s %d", hx(a), uint16(x.u32())))
		}
	}
}

// byteSweeps: every one-byte discriminator of every layout takes all 256 values; the decoder must either
// reject or round-trip byte for byte (verdict, re-encoding, sizes and ids are compared with the model).
func (x *gen) byteSweeps() {
	r := x.r
	sweep := func(kind string, pver uint32, enc string, p []byte, off int) {
		if off < 0 || off >= len(p) {
			return
		}
		for v := 0; v < 256; v++ {
			q := append([]byte{}, p...)
			q[off] = byte(v)
			x.dec("sweep:"+kind, kind, pver, enc, q, true)
		}
	}
	enc := func(m wire.Message, pver uint32, e wire.MessageEncoding) []byte {
		var w bytes.Buffer
		if err := m.BtcEncode(&w, pver, e); err != nil {
			panic(err)
		}
		return w.Bytes()
	}
	// BIP144: version | 00 | xx | <legacy body>, version | 00 | xx | <witness body>, and the same through ReadMessage
	legacy := &wire.MsgTx{Version: 2, LockTime: 7}
	legacy.TxIn = []*wire.TxIn{{PreviousOutPoint: wire.OutPoint{Hash: x.hash(), Index: 1}, SignatureScript: r.Bytes(3), Sequence: 5}}
	legacy.TxOut = []*wire.TxOut{{Value: 9, PkScript: r.Bytes(2)}}
	lb := enc(legacy, 70016, wire.BaseEncoding)
	wit := legacy.Copy()
	wit.TxIn[0].Witness = [][]byte{{0x30, 0x01}, {0x02}}
	wb := enc(wit, 70016, wire.WitnessEncoding)
	zero := &wire.MsgTx{Version: 1, TxOut: []*wire.TxOut{{Value: 1, PkScript: []byte{0x51}}}}
	zb := enc(zero, 70016, wire.BaseEncoding)
	for _, body := range [][]byte{lb, zb} {
		ins := append(append(append([]byte{}, body[:4]...), 0, 0), body[4:]...)
		for _, e := range []string{"w", "b"} {
			sweep("tx", 70016, e, ins, 5)
			sweep("tx", 70016, e, ins, 4)
		}
		for _, fl := range []byte{0, 1, 2} {
			q := append([]byte{}, ins...)
			q[5] = fl
			net := uint32(wire.MainNet)
			for _, e := range []string{"w", "b"} {
				x.msgCase("sweep:tx", 70016, net, e, frameMsg(net, []byte("tx"), uint32(len(q)), chainhash.DoubleHashB(q)[:4], q))
			}
			x.emit("sweep:tx", true, "C08 txbytes "+hx(q))
			x.emit("sweep:tx", true, "C08 txapi "+hx(q))
			x.emit("sweep:tx", true, "C08 utx bytes "+hx(q)+" H,W,X,M")
			blk := append(append(make([]byte, 80), 1), q...)
			x.emit("sweep:tx", true, "C08 blockbytes "+hx(blk))
			x.dec("sweep:block", "block", 70016, "w", blk, true)
		}
	}
	for _, e := range []string{"w", "b"} {
		sweep("tx", 70016, e, wb, 5)
		sweep("tx", 70016, e, wb, 4)
		sweep("tx", 70016, e, lb, 4)                 // input count
		sweep("tx", 70016, e, wb, len(wb)-4-1-1-2-1) // witness item count region
	}
	// a block holding the transaction: the same flag byte one level down
	blk := append(append(make([]byte, 80), 1), wb...)
	sweep("block", 70016, "w", blk, 80+5)
	sweep("block", 70016, "w", blk, 80)
	// inventory type byte, count byte
	inv := enc(&wire.MsgInv{InvList: x.invs(2)}, 70016, wire.BaseEncoding)
	sweep("inv", 70016, "b", inv, 0)
	sweep("inv", 70016, "b", inv, 1)
	sweep("inv", 70016, "b", inv, 4)
	// reject: command length, code, reason length
	rej := enc(&wire.MsgReject{Cmd: "tx", Code: wire.RejectInvalid, Reason: "r", Hash: x.hash()}, 70016, wire.BaseEncoding)
	for o := 0; o < 6; o++ {
		sweep("reject", 70016, "b", rej, o)
	}
	// addrv2: count, services prefix, network id, address length
	a2 := append([]byte{1}, 0x29, 0xab, 0x5f, 0x49, 0x01, 0x02, 0x10)
	a2 = append(append(a2, r.Bytes(16)...), 0x20, 0x8d)
	a2[8] = 0x20 // not OnionCat / mapped
	for _, o := range []int{0, 5, 6, 7} {
		sweep("addrv2", 70016, "b", a2, o)
	}
	// version: relay byte (F-C08-a for values other than 00/01), user-agent length
	ver := enc(&wire.MsgVersion{UserAgent: "/x/", AddrYou: *x.netaddr(), AddrMe: *x.netaddr()}, 70016, wire.BaseEncoding)
	sweep("version", 70016, "b", ver, len(ver)-1)
	sweep("version", 70016, "b", ver, 80)
	// filterload flags / hash funcs, filteradd and cfilter length and type bytes
	fl := enc(&wire.MsgFilterLoad{Filter: []byte{1, 2, 3}, HashFuncs: 10, Tweak: 1, Flags: 1}, 70016, wire.BaseEncoding)
	for _, o := range []int{0, 4, 7, len(fl) - 1} {
		sweep("filterload", 70016, "b", fl, o)
	}
	sweep("filteradd", 70016, "b", enc(&wire.MsgFilterAdd{Data: []byte{9, 8}}, 70016, wire.BaseEncoding), 0)
	cf := enc(&wire.MsgCFilter{BlockHash: x.hash(), Data: []byte{1, 2}}, 70016, wire.BaseEncoding)
	sweep("cfilter", 70016, "b", cf, 0)
	sweep("cfilter", 70016, "b", cf, 33)
	// count prefixes of the hash-list messages and headers' trailing tx count
	sweep("getblocks", 70016, "b", enc(&wire.MsgGetBlocks{BlockLocatorHashes: x.hashes(1)}, 70016, wire.BaseEncoding), 4)
	h := x.header()
	hm := &wire.MsgHeaders{Headers: []*wire.BlockHeader{&h}}
	hb := enc(hm, 70016, wire.BaseEncoding)
	sweep("headers", 70016, "b", hb, 0)
	sweep("headers", 70016, "b", hb, 81)
	sweep("cfheaders", 70016, "b", enc(&wire.MsgCFHeaders{FilterHashes: x.hashes(1)}, 70016, wire.BaseEncoding), 65)
	sweep("cfcheckpt", 70016, "b", enc(&wire.MsgCFCheckpt{FilterHeaders: x.hashes(1)}, 70016, wire.BaseEncoding), 33)
	mb := enc(&wire.MsgMerkleBlock{Header: h, Hashes: x.hashes(1), Flags: []byte{1}}, 70016, wire.BaseEncoding)
	sweep("merkleblock", 70016, "b", mb, 84)
	sweep("merkleblock", 70016, "b", mb, len(mb)-2)
	am := &wire.MsgAddr{}
	am.AddrList = append(am.AddrList, x.netaddr())
	sweep("addr", 70016, "b", enc(am, 70016, wire.BaseEncoding), 0)
	// compact-size prefixes with non-minimal payloads
	for _, pre := range [][]byte{{0xfd, 0, 0}, {0xfd, 0xfc, 0}, {0xfd, 0xfd, 0}, {0xfe, 0, 0, 0, 0}, {0xfe, 0xff, 0xff, 0, 0}, {0xfe, 0, 0, 1, 0},
		{0xff, 0, 0, 0, 0, 0, 0, 0, 0}, {0xff, 0xff, 0xff, 0xff, 0xff, 0, 0, 0, 0}, {0xff, 0, 0, 0, 0, 1, 0, 0, 0}} {
		x.emit("sweep:varint", true, "C08 varint "+hx(append(append([]byte{}, pre...), 1, 2)))
		x.dec("sweep:varint", "inv", 70016, "b", pre, true)
		x.dec("sweep:varint", "tx", 70016, "w", append(append(make([]byte, 4), pre...), lb[5:]...), true)
	}
	for v := 0; v < 256; v++ {
		x.emit("sweep:varint", true, "C08 varint "+hx([]byte{byte(v), 0xfc, 0, 0, 0, 0, 0, 0, 0}))
	}
}

// round3: constructor-built shapes (nil vs empty-but-non-nil), one value reused across calls and goroutines,
// heterogeneous items, the violating element at the first / a middle / the last position.
func (x *gen) round3() {
	r := x.r
	hexs := func(n int) string { return hx(r.Bytes(n)) }
	shape := func() string {
		switch r.Intn(4) {
		case 0:
			return "n"
		case 1:
			return "-"
		}
		return hexs(1 + r.Intn(4))
	}
	wit := func(force string) string {
		if force != "" {
			return force
		}
		switch r.Intn(5) {
		case 0:
			return "n"
		case 1:
			return "e"
		case 2:
			return "-" // one empty non-nil item: HasWitness is true, the item is empty
		case 3:
			return "n.-." + hexs(2) // nil item, empty item, data item
		}
		return hexs(1+r.Intn(3)) + "." + hexs(1)
	}
	in := func(w string) string {
		h := x.hash()
		return fmt.Sprintf("%s:%d:%s:%d:%s", hx(h[:]), x.u32(), shape(), x.u32(), wit(w))
	}
	mk := func(ins, outs string) {
		x.emit("mktx", true, fmt.Sprintf("C08 mktx %d %d %s %s", x.u32(), x.u32(), ins, outs))
	}
	outsOf := func(n int) string {
		if n == 0 {
			return []string{"n", "e"}[r.Intn(2)]
		}
		var o []string
		for i := 0; i < n; i++ {
			o = append(o, fmt.Sprintf("%d:%s", x.u64(), shape()))
		}
		return joinWith(o, ";")
	}
	// every combination of (nil | empty | items) witness on two inputs, with nil/empty scripts and outputs
	for _, w0 := range []string{"n", "e", "-", "ab", "n.-"} {
		for _, w1 := range []string{"n", "e", "-", "cd.ef"} {
			mk(in(w0)+";"+in(w1), outsOf(r.Intn(3)))
		}
	}
	for _, ins := range []string{"n", "e"} {
		for _, outs := range []string{"n", "e", "5:n", "5:-", "5:51;6:n"} {
			mk(ins, outs)
		}
	}
	for i := 0; i < x.g.N(120, 1200); i++ {
		var is []string
		for k := 1 + r.Intn(4); k > 0; k-- {
			is = append(is, in(""))
		}
		mk(joinWith(is, ";"), outsOf(r.Intn(4)))
	}
	// one value, many calls (sequential and concurrent), both encodings
	for _, kind := range []string{"tx", "block", "inv", "headers", "addr", "version", "merkleblock", "cfheaders", "reject", "getblocks", "addrv2", "ping", "cfcheckpt", "filterload"} {
		for i := 0; i < x.g.N(3, 30); i++ {
			bb := x.build(kind)
			e := "b"
			if kind == "tx" || kind == "block" {
				e = "w"
			}
			if p, ok := x.payload(bb, 70016, e); ok && len(p) < 60000 {
				x.emit("reuse", true, fmt.Sprintf("C08 reuse %s 70016 %s", kind, hx(p)))
			}
		}
	}
	// reject: every command length 0..13 (incl. every real command) x empty / non-empty reason, alone and followed by
	// 32 more bytes (which belong to the message only for the commands block and tx)
	{
		var cmds []string
		cmds = append(cmds, commandList()...)
		for n := 0; n <= 13; n++ {
			cmds = append(cmds, string(bytes.Repeat([]byte{'a'}, n)))
		}
		for _, c := range cmds {
			for _, reason := range []string{"", "r"} {
				m := &wire.MsgReject{Cmd: c, Code: wire.RejectInvalid, Reason: reason, Hash: x.hash()}
				var w bytes.Buffer
				if err := m.BtcEncode(&w, 70016, wire.BaseEncoding); err != nil {
					continue
				}
				x.dec("reject-shapes", "reject", 70016, "b", w.Bytes(), true)
				x.dec("reject-shapes", "reject", 70016, "b", append(append([]byte{}, w.Bytes()...), r.Bytes(32)...), true)
			}
		}
	}
	// heterogeneous items: a block whose transactions differ in every attribute
	for i := 0; i < x.g.N(10, 100); i++ {
		b := &wire.MsgBlock{Header: x.header()}
		shapes := []func() *wire.MsgTx{
			func() *wire.MsgTx { return x.tx(1, 0, false) },
			func() *wire.MsgTx { return x.tx(2, 3, true) },
			func() *wire.MsgTx { t := x.tx(3, 1, false); t.Version = -1; return t },
			func() *wire.MsgTx {
				t := x.tx(1, 2, true)
				t.TxIn[0].Witness = [][]byte{{}}
				t.LockTime = 0xffffffff
				return t
			},
			func() *wire.MsgTx { t := x.tx(4, 4, false); t.TxIn[3].Witness = [][]byte{{1}}; return t }, // witness only on the last input
		}
		perm := r.Intn(len(shapes))
		for k := 0; k < len(shapes); k++ {
			b.Transactions = append(b.Transactions, shapes[(k+perm)%len(shapes)]())
		}
		var w bytes.Buffer
		b.Serialize(&w)
		x.emit("hetero", true, "C08 blkapi "+hx(w.Bytes()))
		x.emit("hetero", true, "C08 blk "+[]string{"new", "bytes", "reader", "blockandbytes"}[r.Intn(4)]+" "+hx(w.Bytes())+" N,t4,B,T,L,h0,N,B")
		x.dec("hetero", "block", 70016, "w", w.Bytes(), true)
		x.dec("hetero", "block", 70016, "b", w.Bytes(), true)
	}
	// the violating element at the first, a middle and the last position
	vi := func(v uint64) []byte {
		var w bytes.Buffer
		wire.WriteVarInt(&w, 0, v)
		return w.Bytes()
	}
	const n = 5
	for _, pos := range []int{0, 2, n - 1} {
		// headers: entry `pos` carries a non-zero transaction count
		hb := vi(n)
		for i := 0; i < n; i++ {
			h := x.header()
			var w bytes.Buffer
			h.Serialize(&w)
			hb = append(hb, w.Bytes()...)
			if i == pos {
				hb = append(hb, 1)
			} else {
				hb = append(hb, 0)
			}
		}
		x.dec("position", "headers", 70016, "b", hb, true)
		// addrv2: entry `pos` has a wrong address length for its network / a network that is skipped
		for _, bad := range []int{0, 1} {
			ab := vi(n)
			for i := 0; i < n; i++ {
				e := append([]byte{1, 2, 3, 4}, 0x05)
				if i == pos && bad == 0 {
					e = append(e, 1, 5) // ipv4 with 5 bytes
					e = append(e, r.Bytes(5)...)
				} else if i == pos {
					e = append(e, 5, 32) // i2p: skipped (F-C08-b)
					e = append(e, r.Bytes(32)...)
				} else {
					e = append(e, 1, 4)
					e = append(e, r.Bytes(4)...)
				}
				ab = append(ab, append(e, 0x20, 0x8d)...)
			}
			x.dec("position", "addrv2", 70016, "b", ab, true)
		}
		// block: transaction `pos` carries a superfluous witness record / flag 00 / a non-minimal count
		for _, bad := range []int{0, 1, 2} {
			bl := append(make([]byte, 80), vi(n)...)
			for i := 0; i < n; i++ {
				t := serTx(x.tx(1, 1, false))
				if i == pos {
					switch bad {
					case 0: // marker, flag 01, but no witness data anywhere
						t = append(append(append([]byte{}, t[:4]...), 0, 1), t[4:]...)
						t = append(append([]byte{}, t[:len(t)-4]...), append([]byte{0}, t[len(t)-4:]...)...)
					case 1:
						t = append(append(append([]byte{}, t[:4]...), 0, 0), t[4:]...)
					case 2:
						t = append(append(append([]byte{}, t[:4]...), 0xfd, 1, 0), t[5:]...)
					}
				}
				bl = append(bl, t...)
			}
			x.dec("position", "block", 70016, "w", bl, true)
			x.emit("position", true, "C08 blockbytes "+hx(bl))
		}
		// inv list inside a message whose entry `pos` is cut short is covered by truncation; tx: oversize claim on input `pos`
		tb := append(make([]byte, 4), vi(n)...)
		for i := 0; i < n; i++ {
			tb = append(tb, make([]byte, 36)...)
			if i == pos {
				tb = append(tb, vi(4000001)...)
			} else {
				tb = append(tb, 0)
			}
			tb = append(tb, 0, 0, 0, 0)
		}
		tb = append(tb, 0, 0, 0, 0, 0)
		x.dec("position", "tx", 70016, "b", tb, true)
	}
}

// addrv2Skips: every way an addrv2 entry is skipped (unknown network id, I2P, CJDNS, OnionCat-in-IPv6,
// IPv4-mapped IPv6) at the first, a middle and the last position, followed and preceded by kept entries of every
// network; a skip path that consumes one byte too few or too many shifts everything after it.
func (x *gen) addrv2Skips() {
	r := x.r
	vi := func(v uint64) []byte {
		var w bytes.Buffer
		wire.WriteVarInt(&w, 0, v)
		return w.Bytes()
	}
	entry := func(id byte, addr []byte) []byte {
		e := []byte{byte(r.Intn(256)), byte(r.Intn(256)), byte(r.Intn(256)), byte(r.Intn(256))}
		e = append(e, vi(uint64(r.Intn(70000)))...)
		e = append(e, id)
		e = append(e, vi(uint64(len(addr)))...)
		e = append(e, addr...)
		return append(e, byte(1+r.Intn(255)), byte(1+r.Intn(255))) // non-zero port bytes: a shift is visible
	}
	rnd := func(n int) []byte {
		b := r.Bytes(n)
		for i := range b {
			if b[i] == 0 {
				b[i] = 0x5a
			}
		}
		return b
	}
	kept := []func() []byte{
		func() []byte { return entry(1, rnd(4)) },
		func() []byte { a := rnd(16); a[0] = 0x20; return entry(2, a) },
		func() []byte { return entry(3, rnd(10)) },
		func() []byte { return entry(4, rnd(32)) },
	}
	skipped := map[string]func() []byte{
		"i2p":       func() []byte { return entry(5, rnd(32)) },
		"cjdns":     func() []byte { return entry(6, rnd(16)) },
		"unknown0":  func() []byte { return entry(0, rnd(r.Intn(20))) },
		"unknown7":  func() []byte { return entry(7, rnd(1+r.Intn(40))) },
		"unknownff": func() []byte { return entry(0xff, rnd(512)) },
		"onioncat": func() []byte {
			a := rnd(16)
			copy(a, []byte{0xfd, 0x87, 0xd8, 0x7e, 0xeb, 0x43})
			return entry(2, a)
		},
		"v4mapped": func() []byte {
			a := rnd(16)
			copy(a, []byte{0, 0, 0, 0, 0, 0, 0, 0, 0, 0, 0xff, 0xff})
			return entry(2, a)
		},
	}
	names := []string{"i2p", "cjdns", "unknown0", "unknown7", "unknownff", "onioncat", "v4mapped"}
	net := uint32(wire.MainNet)
	for _, name := range names {
		for _, pos := range []int{0, 1, 3} {
			for _, follow := range []int{0, 1, 2, 3} {
				var p []byte
				const n = 4
				p = append(p, vi(n)...)
				for i := 0; i < n; i++ {
					switch {
					case i == pos:
						p = append(p, skipped[name]()...)
					case i == pos+1:
						p = append(p, kept[follow]()...)
					default:
						p = append(p, kept[r.Intn(4)]()...)
					}
				}
				x.dec("addrv2-skip:"+name, "addrv2", 70016, "b", p, true)
				if follow == 0 {
					x.msgCase("addrv2-skip:"+name, 70016, net, "b", frameMsg(net, []byte("addrv2"), uint32(len(p)), chainhash.DoubleHashB(p)[:4], p))
					x.emit("addrv2-skip:"+name, true, "C08 v2 70016 b "+hx(append([]byte{28}, p...)))
					x.emit("addrv2-skip:"+name, true, "C08 reuse addrv2 70016 "+hx(p))
				}
			}
		}
		// two skipped entries in a row, then kept ones; and only skipped ones
		var p []byte
		p = append(p, vi(4)...)
		p = append(p, skipped[name]()...)
		p = append(p, skipped[names[r.Intn(len(names))]]()...)
		p = append(p, kept[r.Intn(4)]()...)
		p = append(p, kept[r.Intn(4)]()...)
		x.dec("addrv2-skip:"+name, "addrv2", 70016, "b", p, true)
		q := append(vi(2), skipped[name]()...)
		q = append(q, skipped[name]()...)
		x.dec("addrv2-skip:"+name, "addrv2", 70016, "b", q, true)
		x.dec("addrv2-skip:"+name, "addrv2", 70016, "b", append(append([]byte{}, q...), 1, 2, 3), true)
	}
}
