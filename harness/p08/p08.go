// Package p08: correspondence for C08 (wire encoding is a canonical bijection; hostile bytes are harmless).
//
// Every case carries BYTES; the real decoder and the Lean codec both decode them, dump the value in one
// canonical format, re-encode it, and report rest length, canonicity, ids and sizes. Structured
// messages are built from btcd's own types and encoded by the real encoder first, so both directions
// (Go encode vs Lean encode on the same value, Go decode vs Lean decode on the same bytes) are compared.
package p08

import (
	"bytes"
	"encoding/hex"
	"fmt"
	"io"
	"runtime"
	"runtime/metrics"
	"strconv"
	"strings"
	"sync"
	"testing/iotest"
	"time"

	"github.com/btcsuite/btcd/btcutil/v2"
	"github.com/btcsuite/btcd/chainhash/v2"
	"github.com/btcsuite/btcd/wire/v2"
	"verifharness/core"
)

type P struct{}

func (P) ID() string { return "C08" }

// AllocK: a decode may not allocate more than AllocK * MaxMessagePayload bytes (same K in the Lean driver).
const AllocK = 12

// ---------------------------------------------------------------- facts (T2)

func (P) Facts() []core.Fact {
	var fs []core.Fact
	for k, v := range wire.VerifConstsC08() {
		fs = append(fs, core.Fact{Name: k, Value: v})
	}
	add := func(n string, v int64) { fs = append(fs, core.Fact{Name: n, Value: v}) }
	add("MaxMessagePayload", wire.MaxMessagePayload)
	add("MaxProtocolMessageLength", wire.MaxProtocolMessageLength)
	add("MaxVarIntPayload", wire.MaxVarIntPayload)
	add("MessageHeaderSize", wire.MessageHeaderSize)
	add("CommandSize", wire.CommandSize)
	add("MaxBlockPayload", wire.MaxBlockPayload)
	add("MaxInvPerMsg", wire.MaxInvPerMsg)
	add("MaxBlockHeadersPerMsg", wire.MaxBlockHeadersPerMsg)
	add("MaxBlockLocatorsPerMsg", wire.MaxBlockLocatorsPerMsg)
	add("MaxAddrPerMsg", wire.MaxAddrPerMsg)
	add("MaxV2AddrPerMsg", wire.MaxV2AddrPerMsg)
	add("MaxUserAgentLen", wire.MaxUserAgentLen)
	add("MaxFilterLoadHashFuncs", wire.MaxFilterLoadHashFuncs)
	add("MaxFilterLoadFilterSize", wire.MaxFilterLoadFilterSize)
	add("MaxFilterAddDataSize", wire.MaxFilterAddDataSize)
	add("MaxCFilterDataSize", wire.MaxCFilterDataSize)
	add("MaxCFHeadersPerMsg", wire.MaxCFHeadersPerMsg)
	add("MultipleAddressVersion", int64(wire.MultipleAddressVersion))
	add("NetAddressTimeVersion", int64(wire.NetAddressTimeVersion))
	add("BIP0031Version", int64(wire.BIP0031Version))
	add("BIP0035Version", int64(wire.BIP0035Version))
	add("BIP0037Version", int64(wire.BIP0037Version))
	add("RejectVersion", int64(wire.RejectVersion))
	add("BIP0111Version", int64(wire.BIP0111Version))
	add("SendHeadersVersion", int64(wire.SendHeadersVersion))
	add("FeeFilterVersion", int64(wire.FeeFilterVersion))
	add("AddrV2Version", int64(wire.AddrV2Version))
	add("ProtocolVersion", int64(wire.ProtocolVersion))
	add("TxFlagMarker", wire.TxFlagMarker)
	add("WitnessFlag", int64(wire.WitnessFlag))
	v2ids, v2cmds := wire.VerifV2Table()
	fs = append(fs, core.Fact{Name: "v2Ids", Value: v2ids}, core.Fact{Name: "v2Commands", Value: v2cmds})
	// command strings, in the order of the driver's table
	fs = append(fs, core.Fact{Name: "commands", Value: commandList()})
	// MaxPayloadLength of every command at the current protocol version and at version 0
	var mplNew, mplOld []int64
	for _, c := range commandList() {
		mm, _, ok := emptyOf(c)
		if !ok {
			panic("no message for " + c)
		}
		m := mm.(wire.Message)
		mplNew = append(mplNew, int64(m.MaxPayloadLength(wire.ProtocolVersion)))
		mplOld = append(mplOld, int64(m.MaxPayloadLength(0)))
	}
	fs = append(fs, core.Fact{Name: "maxPayloadCurrent", Value: mplNew})
	fs = append(fs, core.Fact{Name: "maxPayloadV0", Value: mplOld})
	return fs
}

func commandList() []string {
	return []string{
		wire.CmdVersion, wire.CmdVerAck, wire.CmdGetAddr, wire.CmdAddr, wire.CmdAddrV2, wire.CmdGetBlocks,
		wire.CmdInv, wire.CmdGetData, wire.CmdNotFound, wire.CmdBlock, wire.CmdTx, wire.CmdGetHeaders,
		wire.CmdHeaders, wire.CmdPing, wire.CmdPong, wire.CmdMemPool, wire.CmdFilterAdd, wire.CmdFilterClear,
		wire.CmdFilterLoad, wire.CmdMerkleBlock, wire.CmdReject, wire.CmdSendHeaders, wire.CmdFeeFilter,
		wire.CmdGetCFilters, wire.CmdGetCFHeaders, wire.CmdGetCFCheckpt, wire.CmdCFilter, wire.CmdCFHeaders,
		wire.CmdCFCheckpt, wire.CmdSendAddrV2, wire.CmdWTxIdRelay,
	}
}

// ---------------------------------------------------------------- canonical dump

func hx(b []byte) string {
	if len(b) == 0 {
		return "-"
	}
	return hex.EncodeToString(b)
}

func u(v uint64) string { return strconv.FormatUint(v, 10) }

func list(n int, f func(i int) string) string {
	var sb strings.Builder
	sb.WriteByte('[')
	for i := 0; i < n; i++ {
		if i > 0 {
			sb.WriteByte(';')
		}
		sb.WriteString(f(i))
	}
	sb.WriteByte(']')
	return sb.String()
}

func dumpHeader(h *wire.BlockHeader) string {
	return strings.Join([]string{u(uint64(uint32(h.Version))), hx(h.PrevBlock[:]), hx(h.MerkleRoot[:]),
		u(hdrTime(h)), u(uint64(h.Bits)), u(uint64(h.Nonce))}, ",")
}

func dumpTx(t *wire.MsgTx) string {
	ins := list(len(t.TxIn), func(i int) string {
		in := t.TxIn[i]
		return hx(in.PreviousOutPoint.Hash[:]) + "," + u(uint64(in.PreviousOutPoint.Index)) + "," +
			hx(in.SignatureScript) + "," + u(uint64(in.Sequence))
	})
	outs := list(len(t.TxOut), func(i int) string {
		return u(uint64(t.TxOut[i].Value)) + "," + hx(t.TxOut[i].PkScript)
	})
	wits := list(len(t.TxIn), func(i int) string {
		w := t.TxIn[i].Witness
		return list(len(w), func(j int) string { return hx(w[j]) })
	})
	return u(uint64(uint32(t.Version))) + "," + ins + "," + outs + "," + wits + "," + u(uint64(t.LockTime))
}

func ip16(na *wire.NetAddress) []byte {
	var ip [16]byte
	if na.IP != nil {
		copy(ip[:], na.IP.To16())
	}
	return ip[:]
}

func dumpNA(na *wire.NetAddress, ts bool) string {
	s := u(uint64(na.Services)) + "," + hx(ip16(na)) + "," + u(uint64(na.Port))
	if ts {
		t := uint64(0)
		if !na.Timestamp.IsZero() {
			t = uint64(uint32(na.Timestamp.Unix()))
		}
		s = u(t) + "," + s
	}
	return s
}

func hashes(hs []*chainhash.Hash) string {
	return list(len(hs), func(i int) string { return hx(hs[i][:]) })
}

func dumpInv(l []*wire.InvVect) string {
	return list(len(l), func(i int) string { return u(uint64(l[i].Type)) + "," + hx(l[i].Hash[:]) })
}

func b01(b bool) string {
	if b {
		return "1"
	}
	return "0"
}

func dump(m any, pver uint32) string {
	switch v := m.(type) {
	case *wire.BlockHeader:
		return dumpHeader(v)
	case *wire.MsgTx:
		return dumpTx(v)
	case *wire.MsgBlock:
		return dumpHeader(&v.Header) + "," + list(len(v.Transactions), func(i int) string { return dumpTx(v.Transactions[i]) })
	case *wire.MsgInv:
		return dumpInv(v.InvList)
	case *wire.MsgGetData:
		return dumpInv(v.InvList)
	case *wire.MsgNotFound:
		return dumpInv(v.InvList)
	case *wire.MsgHeaders:
		return list(len(v.Headers), func(i int) string { return dumpHeader(v.Headers[i]) })
	case *wire.MsgGetBlocks:
		return u(uint64(v.ProtocolVersion)) + "," + hashes(v.BlockLocatorHashes) + "," + hx(v.HashStop[:])
	case *wire.MsgGetHeaders:
		return u(uint64(v.ProtocolVersion)) + "," + hashes(v.BlockLocatorHashes) + "," + hx(v.HashStop[:])
	case *wire.MsgAddr:
		return list(len(v.AddrList), func(i int) string { return dumpNA(v.AddrList[i], true) })
	case *wire.MsgAddrV2:
		return list(len(v.AddrList), func(i int) string {
			na := v.AddrList[i]
			id, a := wire.VerifAddrV2Parts(na)
			return u(uint64(uint32(na.Timestamp.Unix()))) + "," + u(uint64(na.Services)) + "," + u(uint64(id)) + "," + hx(a) + "," + u(uint64(na.Port))
		})
	case *wire.MsgVersion:
		return strings.Join([]string{u(uint64(uint32(v.ProtocolVersion))), u(uint64(v.Services)),
			u(uint64(v.Timestamp.Unix())), dumpNA(&v.AddrYou, false), dumpNA(&v.AddrMe, false), u(v.Nonce),
			hx([]byte(v.UserAgent)), u(uint64(uint32(v.LastBlock))), b01(!v.DisableRelayTx)}, ",")
	case *wire.MsgPing:
		return u(v.Nonce)
	case *wire.MsgPong:
		return u(v.Nonce)
	case *wire.MsgReject:
		h := "-"
		if v.Cmd == wire.CmdBlock || v.Cmd == wire.CmdTx {
			h = hx(v.Hash[:])
		}
		return hx([]byte(v.Cmd)) + "," + u(uint64(v.Code)) + "," + hx([]byte(v.Reason)) + "," + h
	case *wire.MsgFeeFilter:
		return u(uint64(v.MinFee))
	case *wire.MsgFilterLoad:
		return hx(v.Filter) + "," + u(uint64(v.HashFuncs)) + "," + u(uint64(v.Tweak)) + "," + u(uint64(v.Flags))
	case *wire.MsgFilterAdd:
		return hx(v.Data)
	case *wire.MsgMerkleBlock:
		return dumpHeader(&v.Header) + "," + u(uint64(v.Transactions)) + "," + hashes(v.Hashes) + "," + hx(v.Flags)
	case *wire.MsgCFilter:
		return u(uint64(v.FilterType)) + "," + hx(v.BlockHash[:]) + "," + hx(v.Data)
	case *wire.MsgCFHeaders:
		return u(uint64(v.FilterType)) + "," + hx(v.StopHash[:]) + "," + hx(v.PrevFilterHeader[:]) + "," + hashes(v.FilterHashes)
	case *wire.MsgCFCheckpt:
		return u(uint64(v.FilterType)) + "," + hx(v.StopHash[:]) + "," + hashes(v.FilterHeaders)
	case *wire.MsgGetCFilters:
		return u(uint64(v.FilterType)) + "," + u(uint64(v.StartHeight)) + "," + hx(v.StopHash[:])
	case *wire.MsgGetCFHeaders:
		return u(uint64(v.FilterType)) + "," + u(uint64(v.StartHeight)) + "," + hx(v.StopHash[:])
	case *wire.MsgGetCFCheckpt:
		return u(uint64(v.FilterType)) + "," + hx(v.StopHash[:])
	case *wire.MsgVerAck, *wire.MsgGetAddr, *wire.MsgMemPool, *wire.MsgFilterClear, *wire.MsgSendHeaders,
		*wire.MsgSendAddrV2, *wire.MsgWTxIdRelay:
		return "u"
	}
	panic(fmt.Sprintf("dump: unhandled %T", m))
}

func extra(m any) string {
	switch v := m.(type) {
	case *wire.MsgTx:
		id, wid := v.TxHash(), v.WitnessHash()
		return fmt.Sprintf(" size=%d/%d txid=%s wtxid=%s", v.SerializeSize(), v.SerializeSizeStripped(), hex.EncodeToString(id[:]), hex.EncodeToString(wid[:]))
	case *wire.MsgBlock:
		h := v.BlockHash()
		var sb strings.Builder
		ths, _ := v.TxHashes()
		for _, t := range ths {
			sb.WriteString(hex.EncodeToString(t[:]))
		}
		return fmt.Sprintf(" size=%d/%d hash=%s txids=%s", v.SerializeSize(), v.SerializeSizeStripped(), hex.EncodeToString(h[:]), sb.String())
	}
	return ""
}

// ---------------------------------------------------------------- exec (real code)

func emptyOf(kind string) (any, uint32, bool) {
	if kind == "header" {
		return &wire.BlockHeader{}, 80, true
	}
	if kind == wire.CmdWTxIdRelay {
		// a wire.Message that WriteMessage emits but makeEmptyMessage does not know (F-C08-c)
		return &wire.MsgWTxIdRelay{}, 0, true
	}
	m, err := wire.VerifMakeEmptyMessage(kind)
	if err != nil {
		return nil, 0, false
	}
	return m, 0, true
}

var allocSample = []metrics.Sample{{Name: "/gc/heap/allocs:bytes"}}

func heapAllocs() uint64 {
	metrics.Read(allocSample)
	return allocSample[0].Value.Uint64()
}

// measure returns the bytes allocated on the Go heap while f runs (cumulative allocation counter of
// the runtime, the same quantity as runtime.MemStats.TotalAlloc, read without stopping the world).
func measure(f func()) uint64 {
	a := heapAllocs()
	f()
	return heapAllocs() - a
}

func allocTok(n uint64) string {
	if n <= AllocK*wire.MaxMessagePayload {
		return " a=ok"
	}
	return fmt.Sprintf(" a=EXCESS(%d)", n)
}

func parseEnc(s string) wire.MessageEncoding {
	if s == "w" {
		return wire.WitnessEncoding
	}
	return wire.BaseEncoding
}

func canonTok(same bool) string {
	if same {
		return "canon=1"
	}
	return "canon=0"
}

func mustHex(s string) []byte {
	if s == "-" {
		return nil
	}
	b, err := hex.DecodeString(s)
	if err != nil {
		panic(err)
	}
	return b
}

// Exec runs one case with a watchdog: a case that panics answers "panic", one that does not come back within
// two minutes answers "timeout" (the goroutine is abandoned); either disagrees with the model's answer.
func (p P) Exec(line string) string {
	ch := make(chan string, 1)
	go func() {
		defer func() {
			if r := recover(); r != nil {
				ch <- "panic"
			}
		}()
		ch <- p.exec(line)
	}()
	select {
	case s := <-ch:
		return s
	case <-time.After(2 * time.Minute):
		return "timeout"
	}
}

func (P) exec(line string) string {
	f := strings.Fields(line)
	if len(f) < 2 || f[0] != "C08" {
		return "bad-op"
	}
	switch f[1] {
	case "varint":
		b := mustHex(f[2])
		r := bytes.NewReader(b)
		v, err := wire.ReadVarInt(r, 0)
		if err != nil {
			return "err"
		}
		var w bytes.Buffer
		wire.WriteVarInt(&w, 0, v)
		return fmt.Sprintf("ok %d %s %s %d", v, hx(b[len(b)-r.Len():]), hex.EncodeToString(w.Bytes()), wire.VarIntSerializeSize(v))
	case "wvarint":
		v, _ := strconv.ParseUint(f[2], 10, 64)
		var w bytes.Buffer
		wire.WriteVarInt(&w, 0, v)
		return fmt.Sprintf("%s %d", hex.EncodeToString(w.Bytes()), wire.VarIntSerializeSize(v))
	case "dec":
		kind := f[2]
		pv, _ := strconv.ParseUint(f[3], 10, 32)
		pver := uint32(pv)
		enc := parseEnc(f[4])
		b := mustHex(f[5])
		m, mpl, ok := emptyOf(kind)
		if !ok {
			return "bad-op"
		}
		buf := bytes.NewBuffer(b)
		var err error
		al := measure(func() {
			switch v := m.(type) {
			case *wire.BlockHeader:
				err = v.BtcDecode(buf, pver, enc)
			case wire.Message:
				err = v.BtcDecode(buf, pver, enc)
			}
		})
		if err != nil {
			return "err" + allocTok(al)
		}
		var w bytes.Buffer
		switch v := m.(type) {
		case *wire.BlockHeader:
			err = v.BtcEncode(&w, pver, enc)
		case wire.Message:
			err = v.BtcEncode(&w, pver, enc)
			mpl = v.MaxPayloadLength(pver)
		}
		re := "reenc-err"
		same := false
		if err == nil {
			re = hx(w.Bytes())
			same = bytes.Equal(w.Bytes(), b[:len(b)-buf.Len()])
		}
		return fmt.Sprintf("ok %s %s %d mpl=%d %s", dump(m, pver), re, buf.Len(), mpl, canonTok(same)) + allocTok(al) + extra(m)
	case "msg":
		pv, _ := strconv.ParseUint(f[2], 10, 32)
		pver := uint32(pv)
		nt, _ := strconv.ParseUint(f[3], 10, 32)
		net := wire.BitcoinNet(nt)
		enc := parseEnc(f[4])
		b := mustHex(f[5])
		rd := bytes.NewReader(b)
		var m wire.Message
		var err error
		al := measure(func() { _, m, _, err = wire.ReadMessageWithEncodingN(rd, pver, net, enc) })
		if err != nil {
			return "err" + allocTok(al)
		}
		var w bytes.Buffer
		_, err = wire.WriteMessageWithEncodingN(&w, m, pver, net, enc)
		re := "reenc-err"
		same := false
		if err == nil {
			re = hx(w.Bytes())
			same = bytes.Equal(w.Bytes(), b[:len(b)-rd.Len()])
		}
		return fmt.Sprintf("ok %s %s %s %d %s", m.Command(), dump(m, pver), re, rd.Len(), canonTok(same)) + allocTok(al)
	case "varstr":
		b := mustHex(f[2])
		rd := bytes.NewReader(b)
		str, err := wire.ReadVarString(rd, 0)
		if err != nil {
			return "err"
		}
		var w bytes.Buffer
		wire.WriteVarString(&w, 0, str)
		return fmt.Sprintf("ok %s %s %d", hx([]byte(str)), hx(w.Bytes()), rd.Len())
	case "varbytes":
		mx, _ := strconv.ParseUint(f[2], 10, 32)
		b := mustHex(f[3])
		rd := bytes.NewReader(b)
		v, err := wire.ReadVarBytes(rd, 0, uint32(mx), "x")
		if err != nil {
			return "err"
		}
		var w bytes.Buffer
		wire.WriteVarBytes(&w, 0, v)
		return fmt.Sprintf("ok %s %s %d", hx(v), hx(w.Bytes()), rd.Len())
	case "txout":
		b := mustHex(f[2])
		rd := bytes.NewReader(b)
		var to wire.TxOut
		if err := wire.ReadTxOut(rd, 0, 1, &to); err != nil {
			return "err"
		}
		var w bytes.Buffer
		wire.WriteTxOut(&w, 0, 1, &to)
		if w.Len() != to.SerializeSize() {
			return "size-differs"
		}
		return fmt.Sprintf("ok %d,%s %s %d", uint64(to.Value), hx(to.PkScript), hx(w.Bytes()), rd.Len())
	case "outpoint":
		var h chainhash.Hash
		copy(h[:], mustHex(f[2]))
		i, _ := strconv.ParseUint(f[3], 10, 32)
		var w bytes.Buffer
		wire.WriteOutPoint(&w, 0, 1, wire.NewOutPoint(&h, uint32(i)))
		return hex.EncodeToString(w.Bytes())
	case "addcap":
		return execAddCap(f[2])
	case "fromv2":
		port, _ := strconv.ParseUint(f[3], 10, 16)
		na := wire.NetAddressV2FromBytes(time.Unix(1231006505, 0), wire.ServiceFlag(1033), mustHex(f[2]), uint16(port))
		m := wire.NewMsgAddrV2()
		m.AddrList = append(m.AddrList, na)
		var w bytes.Buffer
		if err := m.BtcEncode(&w, wire.ProtocolVersion, wire.BaseEncoding); err != nil {
			return "err"
		}
		return hex.EncodeToString(w.Bytes())
	case "mktx":
		return execMkTx(f)
	case "reuse":
		return execReuse(f)
	case "v2":
		return execV2(f)
	case "api":
		return execAPI(f)
	case "txapi":
		return execTxAPI(mustHex(f[2]))
	case "blkapi":
		return execBlkAPI(mustHex(f[2]))
	case "multi":
		return execMulti(f[2], strings.Split(f[3], "|"))
	case "blk":
		return execBlk(f[2], mustHex(f[3]), strings.Split(f[4], ","))
	case "utx":
		return execUtx(f[2], mustHex(f[3]), strings.Split(f[4], ","))
	case "encrefused":
		return "refused"
	case "gencrash":
		return "generator-crashed"
	case "txbytes":
		t, err := btcutil.NewTxFromBytes(mustHex(f[2]))
		if err != nil {
			return "err"
		}
		m := t.MsgTx()
		// the cached identifiers of btcutil.Tx must agree with the wire ones
		if *t.Hash() != m.TxHash() || *t.WitnessHash() != m.WitnessHash() {
			return "id-mismatch"
		}
		return "ok" + extra(m)
	case "blockbytes":
		raw := mustHex(f[2])
		bl, err := btcutil.NewBlockFromBytes(raw)
		if err != nil {
			return "err"
		}
		m := bl.MsgBlock()
		if *bl.Hash() != m.BlockHash() {
			return "id-mismatch"
		}
		for i, t := range bl.Transactions() {
			if *t.Hash() != m.Transactions[i].TxHash() {
				return "id-mismatch"
			}
		}
		again, err := bl.Bytes()
		if err != nil || !bytes.Equal(again, raw) {
			return "bytes-mismatch"
		}
		return "ok" + extra(m)
	}
	return "bad-op"
}

// ClassifyMismatch: the two tolerant decoders (see meta/C08.findings.json).
func (P) ClassifyMismatch(line, goOut, leanOut string) string {
	f := strings.Fields(line)
	if len(f) < 3 {
		return ""
	}
	kind := ""
	if f[1] == "dec" {
		kind = f[2]
	} else if f[1] == "msg" {
		g := strings.Fields(goOut)
		if len(g) > 1 {
			kind = g[1]
		}
	}
	if f[1] == "v2" {
		g := strings.Fields(goOut)
		if len(g) > 1 {
			kind = g[1]
		}
		if strings.HasPrefix(goOut, "err") && strings.HasPrefix(leanOut, "ok wtxidrelay u ") {
			return "F-C08-c"
		}
		// the 12-byte form of a command that owns a short id is accepted and re-written in the short form
		if strings.HasPrefix(f[4], "00") && kind != "version" && kind != "addrv2" &&
			strings.Contains(goOut, " canon=0") && strings.Replace(goOut, " canon=0", " canon=1", 1) == leanOut {
			if ids, cmds := wire.VerifV2Table(); len(ids) > 0 {
				for _, c := range cmds {
					if c == kind {
						return "F-C08-f"
					}
				}
			}
		}
	}
	if f[1] == "api" {
		g := strings.Fields(goOut)
		if len(g) > 1 {
			kind = g[1]
		}
		if strings.HasPrefix(goOut, "err") && strings.HasPrefix(leanOut, "ok wtxidrelay u ") {
			return "F-C08-c"
		}
	}
	// wtxidrelay can be written but not read back by ReadMessage
	if f[1] == "msg" && strings.HasPrefix(goOut, "err") && strings.HasPrefix(leanOut, "ok wtxidrelay u ") {
		return "F-C08-c"
	}
	// the only difference allowed: Go observed canon=0 where the specification demands canon=1
	if !strings.Contains(goOut, " canon=0") || strings.Replace(goOut, " canon=0", " canon=1", 1) != leanOut {
		return ""
	}
	switch kind {
	case "version":
		return "F-C08-a"
	case "addrv2":
		return "F-C08-b"
	}
	return ""
}

// ---------------------------------------------------------------- accessor sequences on btcutil.Block / btcutil.Tx

func txObs(t *btcutil.Tx) string {
	h, w := t.Hash(), t.WitnessHash()
	return fmt.Sprintf("%s:%s:%s:%d", hex.EncodeToString(h[:]), hex.EncodeToString(w[:]), b01(t.HasWitness()), t.Index())
}

func execBlk(ctor string, raw []byte, ops []string) string {
	var bl *btcutil.Block
	switch ctor {
	case "bytes":
		b, err := btcutil.NewBlockFromBytes(raw)
		if err != nil {
			return "err"
		}
		bl = b
	case "reader":
		rd := bytes.NewReader(raw)
		b, err := btcutil.NewBlockFromReader(rd)
		if err != nil || rd.Len() > 0 {
			return "err"
		}
		bl = b
	case "new", "blockandbytes":
		var m wire.MsgBlock
		rd := bytes.NewReader(raw)
		if err := m.Deserialize(rd); err != nil || rd.Len() > 0 {
			return "err"
		}
		if ctor == "new" {
			bl = btcutil.NewBlock(&m)
		} else {
			bl = btcutil.NewBlockFromBlockAndBytes(&m, append([]byte{}, raw...))
		}
	default:
		return "bad-op"
	}
	var out []string
	for _, op := range ops {
		switch {
		case op == "B":
			b, err := bl.Bytes()
			if err != nil {
				out = append(out, "B=err")
			} else {
				out = append(out, "B="+hex.EncodeToString(b))
			}
		case op == "N":
			b, err := bl.BytesNoWitness()
			if err != nil {
				out = append(out, "N=err")
			} else {
				out = append(out, "N="+hex.EncodeToString(b))
			}
		case op == "H":
			h := bl.Hash()
			out = append(out, "H="+hex.EncodeToString(h[:]))
		case op == "G":
			if bl.Height() == btcutil.BlockHeightUnknown {
				out = append(out, "G=unknown")
			} else {
				out = append(out, fmt.Sprintf("G=%d", bl.Height()))
			}
		case op == "L":
			locs, err := bl.TxLoc()
			if err != nil {
				out = append(out, "L=err")
				break
			}
			out = append(out, "L="+strings.Join(mapStr(len(locs), func(i int) string { return fmt.Sprintf("%d:%d", locs[i].TxStart, locs[i].TxLen) }), ";"))
		case op == "T":
			txs := bl.Transactions()
			out = append(out, "T="+strings.Join(mapStr(len(txs), func(i int) string { return txObs(txs[i]) }), ";"))
		case strings.HasPrefix(op, "S"):
			n, _ := strconv.ParseInt(op[1:], 10, 32)
			bl.SetHeight(int32(n))
			out = append(out, op)
		case strings.HasPrefix(op, "t"):
			i, _ := strconv.Atoi(op[1:])
			t, err := bl.Tx(i)
			if err != nil {
				out = append(out, op+"=oor")
			} else {
				out = append(out, op+"="+txObs(t))
			}
		case strings.HasPrefix(op, "h"):
			i, _ := strconv.Atoi(op[1:])
			h, err := bl.TxHash(i)
			if err != nil {
				out = append(out, op+"=oor")
			} else {
				out = append(out, op+"="+hex.EncodeToString(h[:]))
			}
		default:
			out = append(out, "bad-op")
		}
	}
	return strings.Join(out, "|")
}

func mapStr(n int, f func(int) string) []string {
	o := make([]string, n)
	for i := range o {
		o[i] = f(i)
	}
	return o
}

func execUtx(ctor string, raw []byte, ops []string) string {
	var t *btcutil.Tx
	switch ctor {
	case "bytes":
		x, err := btcutil.NewTxFromBytes(raw)
		if err != nil {
			return "err"
		}
		t = x
	case "reader":
		rd := bytes.NewReader(raw)
		x, err := btcutil.NewTxFromReader(rd)
		if err != nil || rd.Len() > 0 {
			return "err"
		}
		t = x
	case "new":
		var m wire.MsgTx
		rd := bytes.NewReader(raw)
		if err := m.Deserialize(rd); err != nil || rd.Len() > 0 {
			return "err"
		}
		t = btcutil.NewTx(&m)
	default:
		return "bad-op"
	}
	var out []string
	for _, op := range ops {
		switch {
		case op == "H":
			h := t.Hash()
			out = append(out, "H="+hex.EncodeToString(h[:]))
		case op == "W":
			h := t.WitnessHash()
			out = append(out, "W="+hex.EncodeToString(h[:]))
		case op == "X":
			out = append(out, "X="+b01(t.HasWitness()))
		case op == "I":
			if t.Index() == btcutil.TxIndexUnknown {
				out = append(out, "I=unknown")
			} else {
				out = append(out, fmt.Sprintf("I=%d", t.Index()))
			}
		case op == "M":
			var w bytes.Buffer
			if err := t.MsgTx().Serialize(&w); err != nil {
				out = append(out, "M=err")
			} else {
				out = append(out, "M="+hex.EncodeToString(w.Bytes()))
			}
		case strings.HasPrefix(op, "S"):
			n, _ := strconv.Atoi(op[1:])
			t.SetIndex(n)
			out = append(out, op)
		default:
			out = append(out, "bad-op")
		}
	}
	return strings.Join(out, "|")
}

// ---------------------------------------------------------------- v2 framing, entry-point agreement, helper APIs

func execV2(f []string) string {
	pv, _ := strconv.ParseUint(f[2], 10, 32)
	enc := parseEnc(f[3])
	b := mustHex(f[4])
	in := append([]byte{}, b...)
	m, payload, err := wire.ReadV2MessageN(in, uint32(pv), enc)
	if err != nil {
		return "err"
	}
	if !bytes.Equal(in, b) {
		return "input-mutated"
	}
	var w bytes.Buffer
	n, err := wire.WriteV2MessageN(&w, m, uint32(pv), enc)
	re, same := "reenc-err", false
	if err == nil {
		if n != w.Len() {
			return "written-count-wrong"
		}
		re = hx(w.Bytes())
		same = bytes.Equal(w.Bytes(), b)
		// the returned payload is the message's encoding
		if !bytes.HasSuffix(b, payload) {
			return "payload-not-suffix"
		}
	}
	return fmt.Sprintf("ok %s %s %s %s", m.Command(), dump(m, uint32(pv)), re, canonTok(same))
}

type readRes struct {
	n       int
	msg     wire.Message
	payload []byte
	err     error
}

func sameRead(a, b readRes, pver uint32) bool {
	if (a.err == nil) != (b.err == nil) {
		return false
	}
	if a.err != nil {
		return true
	}
	return a.n == b.n && a.msg.Command() == b.msg.Command() && dump(a.msg, pver) == dump(b.msg, pver) && bytes.Equal(a.payload, b.payload)
}

func execAPI(f []string) string {
	pv, _ := strconv.ParseUint(f[2], 10, 32)
	pver := uint32(pv)
	nt, _ := strconv.ParseUint(f[3], 10, 32)
	net := wire.BitcoinNet(nt)
	b := mustHex(f[4])
	var prim readRes
	rd := bytes.NewReader(b)
	prim.n, prim.msg, prim.payload, prim.err = wire.ReadMessageWithEncodingN(rd, pver, net, wire.BaseEncoding)
	rest := rd.Len()
	agree := true
	{
		var r readRes
		r.n, r.msg, r.payload, r.err = wire.ReadMessageN(bytes.NewReader(b), pver, net)
		agree = agree && sameRead(prim, r, pver)
		r = readRes{n: prim.n}
		r.msg, r.payload, r.err = wire.ReadMessage(bytes.NewReader(b), pver, net)
		agree = agree && sameRead(prim, r, pver)
		// the adversarial but legal transport: one byte per Read, data together with EOF, half reads
		for _, wrap := range []func(io.Reader) io.Reader{iotest.OneByteReader, iotest.DataErrReader, iotest.HalfReader} {
			var r3 readRes
			r3.n, r3.msg, r3.payload, r3.err = wire.ReadMessageWithEncodingN(wrap(bytes.NewReader(b)), pver, net, wire.BaseEncoding)
			agree = agree && sameRead(prim, r3, pver)
		}
		if len(b) >= 16 {
			rd2 := bytes.NewReader(b[16:])
			var r2 readRes
			r2.n, r2.msg, r2.payload, r2.err = wire.ReadPartialMessageWithEncodingN(rd2, pver, net, wire.BaseEncoding, b[:16])
			if prim.err == nil {
				// ReadPartial counts the header as read in full
				r2.n = r2.n + 0
				agree = agree && r2.err == nil && r2.msg.Command() == prim.msg.Command() && dump(r2.msg, pver) == dump(prim.msg, pver) && bytes.Equal(r2.payload, prim.payload) && rd2.Len() == rest
			} else {
				agree = agree && r2.err != nil
			}
		}
	}
	if prim.err != nil {
		if !agree {
			return "err api=DISAGREE"
		}
		return "err a=ok api=agree"
	}
	var w1, w2, w3 bytes.Buffer
	n1, e1 := wire.WriteMessageWithEncodingN(&w1, prim.msg, pver, net, wire.BaseEncoding)
	n2, e2 := wire.WriteMessageN(&w2, prim.msg, pver, net)
	e3 := wire.WriteMessage(&w3, prim.msg, pver, net)
	if (e1 == nil) != (e2 == nil) || (e1 == nil) != (e3 == nil) || n1 != n2 || !bytes.Equal(w1.Bytes(), w2.Bytes()) || !bytes.Equal(w1.Bytes(), w3.Bytes()) || (e1 == nil && n1 != w1.Len()) {
		agree = false
	}
	re, same := "reenc-err", false
	if e1 == nil {
		re = hx(w1.Bytes())
		same = bytes.Equal(w1.Bytes(), b[:len(b)-rest])
	}
	a := "agree"
	if !agree {
		a = "DISAGREE"
	}
	return fmt.Sprintf("ok %s %s %s %d %s a=ok api=%s", prim.msg.Command(), dump(prim.msg, pver), re, rest, canonTok(same), a)
}

func intList(l []int) string {
	if len(l) == 0 {
		return "-"
	}
	s := make([]string, len(l))
	for i, v := range l {
		s[i] = strconv.Itoa(v)
	}
	return strings.Join(s, ",")
}

// scribble overwrites every byte a transaction owns (scripts, witness items, hashes).
func scribble(t *wire.MsgTx) {
	for _, in := range t.TxIn {
		for i := range in.SignatureScript {
			in.SignatureScript[i] ^= 0xa5
		}
		for _, w := range in.Witness {
			for i := range w {
				w[i] ^= 0xa5
			}
		}
		in.PreviousOutPoint.Hash[0] ^= 0xa5
		in.PreviousOutPoint.Index ^= 1
		in.Sequence ^= 1
	}
	for _, o := range t.TxOut {
		for i := range o.PkScript {
			o.PkScript[i] ^= 0xa5
		}
		o.Value ^= 1
	}
	t.Version ^= 1
	t.LockTime ^= 1
}

func serTx(t *wire.MsgTx) []byte {
	var w bytes.Buffer
	t.Serialize(&w)
	return w.Bytes()
}

func execTxAPI(raw []byte) string {
	var t wire.MsgTx
	rd := bytes.NewReader(raw)
	if err := t.Deserialize(rd); err != nil || rd.Len() > 0 {
		return "err"
	}
	orig := serTx(&t)
	var nw bytes.Buffer
	if err := t.SerializeNoWitness(&nw); err != nil {
		return "nw-err"
	}
	dnw := "ok"
	{
		var t2 wire.MsgTx
		r2 := bytes.NewReader(nw.Bytes())
		var again bytes.Buffer
		if err := t2.DeserializeNoWitness(r2); err != nil || r2.Len() > 0 {
			dnw = "err"
		} else if t2.SerializeNoWitness(&again); !bytes.Equal(again.Bytes(), nw.Bytes()) || t2.TxHash() != t.TxHash() {
			dnw = "differs"
		}
	}
	locs := intList(t.PkScriptLocs())
	cp := t.Copy()
	cplocs := intList(cp.PkScriptLocs())
	copyTok := "deep"
	if !bytes.Equal(serTx(cp), orig) || cp.TxHash() != t.TxHash() || cp.WitnessHash() != t.WitnessHash() {
		copyTok = "differs"
	} else {
		scribble(cp)
		if !bytes.Equal(serTx(&t), orig) {
			copyTok = "shallow"
		}
	}
	// decoded scripts share one backing array: growing one must not run into its neighbour
	alias := "none"
	for _, in := range t.TxIn {
		_ = append(in.SignatureScript, 0xaa, 0xbb)
		for _, w := range in.Witness {
			_ = append(w, 0xaa, 0xbb)
		}
	}
	for _, o := range t.TxOut {
		_ = append(o.PkScript, 0xaa, 0xbb)
	}
	if !bytes.Equal(serTx(&t), orig) {
		alias = "clobbered"
	}
	si, so, sw := 0, 0, 0
	for _, in := range t.TxIn {
		si += in.SerializeSize()
		sw += in.Witness.SerializeSize()
	}
	for _, o := range t.TxOut {
		so += o.SerializeSize()
	}
	return fmt.Sprintf("ok nw=%s ss=%d dnw=%s locs=%s cplocs=%s copy=%s txid=%s alias=%s sz=%d/%d/%d",
		hex.EncodeToString(nw.Bytes()), t.SerializeSizeStripped(), dnw, locs, cplocs, copyTok, t.TxID(), alias, si, so, sw)
}

func execBlkAPI(raw []byte) string {
	var b wire.MsgBlock
	rd := bytes.NewReader(raw)
	if err := b.Deserialize(rd); err != nil || rd.Len() > 0 {
		return "err"
	}
	ser := func(m *wire.MsgBlock) []byte {
		var w bytes.Buffer
		m.Serialize(&w)
		return w.Bytes()
	}
	orig := ser(&b)
	var nw bytes.Buffer
	if err := b.SerializeNoWitness(&nw); err != nil {
		return "nw-err"
	}
	dnw := "ok"
	{
		var b2 wire.MsgBlock
		r2 := bytes.NewReader(nw.Bytes())
		var again bytes.Buffer
		if err := b2.DeserializeNoWitness(r2); err != nil || r2.Len() > 0 {
			dnw = "err"
		} else if b2.SerializeNoWitness(&again); !bytes.Equal(again.Bytes(), nw.Bytes()) || b2.BlockHash() != b.BlockHash() {
			dnw = "differs"
		}
	}
	var b3 wire.MsgBlock
	locs, err := b3.DeserializeTxLoc(bytes.NewBuffer(append([]byte{}, raw...)))
	ls := "err"
	if err == nil {
		ls = strings.Join(mapStr(len(locs), func(i int) string { return fmt.Sprintf("%d:%d", locs[i].TxStart, locs[i].TxLen) }), ";")
		if !bytes.Equal(ser(&b3), orig) {
			ls = "txloc-decode-differs"
		}
	}
	h := b.BlockHash()
	ths, _ := b.TxHashes()
	var sb strings.Builder
	for _, t := range ths {
		sb.WriteString(hex.EncodeToString(t[:]))
	}
	cp := b.Copy()
	copyTok := "deep"
	if !bytes.Equal(ser(cp), orig) {
		copyTok = "differs"
	} else {
		for _, t := range cp.Transactions {
			scribble(t)
		}
		cp.Header.Nonce ^= 1
		cp.Header.PrevBlock[0] ^= 1
		if !bytes.Equal(ser(&b), orig) {
			copyTok = "shallow"
		}
	}
	txs := b.Transactions
	b.ClearTransactions()
	clear := hex.EncodeToString(ser(&b))
	for _, t := range txs {
		b.AddTransaction(t)
	}
	add := "same"
	if !bytes.Equal(ser(&b), orig) {
		add = "differs"
	}
	nwh := chainhash.DoubleHashB(nw.Bytes())
	return fmt.Sprintf("ok nwlen=%d nwh=%s ss=%d dnw=%s locs=%s hash=%s txh=%s copy=%s clear=%s add=%s",
		nw.Len(), hex.EncodeToString(nwh), b.SerializeSizeStripped(), dnw, ls, hex.EncodeToString(h[:]), sb.String(), copyTok, clear, add)
}

// decQ is the dec op without the allocation verdict (used where several decodes overlap).
func decQ(sub string, cheap *bool) func() string {
	p := strings.Split(sub, "/")
	if len(p) != 4 {
		return func() string { return "bad-op" }
	}
	kind := p[0]
	pv, _ := strconv.ParseUint(p[1], 10, 32)
	pver := uint32(pv)
	enc := parseEnc(p[2])
	b := mustHex(p[3])
	m, _, ok := emptyOf(kind)
	if !ok {
		return func() string { return "bad-op" }
	}
	buf := bytes.NewBuffer(append([]byte{}, b...))
	var err error
	switch v := m.(type) {
	case *wire.BlockHeader:
		err = v.BtcDecode(buf, pver, enc)
	case wire.Message:
		err = v.BtcDecode(buf, pver, enc)
	}
	rest := buf.Len()
	// the observation is taken later, by the caller
	return func() string {
		if err != nil {
			return "err"
		}
		var w bytes.Buffer
		var e2 error
		switch v := m.(type) {
		case *wire.BlockHeader:
			e2 = v.BtcEncode(&w, pver, enc)
		case wire.Message:
			e2 = v.BtcEncode(&w, pver, enc)
		}
		re := "reenc-err"
		if e2 == nil {
			re = hx(w.Bytes())
		}
		if cheap != nil && *cheap {
			return re
		}
		return fmt.Sprintf("ok %s %s %d", dump(m, pver), re, rest) + extra(m)
	}
}

// execMulti: mode "s" decodes every sub-case first and observes all results afterwards (a result must not be
// disturbed by later decodes: script pool, free lists); mode "c" runs the sub-cases in concurrent goroutines,
// three times each at staggered starts.
func execMulti(mode string, subs []string) string {
	out := make([]string, len(subs))
	if mode == "s" {
		obs := make([]func() string, len(subs))
		for i, s := range subs {
			obs[i] = decQ(s, nil)
		}
		for i := len(subs) - 1; i >= 0; i-- {
			out[i] = obs[i]()
		}
		return strings.Join(out, "#")
	}
	var wg sync.WaitGroup
	for i, s := range subs {
		wg.Add(1)
		go func(i int, s string) {
			defer wg.Done()
			defer func() {
				if r := recover(); r != nil {
					out[i] = "panic"
				}
			}()
			first := decQ(s, nil)()
			reps := 3 + i%3
			if len(s) < 700 {
				reps = 20000 // small messages: many overlapping uses of the shared scratch-buffer free list
			}
			cheap := true
			want := decQ(s, &cheap)()
			if bad := framedLoop(s); bad != "" {
				first = bad
			}
			for k := 0; k < reps; k++ {
				o := decQ(s, &cheap)
				if k%64 == 0 {
					runtime.Gosched()
				}
				if o() != want {
					first = "unstable"
					break
				}
			}
			out[i] = first
		}(i, s)
	}
	wg.Wait()
	return strings.Join(out, "#")
}

func execAddCap(kind string) string {
	var h chainhash.Hash
	n := 0
	try := func(limit int, add func() error) string {
		for i := 0; i < limit+3; i++ {
			if err := add(); err != nil {
				break
			}
			n++
		}
		return strconv.Itoa(n)
	}
	fin := func(res string, l int, m wire.Message) string {
		var w bytes.Buffer
		e := "enc-ok"
		if err := m.BtcEncode(&w, wire.ProtocolVersion, wire.BaseEncoding); err != nil {
			e = "enc-err"
		}
		return fmt.Sprintf("%s len=%d %s", res, l, e)
	}
	switch kind {
	case "inv":
		m := wire.NewMsgInv()
		res := try(wire.MaxInvPerMsg, func() error { return m.AddInvVect(wire.NewInvVect(wire.InvTypeTx, &h)) })
		return fin(res, len(m.InvList), m)
	case "getdata":
		m := wire.NewMsgGetData()
		return try(wire.MaxInvPerMsg, func() error { return m.AddInvVect(wire.NewInvVect(wire.InvTypeTx, &h)) })
	case "notfound":
		m := wire.NewMsgNotFound()
		return try(wire.MaxInvPerMsg, func() error { return m.AddInvVect(wire.NewInvVect(wire.InvTypeTx, &h)) })
	case "headers":
		m := wire.NewMsgHeaders()
		res := try(wire.MaxBlockHeadersPerMsg, func() error { return m.AddBlockHeader(&wire.BlockHeader{}) })
		return fin(res, len(m.Headers), m)
	case "getblocks":
		m := wire.NewMsgGetBlocks(&h)
		res := try(wire.MaxBlockLocatorsPerMsg, func() error { return m.AddBlockLocatorHash(&h) })
		return fin(res, len(m.BlockLocatorHashes), m)
	case "getheaders":
		m := wire.NewMsgGetHeaders()
		return try(wire.MaxBlockLocatorsPerMsg, func() error { return m.AddBlockLocatorHash(&h) })
	case "addr":
		m := wire.NewMsgAddr()
		res := try(wire.MaxAddrPerMsg, func() error { return m.AddAddress(&wire.NetAddress{}) })
		return fin(res, len(m.AddrList), m)
	case "cfheaders":
		m := wire.NewMsgCFHeaders()
		res := try(wire.MaxCFHeadersPerMsg, func() error { return m.AddCFHash(&h) })
		return fin(res, len(m.FilterHashes), m)
	case "merkleblock":
		m := wire.NewMsgMerkleBlock(&wire.BlockHeader{})
		return try(int(wire.VerifConstsC08()["maxTxPerBlock"]), func() error { return m.AddTxHash(&h) })
	}
	return "bad-op"
}

// ---------------------------------------------------------------- constructor-built values, reuse of one value

func shapeBytes(s string) []byte {
	switch s {
	case "n":
		return nil
	case "-":
		return []byte{}
	}
	return mustHex(s)
}

func execMkTx(f []string) string {
	ver, _ := strconv.ParseUint(f[2], 10, 32)
	lock, _ := strconv.ParseUint(f[3], 10, 32)
	t := &wire.MsgTx{Version: int32(uint32(ver)), LockTime: uint32(lock)}
	switch f[4] {
	case "n":
	case "e":
		t.TxIn = []*wire.TxIn{}
	default:
		for _, is := range strings.Split(f[4], ";") {
			p := strings.Split(is, ":")
			var h chainhash.Hash
			copy(h[:], mustHex(p[0]))
			idx, _ := strconv.ParseUint(p[1], 10, 32)
			seq, _ := strconv.ParseUint(p[3], 10, 32)
			in := &wire.TxIn{PreviousOutPoint: wire.OutPoint{Hash: h, Index: uint32(idx)}, SignatureScript: shapeBytes(p[2]), Sequence: uint32(seq)}
			switch p[4] {
			case "n":
			case "e":
				in.Witness = wire.TxWitness{}
			default:
				for _, it := range strings.Split(p[4], ".") {
					in.Witness = append(in.Witness, shapeBytes(it))
				}
			}
			t.TxIn = append(t.TxIn, in)
		}
	}
	switch f[5] {
	case "n":
	case "e":
		t.TxOut = []*wire.TxOut{}
	default:
		for _, os := range strings.Split(f[5], ";") {
			p := strings.Split(os, ":")
			v, _ := strconv.ParseUint(p[0], 10, 64)
			t.TxOut = append(t.TxOut, &wire.TxOut{Value: int64(v), PkScript: shapeBytes(p[1])})
		}
	}
	before := dumpTx(t)
	ser := serTx(t)
	var nw bytes.Buffer
	t.SerializeNoWitness(&nw)
	id, wid := t.TxHash(), t.WitnessHash()
	cp := "eq"
	if c := t.Copy(); !bytes.Equal(serTx(c), ser) || c.TxHash() != id || dumpTx(c) != before || intList(c.PkScriptLocs()) != intList(t.PkScriptLocs()) {
		cp = "differs"
	}
	util := "agree"
	u := btcutil.NewTx(t)
	if *u.Hash() != id || *u.WitnessHash() != wid || u.HasWitness() != t.HasWitness() || *u.Hash() != id {
		util = "DISAGREE"
	}
	rt := "err"
	var d wire.MsgTx
	rd := bytes.NewReader(ser)
	if err := d.Deserialize(rd); err == nil && rd.Len() == 0 {
		rt = "differs"
		if dumpTx(&d) == before {
			rt = "ok"
		}
	}
	if dumpTx(t) != before {
		return "input-mutated"
	}
	return fmt.Sprintf("ser=%s nw=%s size=%d/%d hw=%s locs=%s txid=%s wtxid=%s copy=%s util=%s rt=%s",
		hex.EncodeToString(ser), hex.EncodeToString(nw.Bytes()), t.SerializeSize(), t.SerializeSizeStripped(), b01(t.HasWitness()),
		intList(t.PkScriptLocs()), hex.EncodeToString(id[:]), hex.EncodeToString(wid[:]), cp, util, rt)
}

// execReuse: one decoded value is encoded again and again (both encodings, sequentially and from concurrent
// goroutines, with the size/hash accessors called in between); every result must be the same and the value and
// the input bytes must be unchanged afterwards.
func execReuse(f []string) string {
	kind := f[2]
	pv, _ := strconv.ParseUint(f[3], 10, 32)
	pver := uint32(pv)
	b := mustHex(f[4])
	in := append([]byte{}, b...)
	mm, _, ok := emptyOf(kind)
	if !ok {
		return "bad-op"
	}
	dec := wire.BaseEncoding
	if kind == "tx" || kind == "block" {
		dec = wire.WitnessEncoding
	}
	buf := bytes.NewBuffer(in)
	var err error
	switch v := mm.(type) {
	case *wire.BlockHeader:
		err = v.BtcDecode(buf, pver, dec)
	case wire.Message:
		err = v.BtcDecode(buf, pver, dec)
	}
	if err != nil {
		return "err"
	}
	rest := buf.Len()
	encode := func(e wire.MessageEncoding) string {
		var w bytes.Buffer
		var err error
		switch v := mm.(type) {
		case *wire.BlockHeader:
			err = v.BtcEncode(&w, pver, e)
		case wire.Message:
			err = v.BtcEncode(&w, pver, e)
		}
		if err != nil {
			return "err"
		}
		return hx(w.Bytes())
	}
	d0 := dump(mm, pver)
	w0, b0 := encode(wire.WitnessEncoding), encode(wire.BaseEncoding)
	stable := "stable"
	touch := func() {
		switch v := mm.(type) {
		case *wire.MsgTx:
			_ = v.SerializeSize()
			_ = v.TxHash()
			_ = v.PkScriptLocs()
		case *wire.MsgBlock:
			_ = v.SerializeSizeStripped()
			_ = v.BlockHash()
			_, _ = v.TxHashes()
		}
	}
	for k := 0; k < 3; k++ {
		touch()
		if encode(wire.BaseEncoding) != b0 || encode(wire.WitnessEncoding) != w0 {
			stable = "unstable-seq"
		}
	}
	var wg sync.WaitGroup
	bad := make([]bool, 8)
	for g := 0; g < 8; g++ {
		wg.Add(1)
		go func(g int) {
			defer wg.Done()
			for k := 0; k < 20; k++ {
				touch()
				e, want := wire.BaseEncoding, b0
				if (g+k)%2 == 0 {
					e, want = wire.WitnessEncoding, w0
				}
				if encode(e) != want {
					bad[g] = true
				}
			}
		}(g)
	}
	wg.Wait()
	for _, x := range bad {
		if x {
			stable = "unstable-conc"
		}
	}
	if dump(mm, pver) != d0 {
		stable = "value-mutated"
	}
	if !bytes.Equal(in[:len(b)], b) {
		stable = "input-mutated"
	}
	return fmt.Sprintf("ok %s w=%s b=%s %d %s", d0, w0, b0, rest, stable)
}

// framedLoop: one message value written and read back through WriteMessageWithEncodingN / ReadMessageWithEncodingN
// many times by this goroutine while the others do the same with their own values.
func framedLoop(sub string) string {
	p := strings.Split(sub, "/")
	if len(p) != 4 || p[0] == "header" || len(p[3]) > 700 {
		return ""
	}
	pv, _ := strconv.ParseUint(p[1], 10, 32)
	pver := uint32(pv)
	enc := parseEnc(p[2])
	m, _, ok := emptyOf(p[0])
	if !ok {
		return ""
	}
	msg := m.(wire.Message)
	if err := msg.BtcDecode(bytes.NewBuffer(mustHex(p[3])), pver, enc); err != nil {
		return ""
	}
	var first []byte
	want := dump(msg, pver)
	for k := 0; k < 1500; k++ {
		var w bytes.Buffer
		if _, err := wire.WriteMessageWithEncodingN(&w, msg, pver, wire.MainNet, enc); err != nil {
			return ""
		}
		if first == nil {
			first = append([]byte{}, w.Bytes()...)
		} else if !bytes.Equal(first, w.Bytes()) {
			return "unstable-write"
		}
		if k%25 == 0 {
			_, back, _, err := wire.ReadMessageWithEncodingN(bytes.NewReader(w.Bytes()), pver, wire.MainNet, enc)
			if p[0] == "wtxidrelay" {
				continue // F-C08-c
			}
			if err != nil || dump(back, pver) != want {
				return "unstable-read"
			}
		}
	}
	return ""
}

// hdrTime is the header timestamp as the value the decoder produced: the wire field is an unsigned 32-bit
// count of seconds, so a decoded header carries a time in [0, 2^32) and is dumped unmasked (seed C08-g: a
// sign-extending decoder yields 1901..1969 for timestamps >= 2^31, which a uint32 mask would hide). The zero
// time.Time of a header that was never decoded keeps the encoder's truncation.
func hdrTime(h *wire.BlockHeader) uint64 {
	if h.Timestamp.IsZero() {
		return uint64(uint32(h.Timestamp.Unix()))
	}
	return uint64(h.Timestamp.Unix())
}
