package p05

import (
	"encoding/hex"
	"fmt"
	"strconv"
	"strings"

	"github.com/btcsuite/btcd/database/veriftreap"
	"verifharness/core"
)

// ---------------------------------------------------------------- helpers

func hx(b []byte) string {
	if len(b) == 0 {
		return "-"
	}
	return hex.EncodeToString(b)
}

// unhx: "-" is the empty, non-nil slice.
func unhx(s string) []byte {
	if s == "-" {
		return []byte{}
	}
	b, err := hex.DecodeString(s)
	if err != nil {
		panic("bad hex " + s)
	}
	return b
}

// optKey: "~" is nil.
func optKey(s string) []byte {
	if s == "~" {
		return nil
	}
	return unhx(s)
}

func atoi(s string) int {
	n, err := strconv.Atoi(s)
	if err != nil {
		panic("bad int " + s)
	}
	return n
}

func valStr(v []byte) string {
	if v == nil {
		return "nil"
	}
	return hx(v)
}

// ---------------------------------------------------------------- treap exec (real code)

type treapLike interface {
	Get(key []byte) []byte
	Has(key []byte) bool
	Len() int
	Size() uint64
	ForEach(func(k, v []byte) bool)
}

func posStr(ok bool, it *veriftreap.Iterator) string {
	s := "0:"
	if ok {
		s = "1:"
	}
	// The position after an unsuccessful move is not observed: First/Last on an
	// empty treap without range keys leave the previous node in place.
	if !ok || !it.Valid() {
		return s + "~"
	}
	return s + hx(it.Key()) + "=" + hx(it.Value())
}

func execTreap(kind string, ops []string) string {
	imm := []*veriftreap.Immutable{veriftreap.NewImmutable()}
	mut := veriftreap.NewMutable()
	nver := 1
	ver := func(s string) treapLike {
		n := atoi(s)
		if kind == "imm" {
			return imm[n]
		}
		if n != nver-1 {
			panic("mutable treap has only the latest version")
		}
		return mut
	}
	var it *veriftreap.Iterator
	// results are values: slices handed out earlier must not change later
	var held, heldCopy [][]byte
	outs := make([]string, 0, len(ops))
	for _, op := range ops {
		f := strings.Split(op, ":")
		var out string
		switch f[0] {
		case "p":
			if kind == "imm" {
				imm = append(imm, imm[len(imm)-1].Put(veriftreap.KVPair{Key: unhx(f[1]), Value: optKey(f[2])}))
			} else {
				mut.Put(unhx(f[1]), optKey(f[2]))
			}
			nver++
			out = "ok"
			if it != nil {
				it.ForceReseek() // as ffldb's notifyActiveIters does
			}
		case "b":
			var kvs []veriftreap.KVPair
			for _, item := range strings.Split(f[1], "/") {
				g := strings.Split(item, "+")
				kvs = append(kvs, veriftreap.KVPair{Key: unhx(g[0]), Value: unhx(g[1])})
			}
			if kind == "imm" {
				imm = append(imm, imm[len(imm)-1].Put(kvs...))
			} else {
				for _, kv := range kvs {
					mut.Put(kv.Key, kv.Value)
				}
			}
			nver++
			out = "ok"
			if it != nil {
				it.ForceReseek()
			}
		case "d":
			if kind == "imm" {
				imm = append(imm, imm[len(imm)-1].Delete(unhx(f[1])))
			} else {
				mut.Delete(unhx(f[1]))
			}
			nver++
			out = "ok"
			if it != nil {
				it.ForceReseek()
			}
		case "g":
			v := ver(f[1]).Get(unhx(f[2]))
			if v != nil {
				held = append(held, v)
				heldCopy = append(heldCopy, append([]byte{}, v...))
			}
			out = valStr(v)
		case "E":
			n := atoi(f[2])
			var parts []string
			ver(f[1]).ForEach(func(k, v []byte) bool {
				parts = append(parts, hx(k)+"="+hx(v))
				return len(parts) != n
			})
			out = "[" + strings.Join(parts, ",") + "]"
		case "z":
			mut.Reset()
			nver++
			out = "ok"
			if it != nil {
				it.ForceReseek()
			}
		case "h":
			out = "0"
			if ver(f[1]).Has(unhx(f[2])) {
				out = "1"
			}
		case "l":
			out = strconv.Itoa(ver(f[1]).Len())
		case "s":
			out = strconv.FormatUint(ver(f[1]).Size(), 10)
		case "e":
			var parts []string
			ver(f[1]).ForEach(func(k, v []byte) bool {
				parts = append(parts, hx(k)+"="+hx(v))
				return true
			})
			out = "[" + strings.Join(parts, ",") + "]"
		case "i":
			t := ver(f[1])
			if kind == "imm" {
				it = t.(*veriftreap.Immutable).Iterator(optKey(f[2]), optKey(f[3]))
			} else {
				it = mut.Iterator(optKey(f[2]), optKey(f[3]))
			}
			out = "ok"
		case "F":
			out = posStr(it.First(), it)
		case "L":
			out = posStr(it.Last(), it)
		case "N":
			out = posStr(it.Next(), it)
		case "P":
			out = posStr(it.Prev(), it)
		case "S":
			out = posStr(it.Seek(unhx(f[1])), it)
		default:
			return "bad-op"
		}
		outs = append(outs, out)
	}
	for i := range held {
		if string(held[i]) != string(heldCopy[i]) {
			return strings.Join(outs, "|") + "|ALIAS"
		}
	}
	return strings.Join(outs, "|")
}

// ---------------------------------------------------------------- treap generator

// keyPool returns a small pool of keys with shared prefixes, the empty key,
// 0x00 / 0xff bytes and proper-prefix pairs so that byte order differs from
// length order and from signed-byte order.
func keyPool(r *core.Rand, n int) [][]byte {
	base := [][]byte{{}, {0}, {0, 0}, {0xff}, {0xff, 0xff}, {0x7f}, {0x80}, {0x61}, {0x61, 0}, {0x61, 0x62}, {0x62}}
	pool := append([][]byte{}, base[:3+r.Intn(len(base)-2)]...)
	for len(pool) < n {
		switch r.Intn(3) {
		case 0:
			pool = append(pool, r.Bytes(1+r.Intn(3)))
		case 1:
			p := pool[r.Intn(len(pool))]
			pool = append(pool, append(append([]byte{}, p...), byte(r.Pick(0, 1, 0x7f, 0x80, 0xff, int64(r.Intn(256))))))
		default:
			pool = append(pool, []byte{byte(r.Pick(0, 0x61, 0x62, 0xfe, 0xff)), byte(r.Intn(4))})
		}
	}
	return pool
}

func genTreapLine(r *core.Rand, kind string, nops int) (string, bool) {
	pool := keyPool(r, 4+r.Intn(20))
	pick := func() []byte { return pool[r.Intn(len(pool))] }
	// small priorities produce many ties, large ones a realistic shape
	prio := func() uint64 {
		if r.Chance(1, 3) {
			return uint64(r.Intn(4))
		}
		return r.U64() >> 1
	}
	ops := []string{}
	nver := 1
	live := 0
	muts := 0
	haveIter := false
	iterVer := 0
	rv := func() int {
		if kind == "imm" && r.Chance(1, 2) {
			return r.Intn(nver)
		}
		return nver - 1
	}
	for len(ops) < nops {
		switch c := r.Intn(20); {
		case c < 6:
			val := hx(r.Bytes(r.Intn(4)))
			if r.Chance(1, 10) {
				val = "~" // nil value: stored as the empty value
			}
			ops = append(ops, fmt.Sprintf("p:%s:%s:%d", hx(pick()), val, prio()))
			nver++
			live++
			muts++
			haveIter = haveIter && true
		case c < 7:
			var items []string
			for i := 1 + r.Intn(6); i > 0; i-- {
				items = append(items, fmt.Sprintf("%s+%s+%d", hx(pick()), hx(r.Bytes(r.Intn(3))), prio()))
			}
			ops = append(ops, "b:"+strings.Join(items, "/"))
			nver++
			muts++
			haveIter = haveIter && true
		case c < 10:
			ops = append(ops, "d:"+hx(pick()))
			nver++
			muts++
			haveIter = haveIter && true
		case c < 12:
			ops = append(ops, fmt.Sprintf("g:%d:%s", rv(), hx(pick())))
		case c < 13:
			ops = append(ops, fmt.Sprintf("h:%d:%s", rv(), hx(pick())))
		case c < 14:
			switch k := r.Intn(8); {
			case k < 6:
				// Size() is an internal memory estimate and is not observed
				ops = append(ops, fmt.Sprintf("%s:%d", []string{"l", "e"}[k%2], rv()))
			case k < 7 || kind == "imm":
				ops = append(ops, fmt.Sprintf("E:%d:%d", rv(), 1+r.Intn(4)))
			default:
				ops = append(ops, "z")
				nver++
				muts++
			}
		case c < 15 || !haveIter:
			s, l := "~", "~"
			if r.Chance(1, 2) {
				s = hx(pick())
			}
			if r.Chance(1, 2) {
				l = hx(pick())
			}
			iterVer = rv()
			ops = append(ops, fmt.Sprintf("i:%d:%s:%s", iterVer, s, l))
			haveIter = true
		default:
			switch r.Intn(8) {
			case 0:
				ops = append(ops, "F")
			case 1:
				ops = append(ops, "L")
			case 2:
				ops = append(ops, "S:"+hx(pick()))
			case 3, 4, 5:
				ops = append(ops, "N")
			default:
				ops = append(ops, "P")
			}
		}
	}
	ops = append(ops, fmt.Sprintf("e:%d", nver-1))
	if kind == "imm" {
		ops = append(ops, fmt.Sprintf("e:%d", r.Intn(nver)))
	}
	_ = iterVer
	return "C05 treap " + kind + " " + strings.Join(ops, " "), muts >= 3
}
