package p05

import (
	"bytes"
	"crypto/sha1"
	"encoding/binary"
	"encoding/hex"
	"fmt"
	"os"
	"os/exec"
	"path/filepath"
	"runtime"
	"strings"
	"sync"
	"sync/atomic"
	"time"

	"github.com/btcsuite/btcd/database"
	"github.com/btcsuite/btcd/database/ffldb"
	"github.com/btcsuite/btcd/wire/v2"
)

// execRace runs readers concurrently with one writer on a real database
// (exploration of schedules, not part of the proof).  Every commit writes the
// same generation number under all keys of bucket "r" and stores one block;
// a reader must always see one generation under all keys, never an older one
// than before, the keys in ascending order, and an unchanged view for as long
// as it holds a transaction.
func execRace(args []string) string {
	if len(args) < 4 {
		return "bad-op"
	}
	readers, commits, maxCache := atoi(args[1]), atoi(args[2]), atoi(args[3])
	dir, err := os.MkdirTemp(tmpBase(), "c05-race-")
	if err != nil {
		panic(err)
	}
	defer os.RemoveAll(dir)
	db, err := database.Create("ffldb", filepath.Join(dir, "db"), wire.BitcoinNet(0xd9b4bef9))
	if err != nil {
		return "err:create"
	}
	defer db.Close()
	ffldb.VerifSetMaxBlockFileSize(db, 300)
	ffldb.VerifSetCacheParams(db, uint64(maxCache), 1000*time.Hour)
	bucket := []byte("r")
	keys := [][]byte{{0}, {0, 0}, {0x61}, {0x61, 0}, {0x80}, {0xff}}
	gen := func(g uint64) []byte { b := make([]byte, 8); binary.BigEndian.PutUint64(b, g); return b }
	if err := db.Update(func(tx database.Tx) error {
		b, err := tx.Metadata().CreateBucket(bucket)
		if err != nil {
			return err
		}
		for _, k := range keys {
			if err := b.Put(k, gen(0)); err != nil {
				return err
			}
		}
		return nil
	}); err != nil {
		return "err:init"
	}
	var bad atomic.Value
	fail := func(format string, a ...any) { bad.CompareAndSwap(nil, fmt.Sprintf(format, a...)) }
	var done atomic.Bool
	readView := func(tx database.Tx) (uint64, bool) {
		b := tx.Metadata().Bucket(bucket)
		if b == nil {
			fail("bucket missing")
			return 0, false
		}
		g := binary.BigEndian.Uint64(b.Get(keys[0]))
		for _, k := range keys {
			v := b.Get(k)
			if v == nil || binary.BigEndian.Uint64(v) != g {
				fail("mixed generations under Get")
				return 0, false
			}
		}
		var prev []byte
		n := 0
		c := b.Cursor()
		for ok := c.First(); ok; ok = c.Next() {
			if prev != nil && bytes.Compare(prev, c.Key()) >= 0 {
				fail("cursor order")
			}
			prev = append([]byte{}, c.Key()...)
			if binary.BigEndian.Uint64(c.Value()) != g {
				fail("mixed generations under cursor")
			}
			n++
		}
		if n != len(keys) {
			fail("cursor saw %d keys", n)
		}
		// every block of generations 1..g is stored and intact
		for i := uint64(1); i <= g; i += 1 + g/4 {
			blk, err := tx.FetchBlock(blockHash(int(i)))
			if err != nil || !bytes.Equal(blk, blockBytes(int(i), 40+int(i%50))) {
				fail("block %d of generation <= %d: %v", i, g, err)
			}
		}
		return g, true
	}
	var wg sync.WaitGroup
	for r := 0; r < readers; r++ {
		wg.Add(1)
		go func(r int) {
			defer wg.Done()
			var last uint64
			for !done.Load() {
				if r%2 == 0 {
					_ = db.View(func(tx database.Tx) error {
						if g, ok := readView(tx); ok {
							if g < last {
								fail("generation went back")
							}
							last = g
						}
						return nil
					})
				} else {
					// hold a snapshot while the writer goes on
					tx, err := db.Begin(false)
					if err != nil {
						fail("begin: %v", err)
						return
					}
					g0, _ := readView(tx)
					for i := 0; i < 3; i++ {
						runtime.Gosched()
						if g, ok := readView(tx); ok && g != g0 {
							fail("held snapshot changed")
						}
					}
					_ = tx.Rollback()
					if g0 < last {
						fail("generation went back")
					}
					last = g0
				}
			}
		}(r)
	}
	for g := uint64(1); g <= uint64(commits); g++ {
		err := db.Update(func(tx database.Tx) error {
			b := tx.Metadata().Bucket(bucket)
			for _, k := range keys {
				if err := b.Put(k, gen(g)); err != nil {
					return err
				}
			}
			return tx.StoreBlock(newBlock(int(g), 40+int(g%50)))
		})
		if err != nil {
			fail("commit %d: %v", g, err)
			break
		}
		if g%7 == 0 {
			// a rolled-back writer must leave no trace
			_ = db.Update(func(tx database.Tx) error {
				_ = tx.Metadata().Bucket(bucket).Put(keys[0], gen(1<<40))
				return fmt.Errorf("abort")
			})
		}
	}
	done.Store(true)
	wg.Wait()
	if v := bad.Load(); v != nil {
		if os.Getenv("VERIF_DEBUG") != "" {
			fmt.Fprintln(os.Stderr, "race exploration:", v)
		}
		return "inconsistent"
	}
	return "ok"
}

// execRaceBuild (thorough tier): builds this harness with the race detector
// and replays the given number of race lines under it.
func execRaceBuild(args []string) string {
	n := atoi(args[0])
	vdir := os.Getenv("VERIF_DIR")
	if vdir == "" {
		vdir = "/verif"
	}
	harn := filepath.Join(vdir, "harness")
	tmp, err := os.MkdirTemp("", "c05-racebin-")
	if err != nil {
		panic(err)
	}
	defer os.RemoveAll(tmp)
	bin := filepath.Join(tmp, "c05race")
	cmdArgs := []string{"build", "-race", "-tags", "verif"}
	if repo := os.Getenv("VERIF_REPO"); repo != "" && repo != "/repo" {
		sum := sha1.Sum([]byte(repo))
		cmdArgs = append(cmdArgs, "-modfile", filepath.Join(harn, "go."+hex.EncodeToString(sum[:])[:8]+".mod"))
	}
	cmdArgs = append(cmdArgs, "-o", bin, "./cmd/c05")
	build := exec.Command("go1.26", cmdArgs...)
	build.Dir = harn
	build.Env = append(os.Environ(), "GOFLAGS=-mod=mod", "GOPROXY=off", "GOSUMDB=off", "GOTOOLCHAIN=local")
	if out, err := build.CombinedOutput(); err != nil {
		fmt.Fprintf(os.Stderr, "race build failed: %v\n%s\n", err, out)
		return "race-build-failed"
	}
	var lines []string
	for i := 0; i < n; i++ {
		lines = append(lines, fmt.Sprintf("C05 race %d %d %d %d", i, 2+i%4, 30+10*(i%5), []int{0, 400, 100000000}[i%3]))
	}
	file := filepath.Join(tmp, "lines.txt")
	_ = os.WriteFile(file, []byte(strings.Join(lines, "\n")+"\n"), 0o600)
	run := exec.Command(bin, "--replay", file, "--replays", tmp)
	run.Env = os.Environ()
	out, err := run.CombinedOutput()
	if bytes.Contains(out, []byte("DATA RACE")) {
		fmt.Fprintf(os.Stderr, "%s\n", out)
		return "data-race"
	}
	if err != nil {
		fmt.Fprintf(os.Stderr, "%s\n", out)
		return "race-run-failed"
	}
	return "ok"
}
