// Package p05: correspondence for C05 (block/metadata store: atomic, isolated,
// prefix-durable, byte-faithful).
package p05

import (
	"fmt"
	"os"
	"strings"

	"verifharness/core"
)

type P struct{}

func (P) ID() string { return "C05" }

func (p P) Exec(line string) string {
	out := p.exec(line)
	if os.Getenv("VERIF_ECHO") != "" {
		fmt.Fprintf(os.Stderr, "GO %s\n", out)
	}
	return out
}

func (P) exec(line string) string {
	f := strings.Fields(line)
	if len(f) < 3 || f[0] != "C05" {
		return "bad-op"
	}
	switch f[1] {
	case "treap":
		return execTreap(f[2], f[3:])
	case "db":
		return execDb(f[2:])
	}
	return "bad-op"
}

func (P) Generate(g *core.Gen) {
	for i := g.N(600, 6000); i > 0; i-- {
		kind := "imm"
		if i%2 == 0 {
			kind = "mut"
		}
		line, nt := genTreapLine(g.R, kind, 8+g.R.Intn(60))
		g.Case("treap-"+kind, nt, line)
	}
}
