// Package p05: correspondence for C05 (block/metadata store: atomic, isolated,
// prefix-durable, byte-faithful).
package p05

import (
	"fmt"
	"os"
	"strings"
	"sync"
	"time"

	"github.com/btcsuite/btcd/database/ffldb"

	"verifharness/core"
)

type P struct{}

func (P) ID() string { return "C05" }

// ---------------------------------------------------------------- facts (T2)

func (P) Facts() []core.Fact {
	var fs []core.Fact
	// only persisted-format values are facts; tuning constants (handle limit, cache
	// size, flush interval, file size limit, memory estimates) are not
	for k, v := range ffldb.VerifConstsC05() {
		switch k {
		case "blockLocSize", "metadataBucketID", "blockIdxBucketID":
			fs = append(fs, core.Fact{Name: k, Value: v})
		}
	}
	bytesOf := func(b []byte) []int64 {
		r := make([]int64, len(b))
		for i, x := range b {
			r[i] = int64(x)
		}
		return r
	}
	for k, v := range ffldb.VerifNamesC05() {
		fs = append(fs, core.Fact{Name: k, Value: bytesOf([]byte(v))})
	}
	fs = append(fs,
		core.Fact{Name: "writeRowZero", Value: bytesOf(ffldb.VerifSerializeWriteRow(0, 0))},
		core.Fact{Name: "writeRowSample", Value: bytesOf(ffldb.VerifSerializeWriteRow(3, 82))},
		core.Fact{Name: "blockLocSample", Value: bytesOf(ffldb.VerifSerializeBlockLoc(1, 258, 65536+7))},
		core.Fact{Name: "bucketizedKeySample", Value: bytesOf(ffldb.VerifBucketizedKey([4]byte{0, 0, 1, 2}, []byte{0xab}))},
		core.Fact{Name: "bucketIndexKeySample", Value: bytesOf(ffldb.VerifBucketIndexKey([4]byte{0, 0, 1, 2}, []byte{0xab}))},
	)
	return fs
}

// Exec runs one line under a watchdog: a (mutated) tree that blocks, e.g. on
// the write lock or in a cursor loop, yields the answer "timeout" instead of
// hanging the run.
func (p P) Exec(line string) string {
	done := make(chan string, 1)
	go func() {
		defer func() {
			if r := recover(); r != nil {
				done <- "panic"
			}
		}()
		done <- p.exec(line)
	}()
	limit := 120 * time.Second
	if strings.HasPrefix(line, "C05 racebuild") {
		limit = 15 * time.Minute
	}
	var out string
	select {
	case out = <-done:
	case <-time.After(limit):
		out = "timeout"
	}
	if os.Getenv("VERIF_ECHO") != "" {
		fmt.Fprintf(os.Stderr, "GO %s\n", out)
	}
	return out
}

func (P) exec(line string) string {
	f := strings.Fields(line)
	if len(f) < 3 || f[0] != "C05" {
		return "bad-op"
	}
	switch f[1] {
	case "treap":
		return execTreap(f[2], f[3:])
	case "db":
		return execDb(f[2:])
	case "dbf":
		return execDbf(f[2:])
	case "par":
		return execPar(f[2:])
	case "race":
		return execRace(f[2:])
	case "racebuild":
		return execRaceBuild(f[2:])
	}
	return "bad-op"
}

func (P) Generate(g *core.Gen) {
	for i := g.N(2000, 12000); i > 0; i-- {
		kind := "imm"
		if i%2 == 0 {
			kind = "mut"
		}
		line, nt := genTreapLine(g.R, kind, 8+g.R.Intn(60))
		g.Case("treap-"+kind, nt, line)
	}
	for i := g.N(40, 600); i > 0; i-- {
		line, nt := genHistory(g.R, 20+g.R.Intn(60), false)
		g.Case("history", nt, line)
	}
	for i := g.N(8, 100); i > 0; i-- {
		line, nt := genHistory(g.R, 15+g.R.Intn(30), true)
		g.Case("history-mixed-cursor", nt, line)
	}
	for i := g.N(15, 250); i > 0; i-- {
		line, nt := genBlocks(g.R)
		g.Case("blocks", nt, line)
	}
	// no hidden shared state: independent instances run concurrently, each must
	// answer as it does alone
	for i := g.N(3, 30); i > 0; i-- {
		var subs []string
		for k := 0; k < 9; k++ {
			var line string
			switch {
			case k%3 == 2:
				line, _ = genHistory(g.R, 12+g.R.Intn(20), false)
			case k%2 == 0:
				line, _ = genTreapLine(g.R, "imm", 30+g.R.Intn(60))
			default:
				line, _ = genTreapLine(g.R, "mut", 30+g.R.Intn(60))
			}
			subs = append(subs, strings.TrimPrefix(line, "C05 "))
		}
		g.Case("parallel-instances", true, "C05 par "+strings.Join(subs, " // "))
	}
	// schedules of readers against one writer: exploration only
	for i := g.N(2, 20); i > 0; i-- {
		g.Case("race-exploration", true, fmt.Sprintf("C05 race %d %d %d %d", g.R.Intn(1000), 2+g.R.Intn(4),
			20+g.R.Intn(40), g.R.Pick(0, 400, 100000000)))
	}
	if g.Thorough() {
		g.Case("race-detector", true, "C05 racebuild 6")
	}
	emit := func(class, line string) { g.Case(class, true, toAdm(line)) }
	start := g.R.Intn(len(faultKinds))
	for i := g.N(5, 40); i > 0; i-- {
		genFaultFamily(g.R, faultKinds[(start+i)%len(faultKinds)], emit)
	}
	for i := g.N(2, 24); i > 0; i-- {
		genImageFamily(g.R, emit)
	}
	for i := g.N(2, 8); i > 0; i-- {
		genLru(g.R, i%2 == 0, emit)
	}
	for i := g.N(3, 12); i > 0; i-- {
		g.Case("parallel-blocks", true, genParBlocks(g.R))
	}
	for i := g.N(3, 30); i > 0; i-- {
		genFlushBoundary(g.R, emit)
	}
	for i := g.N(4, 20); i > 0; i-- {
		genPruneCrash(g.R, emit)
	}
	for i := g.N(8, 60); i > 0; i-- {
		genSyncOrder(g.R, emit)
	}
	// every per-key life cycle across leveldb / cache / pending (both tiers)
	genLifecycle(g.R, emit)
}

// execPar runs the sub-lines (separated by "//") concurrently, each in its own
// goroutine on its own instance, released together with staggered offsets.
func execPar(args []string) string {
	var subs [][]string
	cur := []string{}
	for _, a := range args {
		if a == "//" {
			subs = append(subs, cur)
			cur = []string{}
		} else {
			cur = append(cur, a)
		}
	}
	subs = append(subs, cur)
	outs := make([]string, len(subs))
	start := make(chan struct{})
	var wg sync.WaitGroup
	for i := range subs {
		wg.Add(1)
		go func(i int) {
			defer wg.Done()
			defer func() {
				if r := recover(); r != nil {
					outs[i] = "panic"
				}
			}()
			<-start
			time.Sleep(time.Duration(i*137) * time.Microsecond)
			outs[i] = P{}.exec("C05 " + strings.Join(subs[i], " "))
		}(i)
	}
	close(start)
	wg.Wait()
	return strings.Join(outs, " // ")
}
