package p05

import (
	"context"
	"errors"
	"fmt"
	"io"
	"os"
	"os/exec"
	"path/filepath"
	"sort"
	"strconv"
	"strings"
	"time"

	"github.com/btcsuite/btcd/btcutil/v2"
	"github.com/btcsuite/btcd/chainhash/v2"
	"github.com/btcsuite/btcd/database"
	"github.com/btcsuite/btcd/database/ffldb"
	"github.com/btcsuite/btcd/wire/v2"
)

// ---------------------------------------------------------------- blocks of the protocol

// blockBytes is the deterministic payload of protocol block <id> with <n> bytes.
func blockBytes(id, n int) []byte {
	b := make([]byte, n)
	for i := range b {
		b[i] = byte((id*131 + i*7 + i/251) % 256)
	}
	return b
}

func blockMsg(id int) *wire.MsgBlock {
	return &wire.MsgBlock{Header: wire.BlockHeader{Version: 1, Nonce: uint32(id),
		Timestamp: time.Unix(1700000000, 0)}}
}

func newBlock(id, n int) *btcutil.Block {
	return btcutil.NewBlockFromBlockAndBytes(blockMsg(id), blockBytes(id, n))
}

func blockHash(id int) *chainhash.Hash {
	h := blockMsg(id).BlockHash()
	return &h
}

// ---------------------------------------------------------------- fault-injecting filer

var errInjected = errors.New("injected I/O fault")

type faults struct {
	count  map[string]int // calls seen per kind since arming
	kind   string         // armed kind ("" = none)
	n      int            // fail the n-th call of that kind
	fired  bool
	sticky bool // keep failing after the n-th call
	// image capture: copy the directory right before the n-th call of imgKind
	imgKind string
	imgN    int
	imgDir  string
	imgSeen int
	strict  bool
	db      *dbh
}

func (f *faults) hit(kind string) error {
	if f.imgKind == kind && f.imgDir == "" {
		f.imgSeen++
		if f.imgSeen == f.imgN {
			f.imgDir = f.db.snapshotDir(f.strict)
		}
	}
	if f.kind != kind {
		return nil
	}
	f.count[kind]++
	if f.count[kind] == f.n || (f.sticky && f.count[kind] > f.n) {
		f.fired = true
		return errInjected
	}
	return nil
}

type faultFile struct {
	ffldb.VerifFile
	f       *faults
	fileNum uint32
	h       *dbh
}

func (w *faultFile) WriteAt(p []byte, off int64) (int, error) {
	if err := w.f.hit("writeat"); err != nil {
		// torn write: half of the data reaches the file
		n, _ := w.VerifFile.WriteAt(p[:len(p)/2], off)
		return n, err
	}
	return w.VerifFile.WriteAt(p, off)
}

func (w *faultFile) ReadAt(p []byte, off int64) (int, error) {
	if err := w.f.hit("readat"); err != nil {
		return 0, err
	}
	return w.VerifFile.ReadAt(p, off)
}

func (w *faultFile) Truncate(size int64) error {
	if err := w.f.hit("truncate"); err != nil {
		return err
	}
	return w.VerifFile.Truncate(size)
}

func (w *faultFile) Sync() error {
	if err := w.f.hit("sync"); err != nil {
		return err
	}
	err := w.VerifFile.Sync()
	if err == nil {
		if st, e := os.Stat(w.h.blockPath(w.fileNum)); e == nil {
			w.h.synced[w.fileNum] = st.Size()
		}
	}
	return err
}

func (w *faultFile) Close() error {
	_ = w.f.hit("close")
	return w.VerifFile.Close()
}

// tmpBase prefers a memory-backed directory (hundreds of databases are created
// and removed per run); "" is the system default.
func tmpBase() string {
	if os.Getenv("TMPDIR") == "" {
		if st, err := os.Stat("/dev/shm"); err == nil && st.IsDir() {
			return "/dev/shm"
		}
	}
	return ""
}

// ---------------------------------------------------------------- db handle

type dbh struct {
	dir     string
	db      database.DB
	maxFile uint32
	maxCach uint64
	net     uint32
	flushIn time.Duration // flush interval of the metadata cache (0 = every commit flushes)
	f       *faults
	synced  map[uint32]int64 // per block file: length known to be fsynced
	tmps    []string
}

func (h *dbh) blockPath(n uint32) string { return filepath.Join(h.dir, fmt.Sprintf("%09d.fdb", n)) }

func (h *dbh) install() {
	ffldb.VerifSetMaxBlockFileSize(h.db, h.maxFile)
	ffldb.VerifSetCacheParams(h.db, h.maxCach, h.flushIn)
	ffldb.VerifSetFileHooks(h.db, ffldb.VerifFileHooks{
		Before: func(kind string, n uint32) error { return h.f.hit(kind) },
		Wrap: func(kind string, n uint32, f ffldb.VerifFile) ffldb.VerifFile {
			if _, ok := h.synced[n]; !ok {
				if st, e := os.Stat(h.blockPath(n)); e == nil {
					h.synced[n] = st.Size()
				}
			}
			return &faultFile{VerifFile: f, f: h.f, fileNum: n, h: h}
		},
	})
}

func (h *dbh) open(create bool) error {
	var err error
	if create {
		h.db, err = database.Create("ffldb", h.dir, wire.BitcoinNet(h.net))
	} else {
		h.db, err = database.Open("ffldb", h.dir, wire.BitcoinNet(h.net))
	}
	if err != nil {
		h.db = nil
		return err
	}
	h.synced = map[uint32]int64{}
	h.install()
	return nil
}

// dirStamp fingerprints names, sizes and modification times below dir.
func dirStamp(dir string) string {
	var sb strings.Builder
	_ = filepath.Walk(dir, func(p string, info os.FileInfo, err error) error {
		if err == nil {
			fmt.Fprintf(&sb, "%s:%d:%d;", p, info.Size(), info.ModTime().UnixNano())
		}
		return nil
	})
	return sb.String()
}

func copyDir(src, dst string) error {
	return filepath.Walk(src, func(p string, info os.FileInfo, err error) error {
		if err != nil {
			return err
		}
		rel, _ := filepath.Rel(src, p)
		target := filepath.Join(dst, rel)
		if info.IsDir() {
			return os.MkdirAll(target, 0o700)
		}
		if info.Name() == "LOCK" {
			return os.WriteFile(target, nil, 0o600)
		}
		in, err := os.Open(p)
		if err != nil {
			return err
		}
		defer in.Close()
		out, err := os.Create(target)
		if err != nil {
			return err
		}
		defer out.Close()
		_, err = io.Copy(out, in)
		return err
	})
}

// snapshotDir copies the database directory as it is on disk right now (a
// crash image).  strict: appended block-file data that was never fsynced is
// dropped from the image.
func (h *dbh) snapshotDir(strict bool) string {
	dst, err := os.MkdirTemp(tmpBase(), "c05-img-")
	if err != nil {
		panic(err)
	}
	h.tmps = append(h.tmps, dst)
	// leveldb's background goroutines may remove an obsolete file while the
	// directory is being walked; copy again in that case
	// and the copy has to be of one instant: repeat it until the leveldb
	// directory did not change while it was being read.
	for try := 0; ; try++ {
		before := dirStamp(h.dir)
		err := copyDir(h.dir, dst)
		if err == nil && before == dirStamp(h.dir) {
			break
		}
		if try == 40 {
			if err == nil {
				break
			}
			panic(err)
		}
		_ = os.RemoveAll(dst)
		time.Sleep(5 * time.Millisecond)
	}
	if strict {
		files, _ := filepath.Glob(filepath.Join(dst, "*.fdb"))
		for _, p := range files {
			n, _ := strconv.Atoi(strings.TrimSuffix(filepath.Base(p), ".fdb"))
			keep, ok := h.synced[uint32(n)]
			if !ok {
				keep = 0
				// a file never opened through the hooks in this session is as it was at open
				if st, e := os.Stat(h.blockPath(uint32(n))); e == nil && !h.touched(uint32(n)) {
					keep = st.Size()
				}
			}
			if st, e := os.Stat(p); e == nil && st.Size() > keep {
				_ = os.Truncate(p, keep)
			}
		}
	}
	return dst
}

// reconfig: "ro:<maxFile>:<maxCache>:<net>" reopens with another configuration.
func (h *dbh) reconfig(f []string) {
	if len(f) == 4 {
		h.maxFile, h.maxCach, h.net = uint32(atoi(f[1])), uint64(atoi(f[2])), uint32(atoi(f[3]))
	}
}

func (h *dbh) touched(n uint32) bool { _, ok := h.synced[n]; return ok }

func (h *dbh) cleanup() {
	if h.db != nil {
		_ = h.db.Close()
	}
	for _, d := range h.tmps {
		_ = os.RemoveAll(d)
	}
}

// ---------------------------------------------------------------- canonical results

func errStr(err error) string {
	if err == nil {
		return "ok"
	}
	var de database.Error
	if errors.As(err, &de) {
		return "err:" + strings.TrimPrefix(de.ErrorCode.String(), "Err")
	}
	return "err:other"
}

func kvOut(k, v []byte) string { return hx(k) + "=" + valStr(v) }

type execState struct {
	h    *dbh
	txs  map[string]database.Tx
	curs map[string]database.Cursor
}

func (s *execState) bucket(tx database.Tx, path string) database.Bucket {
	b := tx.Metadata()
	if path == "." {
		return b
	}
	for _, name := range strings.Split(path, "/") {
		b = b.Bucket(unhx(name))
		if b == nil {
			return nil
		}
	}
	return b
}

func curOut(ok bool, c database.Cursor) string {
	s := "0:"
	if ok {
		s = "1:"
	}
	k := c.Key()
	if k == nil {
		return s + "~"
	}
	return s + kvOut(k, c.Value())
}

// dumpBucket renders a bucket recursively: keys in cursor order, then nested buckets.
func dumpBucket(b database.Bucket, sb *strings.Builder) {
	sb.WriteString("{")
	first := true
	_ = b.ForEach(func(k, v []byte) error {
		if !first {
			sb.WriteString(",")
		}
		first = false
		sb.WriteString(kvOut(k, v))
		return nil
	})
	var names [][]byte
	_ = b.ForEachBucket(func(k []byte) error {
		names = append(names, append([]byte{}, k...))
		return nil
	})
	for _, n := range names {
		if !first {
			sb.WriteString(",")
		}
		first = false
		sb.WriteString(hx(n))
		dumpBucket(b.Bucket(n), sb)
	}
	sb.WriteString("}")
}

// dumpAll renders the user-visible state of a database: all buckets and, for
// the given block ids, whether each block is present and intact.
func dumpAll(db database.DB, ids []int, lens map[int]int) string {
	var sb strings.Builder
	_ = db.View(func(tx database.Tx) error {
		dumpBucket(tx.Metadata(), &sb)
		sb.WriteString("#")
		for _, id := range ids {
			has, _ := tx.HasBlock(blockHash(id))
			if !has {
				continue
			}
			b, err := tx.FetchBlock(blockHash(id))
			switch {
			case err != nil:
				fmt.Fprintf(&sb, "%d:%s,", id, errStr(err))
			case string(b) == string(blockBytes(id, lens[id])):
				fmt.Fprintf(&sb, "%d:ok,", id)
			default:
				fmt.Fprintf(&sb, "%d:DIFF,", id)
			}
		}
		return nil
	})
	return sb.String()
}

// ---------------------------------------------------------------- exec

// dumpUser renders what a user of the database sees: every bucket and key
// except ffldb's own rows (write cursor, block index), and for every indexed
// block whether it reads back intact.  No file layout enters.
func dumpUser(db database.DB, ids []int, lens map[int]int) string {
	var sb strings.Builder
	_ = db.View(func(tx database.Tx) error {
		root := tx.Metadata()
		sb.WriteString("{")
		first := true
		_ = root.ForEach(func(k, v []byte) error {
			if string(k) == "ffldb-writeloc" {
				return nil
			}
			if !first {
				sb.WriteString(",")
			}
			first = false
			sb.WriteString(kvOut(k, v))
			return nil
		})
		var names [][]byte
		_ = root.ForEachBucket(func(k []byte) error {
			if string(k) != "ffldb-blockidx" {
				names = append(names, append([]byte{}, k...))
			}
			return nil
		})
		for _, n := range names {
			if !first {
				sb.WriteString(",")
			}
			first = false
			sb.WriteString(hx(n))
			dumpBucket(root.Bucket(n), &sb)
		}
		sb.WriteString("}#")
		for _, id := range ids {
			has, _ := tx.HasBlock(blockHash(id))
			if !has {
				continue
			}
			b, err := tx.FetchBlock(blockHash(id))
			switch {
			case err != nil:
				fmt.Fprintf(&sb, "%d:%s,", id, errStr(err))
			case string(b) == string(blockBytes(id, lens[id])):
				fmt.Fprintf(&sb, "%d:ok,", id)
			default:
				fmt.Fprintf(&sb, "%d:DIFF,", id)
			}
		}
		return nil
	})
	return sb.String()
}

// execDbf runs a fault / crash history on the real code and asks the Lean
// driver whether the observed answers lie in the set of outcomes the property
// admits ("adm" line: operations, "##", observations).
func execDbf(args []string) string {
	obs := execDbMode(args, true)
	line := "C05 adm " + strings.Join(args, " ") + " ## " + strings.Join(strings.Split(obs, "|"), " ")
	drv := os.Getenv("VERIF_BVDRV")
	if drv == "" {
		vd := os.Getenv("VERIF_DIR")
		if vd == "" {
			vd = "/verif"
		}
		drv = filepath.Join(vd, "lean/.lake/build/bin/drv_c05")
	}
	ctx, cancel := context.WithTimeout(context.Background(), 60*time.Second)
	defer cancel()
	cmd := exec.CommandContext(ctx, drv)
	cmd.Stdin = strings.NewReader(line + "\n")
	out, err := cmd.Output()
	if err != nil {
		return "adm-driver-failed"
	}
	verdict := strings.TrimSpace(string(out))
	if verdict == "admissible" {
		return verdict
	}
	if len(obs) > 1500 {
		obs = obs[:1500]
	}
	return verdict + " observed=" + obs
}

func execDb(args []string) string { return execDbMode(args, false) }

func execDbMode(args []string, userOnly bool) (out string) {
	if len(args) < 2 {
		return "bad-op"
	}
	dir, err := os.MkdirTemp(tmpBase(), "c05-db-")
	if err != nil {
		panic(err)
	}
	h := &dbh{dir: filepath.Join(dir, "db"), maxFile: uint32(atoi(args[0])), maxCach: uint64(atoi(args[1])), net: 0xd9b4bef9, flushIn: 1000 * time.Hour}
	h.tmps = append(h.tmps, dir)
	h.f = &faults{count: map[string]int{}, db: h}
	defer h.cleanup()
	if err := h.open(true); err != nil {
		return "err:create"
	}
	s := &execState{h: h, txs: map[string]database.Tx{}, curs: map[string]database.Cursor{}}
	blockLens := map[int]int{}
	var blockIDs []int
	closeTxs := func() {
		for k, tx := range s.txs {
			_ = tx.Rollback()
			delete(s.txs, k)
		}
		s.curs = map[string]database.Cursor{}
	}
	defer closeTxs()
	ids := func(spec string) []int {
		var r []int
		for _, x := range strings.Split(spec, "+") {
			r = append(r, atoi(x))
		}
		return r
	}
	// results are values: byte slices handed out by a transaction must not change
	// for as long as it is open, whatever happens next
	type hold struct {
		tx       string
		ref, cpy []byte
	}
	var holds []hold
	keep := func(tx string, b []byte) []byte {
		if len(b) > 0 {
			holds = append(holds, hold{tx, b, append([]byte{}, b...)})
		}
		return b
	}
	aliased := func(tx string) bool {
		bad := false
		var rest []hold
		for _, h := range holds {
			if h.tx != tx {
				rest = append(rest, h)
			} else if string(h.ref) != string(h.cpy) {
				bad = true
			}
		}
		holds = rest
		return bad
	}
	outs := make([]string, 0, len(args))
	for _, op := range args[2:] {
		f := strings.Split(op, ":")
		var o string
		switch f[0] {
		case "bw", "br":
			tx, err := h.db.Begin(f[0] == "bw")
			if err == nil {
				s.txs[f[1]] = tx
			}
			o = errStr(err)
		case "co":
			// the handle is kept: later operations on it must report a closed transaction
			bad := aliased(f[1])
			o = errStr(s.txs[f[1]].Commit())
			if bad {
				o = "ALIAS:" + o
			}
		case "rb":
			bad := aliased(f[1])
			o = errStr(s.txs[f[1]].Rollback())
			if bad {
				o = "ALIAS:" + o
			}
		case "p":
			if b := s.bucket(s.txs[f[1]], f[2]); b == nil {
				o = "nobucket"
			} else {
				o = errStr(b.Put(unhx(f[3]), unhx(f[4])))
			}
		case "g":
			if b := s.bucket(s.txs[f[1]], f[2]); b == nil {
				o = "nobucket"
			} else {
				o = valStr(keep(f[1], b.Get(unhx(f[3]))))
			}
		case "d":
			if b := s.bucket(s.txs[f[1]], f[2]); b == nil {
				o = "nobucket"
			} else {
				o = errStr(b.Delete(unhx(f[3])))
			}
		case "cb", "ci", "xb":
			b := s.bucket(s.txs[f[1]], f[2])
			if b == nil {
				o = "nobucket"
				break
			}
			var err error
			switch f[0] {
			case "cb":
				_, err = b.CreateBucket(unhx(f[3]))
			case "ci":
				_, err = b.CreateBucketIfNotExists(unhx(f[3]))
			default:
				err = b.DeleteBucket(unhx(f[3]))
			}
			o = errStr(err)
		case "fe":
			if b := s.bucket(s.txs[f[1]], f[2]); b == nil {
				o = "nobucket"
			} else {
				var sb strings.Builder
				dumpBucket(b, &sb)
				o = sb.String()
			}
		case "cu":
			if b := s.bucket(s.txs[f[1]], f[3]); b == nil {
				o = "nobucket"
			} else {
				s.curs[f[2]] = b.Cursor()
				o = "ok"
			}
		case "F", "L", "N", "P", "S", "D":
			c := s.curs[f[1]]
			if c == nil {
				o = "nocursor"
				break
			}
			switch f[0] {
			case "F":
				o = curOut(c.First(), c)
			case "L":
				o = curOut(c.Last(), c)
			case "N":
				o = curOut(c.Next(), c)
			case "P":
				o = curOut(c.Prev(), c)
			case "S":
				o = curOut(c.Seek(unhx(f[2])), c)
			case "D":
				o = errStr(c.Delete())
			}
		case "sb":
			id, n := atoi(f[2]), atoi(f[3])
			blk := btcutil.NewBlockFromBlockAndBytes(blockMsg(id), blockBytes(id, n))
			err := s.txs[f[1]].StoreBlock(blk)
			if _, seen := blockLens[id]; !seen {
				blockLens[id] = n
				blockIDs = append(blockIDs, id)
			}
			o = errStr(err)
		case "hb":
			has, err := s.txs[f[1]].HasBlock(blockHash(atoi(f[2])))
			if err != nil {
				o = errStr(err)
			} else if has {
				o = "1"
			} else {
				o = "0"
			}
		case "fk":
			b, err := s.txs[f[1]].FetchBlock(blockHash(atoi(f[2])))
			if err != nil {
				o = errStr(err)
			} else {
				o = hx(keep(f[1], b))
			}
		case "fh":
			b, err := s.txs[f[1]].FetchBlockHeader(blockHash(atoi(f[2])))
			if err != nil {
				o = errStr(err)
			} else {
				o = hx(b)
			}
		case "fr":
			hash := blockHash(atoi(f[2]))
			b, err := s.txs[f[1]].FetchBlockRegion(&database.BlockRegion{Hash: hash,
				Offset: uint32(atoi(f[3])), Len: uint32(atoi(f[4]))})
			if err != nil {
				o = errStr(err)
			} else {
				o = hx(keep(f[1], b))
			}
		case "fks":
			var hs []chainhash.Hash
			for _, id := range ids(f[2]) {
				hs = append(hs, *blockHash(id))
			}
			bs, err := s.txs[f[1]].FetchBlocks(hs)
			if err != nil {
				o = errStr(err)
			} else {
				parts := make([]string, len(bs))
				for i, b := range bs {
					parts[i] = hx(b)
				}
				o = strings.Join(parts, "+")
			}
		case "frs":
			// frs:<tx>:<id>/<off>/<len>+...
			var rs []database.BlockRegion
			for _, it := range strings.Split(f[2], "+") {
				g := strings.Split(it, "/")
				rs = append(rs, database.BlockRegion{Hash: blockHash(atoi(g[0])),
					Offset: uint32(atoi(g[1])), Len: uint32(atoi(g[2]))})
			}
			bs, err := s.txs[f[1]].FetchBlockRegions(rs)
			if err != nil {
				o = errStr(err)
			} else {
				parts := make([]string, len(bs))
				for i, b := range bs {
					parts[i] = hx(b)
				}
				o = strings.Join(parts, "+")
			}
		case "hbs":
			var hs []chainhash.Hash
			for _, id := range ids(f[2]) {
				hs = append(hs, *blockHash(id))
			}
			res, err := s.txs[f[1]].HasBlocks(hs)
			if err != nil {
				o = errStr(err)
			} else {
				parts := make([]string, len(res))
				for i, b := range res {
					parts[i] = "0"
					if b {
						parts[i] = "1"
					}
				}
				o = strings.Join(parts, "+")
			}
		case "fhs":
			var hs []chainhash.Hash
			for _, id := range ids(f[2]) {
				hs = append(hs, *blockHash(id))
			}
			bs, err := s.txs[f[1]].FetchBlockHeaders(hs)
			if err != nil {
				o = errStr(err)
			} else {
				parts := make([]string, len(bs))
				for i, b := range bs {
					parts[i] = hx(b)
				}
				o = strings.Join(parts, "+")
			}
		case "bp":
			pruned, err := s.txs[f[1]].BeenPruned()
			if err != nil {
				o = errStr(err)
			} else if pruned {
				o = "1"
			} else {
				o = "0"
			}
		case "wr":
			if b := s.bucket(s.txs[f[1]], f[2]); b == nil {
				o = "nobucket"
			} else if b.Writable() {
				o = "1"
			} else {
				o = "0"
			}
		case "cbk":
			if c := s.curs[f[1]]; c == nil {
				o = "nocursor"
			} else if c.Bucket() != nil {
				o = "1"
			} else {
				o = "0"
			}
		case "fes", "feb":
			b := s.bucket(s.txs[f[1]], f[2])
			if b == nil {
				o = "nobucket"
				break
			}
			n, errStop := atoi(f[3]), errors.New("stop")
			var parts []string
			var err error
			if f[0] == "fes" {
				err = b.ForEach(func(k, v []byte) error {
					parts = append(parts, kvOut(k, v))
					if len(parts) == n {
						return errStop
					}
					return nil
				})
			} else {
				err = b.ForEachBucket(func(k []byte) error {
					parts = append(parts, hx(k))
					if len(parts) == n {
						return errStop
					}
					return nil
				})
			}
			o = "[" + strings.Join(parts, ",") + "]"
			if err == errStop {
				o += "!"
			} else if err != nil {
				o = errStr(err)
			}
		case "pr":
			hs, err := s.txs[f[1]].PruneBlocks(uint64(atoi(f[2])))
			if err != nil {
				o = errStr(err)
				break
			}
			var got []int
			for _, hsh := range hs {
				for _, id := range blockIDs {
					if *blockHash(id) == hsh {
						got = append(got, id)
					}
				}
			}
			sort.Ints(got)
			parts := make([]string, len(got))
			for i, id := range got {
				parts[i] = strconv.Itoa(id)
			}
			o = "[" + strings.Join(parts, "+") + "]"
		case "fi":
			// flush interval of the cache: "fi:0" makes every commit take the flush path
			// (also with an empty cache), "fi:1" restores the interval that never elapses
			h.flushIn = 1000 * time.Hour
			if f[1] == "0" {
				h.flushIn = 0
			}
			ffldb.VerifSetCacheParams(h.db, h.maxCach, h.flushIn)
			o = "ok"
		case "fl":
			o = errStr(ffldb.VerifFlushCache(h.db))
		case "ro":
			closeTxs()
			h.reconfig(f)
			err := h.db.Close()
			h.db = nil
			if err != nil {
				o = "close-" + errStr(err)
			}
			if err := h.open(false); err != nil {
				return strings.Join(append(outs, o+"open-"+errStr(err)), "|")
			}
			if o == "" {
				o = "ok"
			}
		case "cp", "cps":
			// crash: continue on a copy of the directory as it is on disk now
			closeTxs()
			h.reconfig(f)
			img := h.snapshotDir(f[0] == "cps")
			_ = h.db.Close()
			h.db = nil
			h.dir = img
			if err := h.open(false); err != nil {
				return strings.Join(append(outs, "open-"+errStr(err)), "|")
			}
			o = "ok"
		case "ft", "fts":
			h.f.kind, h.f.n, h.f.count, h.f.fired, h.f.sticky = f[1], atoi(f[2]), map[string]int{}, false, f[0] == "fts"
			o = "ok"
		case "fc":
			if h.f.fired {
				o = "fired"
			} else {
				o = "idle"
			}
			h.f.kind = ""
		case "ti", "tis":
			h.f.imgKind, h.f.imgN, h.f.imgSeen, h.f.imgDir, h.f.strict = f[1], atoi(f[2]), 0, "", f[0] == "tis"
			o = "ok"
		case "tx":
			// reopen the captured image (if any) and dump it
			if h.f.imgDir == "" {
				o = "noimg"
				break
			}
			h2 := &dbh{dir: h.f.imgDir, maxFile: h.maxFile, maxCach: h.maxCach, net: h.net, flushIn: h.flushIn}
			h2.f = &faults{count: map[string]int{}, db: h2}
			if err := h2.open(false); err != nil {
				o = "open-" + errStr(err)
			} else {
				if userOnly {
					o = dumpUser(h2.db, blockIDs, blockLens)
				} else {
					o = dumpAll(h2.db, blockIDs, blockLens)
				}
				_ = h2.db.Close()
			}
			h.f.imgKind = ""
		case "wc":
			a, b := ffldb.VerifWriteCursor(h.db)
			o = fmt.Sprintf("%d/%d", a, b)
		case "xf":
			// flip one byte of a block file on disk
			p := h.blockPath(uint32(atoi(f[1])))
			data, err := os.ReadFile(p)
			off := atoi(f[2])
			if err != nil || off >= len(data) {
				o = "nofile"
				break
			}
			data[off] ^= 0x01
			_ = os.WriteFile(p, data, 0o600)
			o = "ok"
		case "du":
			o = dumpUser(h.db, blockIDs, blockLens)
		case "da":
			o = dumpAll(h.db, blockIDs, blockLens)
		default:
			return "bad-op"
		}
		outs = append(outs, o)
	}
	return strings.Join(outs, "|")
}
