package p05

import (
	"fmt"
	"strings"

	"verifharness/core"
)

// dbGen builds one self-contained database history.  It keeps only a rough
// shadow of the state (which bucket paths probably exist, which blocks were
// stored) so that most operations are valid; the outputs never depend on it.
type dbGen struct {
	r       *core.Rand
	ops     []string
	maxFile int
	buckets []string // committed view of bucket paths ("." = root)
	wBkts   []string // writer's view
	keys    [][]byte
	names   [][]byte
	writer  bool
	readers map[string]bool
	ncur    int
	blocks  []int // ids stored (committed or pending)
	blkLen  map[int]int
	nextBlk int
	mixed   bool // allow cursor direction changes (F-C05-a class)
	hasMix  bool
	commits int
}

func newDbGen(r *core.Rand, maxFile int) *dbGen {
	g := &dbGen{r: r, maxFile: maxFile, buckets: []string{"."}, readers: map[string]bool{}, blkLen: map[int]int{}, nextBlk: 1}
	g.keys = keyPool(r, 5+r.Intn(8))
	for i := range g.keys {
		if len(g.keys[i]) == 0 && r.Chance(3, 4) {
			g.keys[i] = []byte{byte(r.Intn(256))}
		}
	}
	g.names = [][]byte{{0x61}, {0x62}, {0x61, 0x00}, {0xff}, {0x00}}
	return g
}

func (g *dbGen) add(format string, a ...any) { g.ops = append(g.ops, fmt.Sprintf(format, a...)) }
func (g *dbGen) key() string                 { return hx(g.keys[g.r.Intn(len(g.keys))]) }
func (g *dbGen) name() string                { return hx(g.names[g.r.Intn(len(g.names))]) }

func (g *dbGen) path(view []string) string {
	// favour nested buckets; the root also holds ffldb's own entries
	if len(view) > 1 && g.r.Chance(4, 5) {
		return view[1+g.r.Intn(len(view)-1)]
	}
	return view[0]
}

func join(path, name string) string {
	if path == "." {
		return name
	}
	return path + "/" + name
}

func (g *dbGen) begin() {
	if !g.writer {
		g.add("bw:w")
		g.writer = true
		g.wBkts = append([]string{}, g.buckets...)
	}
}

func (g *dbGen) end(commit bool) {
	if !g.writer {
		return
	}
	if commit {
		g.add("co:w")
		g.buckets = g.wBkts
		g.commits++
	} else {
		g.add("rb:w")
	}
	g.writer = false
	if g.r.Chance(1, 5) {
		g.deadOps("w")
	}
}

// deadOps uses the handle (and the cursors) of a transaction that has ended:
// everything must report a closed transaction and change nothing.
func (g *dbGen) deadOps(tx string) {
	r := g.r
	for n := 1 + r.Intn(3); n > 0; n-- {
		path := "."
		if len(g.buckets) > 1 && r.Bool() {
			path = g.buckets[1+r.Intn(len(g.buckets)-1)]
		}
		switch r.Intn(16) {
		case 0:
			g.add("p:%s:%s:%s:01", tx, path, g.key())
		case 1:
			g.add("g:%s:%s:%s", tx, path, g.key())
		case 2:
			g.add("d:%s:%s:%s", tx, path, g.key())
		case 3:
			g.add("cb:%s:%s:%s", tx, path, g.name())
		case 4:
			g.add("xb:%s:%s:%s", tx, path, g.name())
		case 5:
			g.add("fe:%s:%s", tx, path)
		case 6:
			g.add("fes:%s:%s:1", tx, path)
		case 7:
			g.add("wr:%s:%s", tx, path)
		case 8:
			g.ncur++
			g.add("cu:%s:c%d:.", tx, g.ncur)
			g.add("%s:c%d", []string{"F", "L", "N", "P", "D", "cbk"}[r.Intn(6)], g.ncur)
		case 9:
			if g.ncur > 0 {
				g.add("%s:c%d", []string{"F", "L", "N", "P", "D", "cbk"}[r.Intn(6)], 1+r.Intn(g.ncur))
			}
		case 10:
			g.add("sb:%s:%d:10", tx, g.nextBlk)
			g.nextBlk++
		case 11:
			g.add("%s:%s:1", []string{"hb", "fk", "fh", "hbs", "fhs"}[r.Intn(5)], tx)
		case 12:
			g.add("fr:%s:1:0:1", tx)
		case 13:
			g.add("pr:%s:%d", tx, g.maxFile)
		case 14:
			g.add("bp:%s", tx)
		default:
			g.add("%s:%s", []string{"co", "rb"}[r.Intn(2)], tx)
		}
	}
}

// walk emits one cursor walk on tx (writer when w).
func (g *dbGen) walk(tx string, view []string, w bool) {
	g.ncur++
	c := fmt.Sprintf("c%d", g.ncur)
	p := g.path(view)
	g.add("cu:%s:%s:%s", tx, c, p)
	if g.r.Chance(1, 10) {
		g.add("cbk:%s", c)
	}
	for seg := 1 + g.r.Intn(3); seg > 0; seg-- {
		fwd := g.r.Chance(3, 5)
		if fwd {
			if g.r.Chance(1, 3) {
				g.add("S:%s:%s", c, g.key())
			} else {
				g.add("F:%s", c)
			}
		} else {
			g.add("L:%s", c)
		}
		for n := g.r.Intn(7); n > 0; n-- {
			switch {
			case w && g.r.Chance(1, 6):
				g.add("D:%s", c)
			case g.mixed && g.r.Chance(1, 4):
				fwd = !fwd
				g.hasMix = true
				fallthrough
			default:
				if fwd {
					g.add("N:%s", c)
				} else {
					g.add("P:%s", c)
				}
			}
			if g.mixed && g.hasMix {
				// no deletes through a cursor whose position the finding affects
				w = false
			}
		}
		if w && g.r.Chance(1, 3) {
			// modify the bucket, which invalidates the cursor until it is repositioned
			g.add("p:%s:%s:%s:%s", tx, p, g.key(), hx(g.r.Bytes(g.r.Intn(3))))
			if seg == 1 {
				seg = 2
			}
		}
	}
}

func (g *dbGen) writerOp() {
	r := g.r
	switch c := r.Intn(22); {
	case c < 7:
		g.add("p:w:%s:%s:%s", g.path(g.wBkts), g.key(), hx(r.Bytes(r.Intn(4))))
	case c < 9:
		g.add("d:w:%s:%s", g.path(g.wBkts), g.key())
	case c < 11:
		g.add("g:w:%s:%s", g.path(g.wBkts), g.key())
	case c < 14:
		p, n := g.wBkts[r.Intn(len(g.wBkts))], g.name()
		op := "cb"
		if r.Chance(1, 4) {
			op = "ci"
		}
		g.add("%s:w:%s:%s", op, p, n)
		np := join(p, n)
		found := false
		for _, b := range g.wBkts {
			found = found || b == np
		}
		if !found && n != "-" {
			g.wBkts = append(g.wBkts, np)
		}
	case c < 15:
		if len(g.wBkts) > 1 {
			victim := g.wBkts[1+r.Intn(len(g.wBkts)-1)]
			i := strings.LastIndex(victim, "/")
			p, n := ".", victim
			if i >= 0 {
				p, n = victim[:i], victim[i+1:]
			}
			g.add("xb:w:%s:%s", p, n)
			var keep []string
			for _, b := range g.wBkts {
				if b != victim && !strings.HasPrefix(b, victim+"/") {
					keep = append(keep, b)
				}
			}
			g.wBkts = keep
		} else {
			g.add("xb:w:.:%s", g.name())
		}
	case c < 16:
		switch r.Intn(4) {
		case 0:
			g.add("fes:w:%s:%d", g.path(g.wBkts), r.Intn(4))
		case 1:
			g.add("feb:w:%s:%d", g.wBkts[r.Intn(len(g.wBkts))], r.Intn(3))
		case 2:
			g.add("wr:w:%s", g.path(g.wBkts))
		default:
			g.add("fe:w:%s", g.path(g.wBkts))
		}
	case c < 18:
		g.walk("w", g.wBkts, true)
	case c < 20:
		id, n := g.nextBlk, 1+r.Intn(150)
		if r.Chance(1, 8) && len(g.blocks) > 0 {
			id = g.blocks[r.Intn(len(g.blocks))] // duplicate
			n = g.blkLen[id]
		} else {
			g.nextBlk++
			g.blocks = append(g.blocks, id)
			g.blkLen[id] = n
		}
		g.add("sb:w:%d:%d", id, n)
	default:
		g.blockRead("w")
	}
}

func (g *dbGen) blockRead(tx string) {
	r := g.r
	id := g.nextBlk
	if len(g.blocks) > 0 && r.Chance(9, 10) {
		id = g.blocks[r.Intn(len(g.blocks))]
	}
	n := g.blkLen[id]
	if len(g.blocks) > 1 && r.Chance(1, 6) {
		// bulk paths
		var parts []string
		for k := 1 + r.Intn(4); k > 0; k-- {
			b := g.blocks[r.Intn(len(g.blocks))]
			if r.Chance(1, 12) {
				b = g.nextBlk
			}
			if r.Bool() {
				parts = append(parts, fmt.Sprintf("%d", b))
			} else {
				bl := g.blkLen[b]
				parts = append(parts, fmt.Sprintf("%d/%d/%d", b, r.Intn(bl+1), r.Intn(bl+3)))
			}
		}
		if strings.Contains(parts[0], "/") {
			for i := range parts {
				if !strings.Contains(parts[i], "/") {
					parts[i] += "/0/1"
				}
			}
			g.add("frs:%s:%s", tx, strings.Join(parts, "+"))
		} else {
			for i := range parts {
				parts[i] = strings.Split(parts[i], "/")[0]
			}
			g.add("fks:%s:%s", tx, strings.Join(parts, "+"))
		}
		return
	}
	if r.Chance(1, 8) {
		var parts []string
		for k := 1 + r.Intn(3); k > 0; k-- {
			b := g.nextBlk
			if len(g.blocks) > 0 && r.Chance(5, 6) {
				b = g.blocks[r.Intn(len(g.blocks))]
			}
			parts = append(parts, fmt.Sprintf("%d", b))
		}
		g.add("%s:%s:%s", []string{"hbs", "fhs"}[r.Intn(2)], tx, strings.Join(parts, "+"))
		return
	}
	if r.Chance(1, 20) {
		g.add("bp:%s", tx)
		return
	}
	switch r.Intn(6) {
	case 0:
		g.add("hb:%s:%d", tx, id)
	case 1, 2:
		g.add("fk:%s:%d", tx, id)
	case 3:
		g.add("fh:%s:%d", tx, id)
	default:
		off, l := r.Intn(n+2), r.Intn(n+2)
		switch r.Intn(8) {
		case 0:
			l = n - off + int(r.Range(-1, 1)) // at / around the end
			if l < 0 {
				l = 0
			}
		case 1:
			off, l = 4294967295, 2 // uint32 wrap
		case 2:
			off, l = n, 0
		}
		g.add("fr:%s:%d:%d:%d", tx, id, off, l)
	}
}

func (g *dbGen) readerOp(tx string) {
	switch c := g.r.Intn(10); {
	case c < 3:
		g.add("g:%s:%s:%s", tx, g.path(g.buckets), g.key())
	case c < 5:
		switch g.r.Intn(4) {
		case 0:
			g.add("fes:%s:%s:%d", tx, g.path(g.buckets), g.r.Intn(4))
		case 1:
			g.add("feb:%s:%s:%d", tx, g.buckets[g.r.Intn(len(g.buckets))], g.r.Intn(3))
		case 2:
			g.add("wr:%s:%s", tx, g.path(g.buckets))
		default:
			g.add("fe:%s:%s", tx, g.path(g.buckets))
		}
	case c < 7:
		g.walk(tx, g.buckets, false)
	case c < 8:
		g.add("p:%s:%s:%s:01", tx, g.path(g.buckets), g.key()) // must be refused
	default:
		g.blockRead(tx)
	}
}

// steps emits n random steps of the history.
func (g *dbGen) steps(n int) {
	r := g.r
	for ; n > 0; n-- {
		switch c := r.Intn(40); {
		case c < 22:
			g.begin()
			g.writerOp()
		case c < 27:
			g.end(r.Chance(4, 5))
		case c < 30:
			id := fmt.Sprintf("r%d", 1+r.Intn(2))
			if !g.readers[id] {
				g.add("br:%s", id)
				g.readers[id] = true
			}
			g.readerOp(id)
		case c < 34:
			for _, id := range []string{"r1", "r2"} {
				if g.readers[id] && (id == "r1") == r.Bool() {
					if r.Chance(1, 2) {
						g.readerOp(id)
					} else {
						g.add("rb:%s", id)
						g.readers[id] = false
						if r.Chance(1, 5) {
							g.deadOps(id)
						}
					}
				}
			}
		case c < 36:
			if !g.writer {
				g.add("fl")
			}
		case c < 37:
			g.end(true)
			g.add("%s", g.reopenOp("ro"))
			g.readers = map[string]bool{}
		case c < 38:
			if !g.writer && len(g.blocks) > 1 {
				g.begin()
				g.add("pr:w:%d", g.maxFile*int(r.Range(0, 3))+int(r.Range(0, 2)))
				g.end(r.Chance(5, 6))
			}
		default:
			g.add("da")
		}
	}
}

// reopenOp: half of the reopens (and crash restarts) come back with another
// block-file limit, cache limit and, rarely, another network.
func (g *dbGen) reopenOp(op string) string {
	r := g.r
	if r.Bool() {
		return op
	}
	net := int64(0xd9b4bef9)
	if r.Chance(1, 6) {
		net = r.Pick(7, 0xd9b4bef9+1)
	}
	g.maxFile = pickMaxFile(r)
	return fmt.Sprintf("%s:%d:%d:%d", op, g.maxFile, pickMaxCache(r), net)
}

func (g *dbGen) line(maxCache int) string {
	return fmt.Sprintf("C05 db %d %d %s", g.maxFile, maxCache, strings.Join(g.ops, " "))
}

func pickMaxFile(r *core.Rand) int  { return int(r.Pick(60, 100, 100, 200, 400, 1000000)) }
func pickMaxCache(r *core.Rand) int { return int(r.Pick(0, 0, 200, 600, 2000, 100000000)) }

// genKv: buckets, keys, cursors, readers, flushes, reopen; few blocks.
func genHistory(r *core.Rand, n int, mixed bool) (string, bool) {
	g := newDbGen(r, pickMaxFile(r))
	g.mixed = mixed
	g.steps(n)
	g.end(true)
	g.add("da")
	if r.Chance(1, 2) {
		g.add("ro")
		g.add("da")
	}
	return g.line(pickMaxCache(r)), g.commits >= 2 && (!mixed || g.hasMix)
}

// genBlocks: block-heavy history with tiny files, prune, corruption, crash.
func genBlocks(r *core.Rand) (string, bool) {
	g := newDbGen(r, int(r.Pick(60, 100, 200)))
	// boundary stream: blocks that end exactly at / one below / one above the
	// file size limit (alone, or as the second block of the file)
	edge := []int{}
	if r.Chance(2, 3) {
		d := int(r.Pick(0, 0, -1, 1))
		if r.Chance(1, 2) {
			edge = append(edge, g.maxFile-12+d)
		} else {
			n1 := 1 + r.Intn(g.maxFile-30)
			edge = append(edge, n1, g.maxFile-(n1+12)-12+d)
		}
	}
	// simulated layout of the block files (exact while nothing was pruned or lost)
	simFile, simOff, simExact := 0, 0, true
	for tx := 2 + r.Intn(4); tx > 0; tx-- {
		g.begin()
		var lens []int
		for b := 1 + r.Intn(4); b > 0; b-- {
			id, n := g.nextBlk, 1+r.Intn(150)
			if r.Chance(1, 5) {
				n = int(r.Pick(79, 80, 81)) // around the header size
			}
			if len(edge) > 0 {
				n, edge = edge[0], edge[1:]
				if n < 1 {
					n = 1
				}
			}
			g.nextBlk++
			g.blocks = append(g.blocks, id)
			g.blkLen[id] = n
			lens = append(lens, n)
			g.add("sb:w:%d:%d", id, n)
			if r.Chance(1, 3) {
				g.blockRead("w")
			}
		}
		if r.Chance(1, 3) {
			g.add("p:w:.:%s:%s", g.key(), hx(r.Bytes(2)))
		}
		if commit := r.Chance(5, 6); commit {
			g.end(true)
			for _, n := range lens {
				if simOff+n+12 > g.maxFile {
					simFile, simOff = simFile+1, 0
				}
				simOff += n + 12
			}
		} else {
			g.end(false)
		}
		if simExact && simFile > 0 && r.Chance(1, 2) {
			// prune decisions exactly at / one below the size estimate, observed in
			// transactions that are rolled back
			total := simOff + g.maxFile*simFile
			for _, t := range []int{total, total - 1, total - g.maxFile, total - g.maxFile - 1} {
				if t >= g.maxFile {
					g.add("bw:w")
					g.add("pr:w:%d", t)
					g.add("rb:w")
				}
			}
		}
		switch r.Intn(8) {
		case 0:
			g.add("fl")
		case 1:
			if op := g.reopenOp("ro"); op != "ro" {
				g.add("%s", op)
				simExact = false
			} else {
				g.add("ro")
			}
		case 2:
			g.add("%s", g.reopenOp("cp"))
			simExact = false
		case 3:
			g.add("%s", g.reopenOp("cps"))
			simExact = false
		case 4:
			simExact = false
			g.begin()
			// around the size estimate when the last file holds just the last block
			last := 0
			if len(g.blocks) > 0 {
				last = g.blkLen[g.blocks[len(g.blocks)-1]] + 12 + int(r.Range(-1, 1))
			}
			g.add("pr:w:%d", g.maxFile*int(r.Range(1, 3))+int(r.Pick(0, int64(last))))
			if r.Chance(1, 4) {
				g.add("pr:w:%d", g.maxFile*int(r.Range(1, 3)))
			}
			g.end(r.Chance(5, 6))
		case 5:
			g.add("xf:%d:%d", r.Intn(3), r.Intn(g.maxFile))
		}
		g.add("wc")
		g.add("br:r1")
		for k := 1 + r.Intn(4); k > 0; k-- {
			g.blockRead("r1")
		}
		g.add("rb:r1")
	}
	g.add("da")
	g.add("ro")
	g.add("da")
	return toAdm(g.line(pickMaxCache(r))), true
}

// genFaultFamily: one base history; a fault of one kind is armed before a
// chosen step; one line per n (the n-th call of that kind fails).
var faultKinds = []string{"writeat", "sync", "openw", "remove", "truncate", "open", "readat", "writeat"}

func genFaultFamily(r *core.Rand, kind string, emit func(class string, line string)) {
	g := newDbGen(r, int(r.Pick(60, 100, 200)))
	maxCache := pickMaxCache(r)
	// prologue: some committed state with blocks in several files
	for tx := 1 + r.Intn(3); tx > 0; tx-- {
		g.begin()
		for b := 1 + r.Intn(3); b > 0; b-- {
			id, n := g.nextBlk, 1+r.Intn(120)
			g.nextBlk++
			g.blocks = append(g.blocks, id)
			g.blkLen[id] = n
			g.add("sb:w:%d:%d", id, n)
		}
		g.add("p:w:.:%s:%s", g.key(), hx(r.Bytes(2)))
		g.end(true)
		if r.Chance(1, 3) {
			g.add("fl")
		}
	}
	pro := append([]string{}, g.ops...)
	// the step under fault
	g.ops = nil
	switch kind {
	case "open", "readat":
		g.add("ro")
		g.add("br:r1")
		for k := 2 + r.Intn(3); k > 0; k-- {
			g.blockRead("r1")
		}
		g.add("rb:r1")
	default:
		g.begin()
		if kind == "remove" || r.Chance(1, 4) {
			g.add("pr:w:%d", g.maxFile*int(r.Range(1, 2)))
		}
		for b := r.Intn(4); b > 0; b-- {
			id, n := g.nextBlk, 1+r.Intn(120)
			g.nextBlk++
			g.blocks = append(g.blocks, id)
			g.blkLen[id] = n
			g.add("sb:w:%d:%d", id, n)
		}
		g.add("p:w:.:%s:%s", g.key(), hx(r.Bytes(2)))
		g.end(true)
		if r.Chance(1, 3) {
			g.add("fl")
		}
	}
	faulted := append([]string{}, g.ops...)
	// epilogue: the store must go on working and reopen to a consistent state
	g.ops = nil
	g.add("fc")
	g.add("wc")
	g.add("da")
	g.begin()
	id, n := g.nextBlk, 1+r.Intn(120)
	g.add("sb:w:%d:%d", id, n)
	g.add("p:w:.:%s:%s", g.key(), hx(r.Bytes(2)))
	g.end(true)
	g.add("da")
	g.add("%s", []string{"ro", "cp", "cps"}[r.Intn(3)])
	g.add("da")
	epi := g.ops
	nmax := 10
	if kind == "remove" || kind == "openw" || kind == "truncate" || kind == "open" {
		nmax = 4
	}
	for n := 1; n <= nmax; n++ {
		ops := append(append(append(append([]string{}, pro...), fmt.Sprintf("ft:%s:%d", kind, n)), faulted...), epi...)
		emit("fault-"+kind, fmt.Sprintf("C05 db %d %d %s", g.maxFile, maxCache, strings.Join(ops, " ")))
	}
}

// genImageFamily: the directory is copied right before the n-th I/O call of a
// kind (a crash image, optionally without un-synced data) and reopened at the end.
func genImageFamily(r *core.Rand, emit func(class string, line string)) {
	g := newDbGen(r, int(r.Pick(60, 100, 200)))
	maxCache := int(r.Pick(0, 0, 200, 600))
	for tx := 2 + r.Intn(4); tx > 0; tx-- {
		g.begin()
		for b := r.Intn(3); b > 0; b-- {
			id, n := g.nextBlk, 1+r.Intn(120)
			g.nextBlk++
			g.add("sb:w:%d:%d", id, n)
		}
		g.add("p:w:.:%s:%s", g.key(), hx(r.Bytes(2)))
		if r.Chance(1, 3) {
			g.add("cb:w:.:%s", g.name())
		}
		g.end(r.Chance(7, 8))
		if r.Chance(1, 4) {
			g.add("fl")
		}
	}
	body := g.ops
	op := []string{"ti", "tis"}[r.Intn(2)]
	for _, kind := range []string{"writeat", "sync", "openw"} {
		nmax := 8
		if kind != "writeat" {
			nmax = 3
		}
		for n := 1; n <= nmax; n++ {
			ops := append(append([]string{fmt.Sprintf("%s:%s:%d", op, kind, n)}, body...), "tx", "da")
			emit("image-"+op+"-"+kind, fmt.Sprintf("C05 db %d %d %s", g.maxFile, maxCache, strings.Join(ops, " ")))
		}
	}
}

// genLru: more block files than read handles are kept open (maxOpenFiles = 25):
// one block per file, every file read, early ones read again; also with the
// n-th read-only open failing.
func genLru(r *core.Rand, big bool, emit func(class string, line string)) {
	nfiles := int(r.Pick(24, 25, 26))
	if big {
		nfiles = int(r.Pick(27, 30))
	}
	var ops []string
	ops = append(ops, "bw:w")
	for i := 1; i <= nfiles+1; i++ {
		ops = append(ops, fmt.Sprintf("sb:w:%d:40", i))
	}
	ops = append(ops, "co:w", "wc")
	reads := []string{"br:r"}
	for i := 1; i <= nfiles; i++ {
		reads = append(reads, fmt.Sprintf("fk:r:%d", i))
		if r.Chance(1, 4) {
			reads = append(reads, fmt.Sprintf("fk:r:%d", 1+r.Intn(i)))
		}
	}
	for k := 0; k < 10; k++ {
		reads = append(reads, fmt.Sprintf("fr:r:%d:1:3", 1+r.Intn(nfiles)))
	}
	// oldest and newest handles again, in both orders
	reads = append(reads, "fk:r:1", fmt.Sprintf("fk:r:%d", nfiles), "fk:r:2", fmt.Sprintf("fk:r:%d", nfiles-1), "fk:r:1")
	reads = append(reads, "rb:r")
	tail := []string{"bw:w", fmt.Sprintf("pr:w:%d", 60*int(r.Range(1, 20))), "co:w", "br:r", "fk:r:1",
		fmt.Sprintf("fk:r:%d", nfiles), fmt.Sprintf("fk:r:%d", nfiles+1), "rb:r", "da"}
	if big {
		// exactly at the handle limit: after k distinct files the first one is read again
		// with the next open failing; it must still be open for k = 25 and reopened for k = 26
		for _, k := range []int{24, 25, 26} {
			all := append(append([]string{}, ops...), "br:r")
			for i := 1; i <= k; i++ {
				all = append(all, fmt.Sprintf("fk:r:%d", i))
			}
			all = append(all, "ft:open:1", "fk:r:1", "fc", "fk:r:2", "fk:r:1", "rb:r")
			emit("lru", "C05 db 60 100000000 "+strings.Join(all, " "))
		}
	}
	for _, n := range []int{0, 1, 25, 26, 27, 29, 33} {
		all := append([]string{}, ops...)
		if n > 0 {
			all = append(all, fmt.Sprintf("ft:open:%d", n))
		}
		all = append(append(append(all, reads...), "fc"), tail...)
		emit("lru", "C05 db 60 100000000 "+strings.Join(all, " "))
	}
}

// genFlushBoundary: the cache holds exactly one user key and the write-cursor
// row when the second commit decides whether to flush; the cache limit sits one
// below / at / one above the decision value, and a crash restart shows which
// commits had been flushed.
func genFlushBoundary(r *core.Rand, emit func(class string, line string)) {
	a, b := 1+r.Intn(3), r.Intn(4)
	total := (72 + 4 + a + b) + (72 + 4 + 14 + 12)
	t := total * 3 / 2
	for _, mc := range []int{t - 1, t, t + 1} {
		ops := []string{"bw:w", fmt.Sprintf("p:w:.:%s:%s", hx(r.Bytes(a)), hx(r.Bytes(b))), "co:w",
			"bw:w", "p:w:.:7a7a:01", "co:w", "cp", "da", "bw:w", "p:w:.:7a7b:02", "co:w", "cps", "da"}
		emit("flush-boundary", fmt.Sprintf("C05 db 1000 %d %s", mc, strings.Join(ops, " ")))
	}
}

// genParBlocks: several instances append many blocks of different lengths at
// the same time (one commit per block) and read everything back.
func genParBlocks(r *core.Rand) string {
	var subs []string
	for i := 0; i < 8; i++ {
		var ops []string
		n := 50 + r.Intn(25)
		for b := 1; b <= n; b++ {
			ops = append(ops, "bw:w", fmt.Sprintf("sb:w:%d:%d", b, 1+(b*37+i*11)%200), "co:w")
		}
		ops = append(ops, "br:r")
		for b := 1; b <= n; b += 1 + r.Intn(3) {
			ops = append(ops, fmt.Sprintf("hb:r:%d", b))
		}
		ops = append(ops, "rb:r", "da", "wc")
		subs = append(subs, fmt.Sprintf("db %d 100000000 %s", int(r.Pick(300, 1000, 1000000)), strings.Join(ops, " ")))
	}
	return "C05 par " + strings.Join(subs, " // ")
}

// genLifecycle enumerates, per key, what happened to it in each layer: in
// leveldb (flushed commit: nothing / put), in three successive cached commits
// (nothing / put / delete each) and in the open transaction (nothing / put /
// delete): 2*3*3*3*3 = 162 life cycles, four keys (plus one nested bucket that
// follows the first key's cycle) per line.  Get, ForEach and a cursor walk are
// observed after every commit, inside the open transaction, after its commit
// or rollback, after the flush and after reopen.
func genLifecycle(r *core.Rand, emit func(class string, line string)) {
	const ncombo = 162
	keys := []string{"00", "61", "6100", "ff"}
	for base := 0; base < ncombo; base += len(keys) {
		var ops []string
		add := func(f string, a ...any) { ops = append(ops, fmt.Sprintf(f, a...)) }
		digit := func(i, phase int) int { // 0 = ldb (2 values), 1..4 (3 values)
			c := (base + i) % ncombo
			if phase == 0 {
				return c % 2
			}
			c /= 2
			for p := 1; p < phase; p++ {
				c /= 3
			}
			return c % 3
		}
		observe := func(tx string) {
			for _, k := range keys {
				add("g:%s:6c:%s", tx, k)
			}
			add("fe:%s:6c", tx)
			add("cu:%s:cc:6c", tx)
			add("F:cc")
			for range keys {
				add("N:cc")
			}
			add("L:cc")
			add("P:cc")
		}
		reader := func() {
			add("br:r")
			observe("r")
			add("rb:r")
		}
		apply := func(phase int) {
			for i, k := range keys {
				switch d := digit(i, phase); {
				case phase == 0 && d == 1, phase > 0 && d == 1:
					add("p:w:6c:%s:%02x%02x", k, phase+1, i)
					if i == 0 {
						add("ci:w:6c:62")
						add("p:w:6c/62:01:%02x", phase+1)
					}
				case phase > 0 && d == 2:
					if r.Bool() {
						add("d:w:6c:%s", k)
					} else {
						add("cu:w:cd:6c")
						add("S:cd:%s", k)
						add("D:cd")
					}
					if i == 0 {
						add("xb:w:6c:62")
					}
				}
			}
		}
		add("bw:w")
		add("cb:w:.:6c")
		add("co:w")
		add("bw:w")
		apply(0)
		add("co:w")
		add("fl")
		for phase := 1; phase <= 3; phase++ {
			add("bw:w")
			apply(phase)
			add("co:w")
			reader()
		}
		add("bw:w")
		apply(4)
		observe("w")
		if r.Chance(3, 4) {
			add("co:w")
		} else {
			add("rb:w")
		}
		reader()
		add("fl")
		reader()
		add("ro")
		add("da")
		emit("key-lifecycle", "C05 db 1000000 100000000 "+strings.Join(ops, " "))
	}
}

// toAdm turns a history that contains an injected fault, a crash restart or an
// image capture into an admissibility line ("dbf"): what is compared is
// membership of the implementation's answers in the set the property admits,
// and only user-level observations are made (no file layout, no write cursor).
func toAdm(line string) string {
	f := strings.Fields(line)
	if len(f) < 3 || f[1] != "db" {
		return line
	}
	need := false
	for _, t := range f[4:] {
		if strings.HasPrefix(t, "ft:") || strings.HasPrefix(t, "ti:") || strings.HasPrefix(t, "tis:") ||
			t == "cp" || t == "cps" || strings.HasPrefix(t, "cp:") || strings.HasPrefix(t, "cps:") {
			need = true
		}
	}
	if !need {
		return line
	}
	out := []string{"C05", "dbf", f[2], f[3]}
	for _, t := range f[4:] {
		switch {
		case t == "wc" || strings.HasPrefix(t, "xf:"):
		case t == "da":
			out = append(out, "du")
		case strings.HasPrefix(t, "ro:") || strings.HasPrefix(t, "cp:") || strings.HasPrefix(t, "cps:"):
			// the network stays (reads under another network are exercised by the exact lines)
			p := strings.Split(t, ":")
			p[len(p)-1] = "3652501241"
			out = append(out, strings.Join(p, ":"))
		default:
			out = append(out, t)
		}
	}
	return strings.Join(out, " ")
}

// genPruneCrash: blocks over several files, a prune commit that stays in the
// cache, and a crash right after it (plain and without un-synced data): the
// reopened index must not refer to block files that are gone.
func genPruneCrash(r *core.Rand, emit func(class string, line string)) {
	maxFile := int(r.Pick(60, 100, 200))
	ops := []string{"bw:w"}
	n := 4 + r.Intn(5)
	for i := 1; i <= n; i++ {
		ops = append(ops, fmt.Sprintf("sb:w:%d:%d", i, 20+r.Intn(maxFile)))
	}
	ops = append(ops, "p:w:.:61:01", "co:w")
	if r.Bool() {
		ops = append(ops, "fl")
	}
	ops = append(ops, "bw:w", fmt.Sprintf("pr:w:%d", maxFile*int(r.Range(1, 2))), "p:w:.:62:02", "co:w")
	for _, crash := range []string{"cp", "cps"} {
		all := append(append([]string{}, ops...), crash, "du", "bw:w", fmt.Sprintf("sb:w:%d:33", n+1), "co:w", "du", "ro", "du")
		emit("prune-crash", fmt.Sprintf("C05 db %d 100000000 %s", maxFile, strings.Join(all, " ")))
	}
}

// genSyncOrder: block-storing commits under forced flush conditions (flush
// interval 0 or cache limit 0) with an EMPTY and with a non-empty metadata
// cache, and after every commit boundary a crash on the adversarial but legal
// disk: every block file cut back to its last fsynced length.  The reopen must
// succeed, show some prefix of the commits, and every indexed block must read
// back intact.
func genSyncOrder(r *core.Rand, emit func(class string, line string)) {
	maxFile := int(r.Pick(100, 200, 1000000))
	maxCache := int(r.Pick(0, 0, 100000000))
	ncommit := 2 + r.Intn(4)
	var commits [][]string
	id := 1
	for c := 0; c < ncommit; c++ {
		var ops []string
		switch r.Intn(4) {
		case 0:
			ops = append(ops, "fi:0")
		case 1:
			ops = append(ops, "fi:1")
		}
		ops = append(ops, "bw:w")
		if r.Chance(4, 5) {
			for b := 1 + r.Intn(2); b > 0; b-- {
				ops = append(ops, fmt.Sprintf("sb:w:%d:%d", id, 1+r.Intn(120)))
				id++
			}
		}
		if r.Bool() {
			ops = append(ops, fmt.Sprintf("p:w:.:%02x:%02x", 0x61+c, c))
		}
		ops = append(ops, "co:w")
		commits = append(commits, ops)
	}
	first := "fi:0"
	if r.Chance(1, 3) {
		first = "fi:1"
	}
	for cut := 1; cut <= ncommit; cut++ {
		all := []string{first}
		for _, c := range commits[:cut] {
			all = append(all, c...)
		}
		all = append(all, "cps", "du", "bw:w", fmt.Sprintf("sb:w:%d:17", id), "co:w", "du", "cps", "du")
		emit("sync-order", fmt.Sprintf("C05 db %d %d %s", maxFile, maxCache, strings.Join(all, " ")))
	}
}
