package p13

import (
	"crypto/sha256"
	"fmt"
	"strconv"
	"strings"

	"github.com/btcsuite/btcd/blockchain"
	"github.com/btcsuite/btcd/chainhash/v2"
	"github.com/btcsuite/btcd/txscript/v2"
	"github.com/btcsuite/btcd/wire/v2"
	"verifharness/core"
)

// ---------------------------------------------------------------- building blocks

func randOutPoint(r *core.Rand) wire.OutPoint {
	var op wire.OutPoint
	copy(op.Hash[:], r.Bytes(32))
	op.Index = uint32(r.Intn(4))
	return op
}

// smallTx is a compact random transaction used as a merkle leaf.
func smallTx(r *core.Rand, allowWitness bool) *wire.MsgTx {
	t := &wire.MsgTx{Version: int32(r.Pick(1, 2)), LockTime: uint32(r.Intn(3))}
	in := &wire.TxIn{PreviousOutPoint: randOutPoint(r), Sequence: uint32(r.Pick(0xffffffff, 0xfffffffe, 0))}
	if r.Chance(1, 3) {
		in.SignatureScript = r.Bytes(r.Intn(4))
	}
	if allowWitness && r.Chance(1, 2) {
		n := 1 + r.Intn(2)
		for i := 0; i < n; i++ {
			in.Witness = append(in.Witness, r.Bytes(r.Intn(3)))
		}
	}
	t.TxIn = []*wire.TxIn{in}
	if r.Chance(2, 3) {
		t.TxOut = []*wire.TxOut{{Value: int64(r.Intn(1000)), PkScript: r.Bytes(r.Intn(3))}}
	}
	return t
}

func coinbaseTx(r *core.Rand, outs []*wire.TxOut, witness wire.TxWitness) *wire.MsgTx {
	return &wire.MsgTx{Version: 1, TxIn: []*wire.TxIn{{
		PreviousOutPoint: wire.OutPoint{Index: 0xffffffff},
		SignatureScript:  []byte{0x01, byte(17 + r.Intn(100))},
		Sequence:         0xffffffff, Witness: witness}}, TxOut: outs}
}

// leafList builds n leaves; dupTail > 0 makes the last dupTail entries copies
// of one transaction, mirror > 0 repeats the last `mirror` entries once more
// (the CVE-2012-2459 shape).
func leafList(r *core.Rand, n, dupTail, mirror int, witness bool) []*wire.MsgTx {
	var out []*wire.MsgTx
	if n > 0 {
		out = append(out, coinbaseTx(r, []*wire.TxOut{{Value: 50, PkScript: []byte{0x51}}}, nil))
	}
	for len(out) < n {
		out = append(out, smallTx(r, witness))
	}
	for i := 0; i < dupTail && n-1-i >= 1; i++ {
		out[n-1-i] = out[n-1]
	}
	if mirror > 0 && mirror < n {
		out = append(out, out[n-mirror:]...)
	}
	return out
}

func dsha(b []byte) []byte {
	a := sha256.Sum256(b)
	c := sha256.Sum256(a[:])
	return c[:]
}

// naiveRoot is the harness' own level-wise root (only used to BUILD valid
// witness commitments for the generator; never compared).
func naiveRoot(leaves [][]byte) []byte {
	if len(leaves) == 0 {
		return make([]byte, 32)
	}
	for len(leaves) > 1 {
		if len(leaves)%2 == 1 {
			leaves = append(leaves, leaves[len(leaves)-1])
		}
		var next [][]byte
		for i := 0; i < len(leaves); i += 2 {
			next = append(next, dsha(append(append([]byte{}, leaves[i]...), leaves[i+1]...)))
		}
		leaves = next
	}
	return leaves[0]
}

func commitmentScript(root, nonce []byte, extra []byte) []byte {
	c := dsha(append(append([]byte{}, root...), nonce...))
	s := append([]byte{0x6a, 0x24, 0xaa, 0x21, 0xa9, 0xed}, c...)
	return append(s, extra...)
}

// ---------------------------------------------------------------- scripts

var sigopBytes = []byte{0xac, 0xad, 0xae, 0xaf}

// randScript builds a script from the whole opcode alphabet: well-formed
// pushes of all four kinds, small ints in front of multisig opcodes, sigop
// bytes hidden inside push data, and (optionally) a truncated tail.
func randScript(r *core.Rand, maxOps int, truncated bool) []byte {
	var s []byte
	n := r.Intn(maxOps + 1)
	for i := 0; i < n; i++ {
		switch r.Intn(12) {
		case 0, 1:
			s = append(s, sigopBytes[r.Intn(4)])
		case 2:
			s = append(s, byte(0x50+r.Intn(18)), sigopBytes[2+r.Intn(2)]) // 0x50..0x61 then CMS
		case 3:
			s = append(s, 0x00, sigopBytes[2+r.Intn(2)])
		case 4:
			l := 1 + r.Intn(75)
			s = append(s, byte(l))
			s = append(s, pushData(r, l)...)
		case 5:
			l := r.Intn(90)
			s = append(s, 0x4c, byte(l))
			s = append(s, pushData(r, l)...)
		case 6:
			l := r.Intn(300)
			s = append(s, 0x4d, byte(l), byte(l>>8))
			s = append(s, pushData(r, l)...)
		case 7:
			l := r.Intn(40)
			s = append(s, 0x4e, byte(l), 0, 0, 0)
			s = append(s, pushData(r, l)...)
		case 8:
			s = append(s, byte(0x4f+r.Intn(18))) // 1NEGATE, RESERVED, OP_1..16
		default:
			s = append(s, byte(r.Intn(256)))
		}
	}
	if truncated {
		switch r.Intn(5) {
		case 0:
			l := 2 + r.Intn(74)
			s = append(s, byte(l))
			s = append(s, r.Bytes(r.Intn(l))...)
		case 1:
			s = append(s, 0x4c)
			if r.Bool() {
				s = append(s, byte(5+r.Intn(200)))
				s = append(s, r.Bytes(r.Intn(5))...)
			}
		case 2:
			s = append(s, 0x4d)
			s = append(s, r.Bytes(r.Intn(2))...)
			if len(s)%2 == 0 {
				s = append(s, 0xff, 0x7f)
			}
		case 3:
			s = append(s, 0x4e)
			switch r.Intn(3) {
			case 0:
				s = append(s, r.Bytes(r.Intn(4))...)
			case 1:
				s = append(s, 0, 0, 0, 0x80) // negative as int32
			default:
				s = append(s, 0xff, 0xff, 0xff, 0xff)
			}
		default:
			if len(s) > 0 {
				s = s[:r.Intn(len(s))]
			}
		}
		// something countable after the break must not be counted
		s = append(s, sigopBytes[r.Intn(4)])
	}
	return s
}

func pushData(r *core.Rand, l int) []byte {
	d := r.Bytes(l)
	for i := range d {
		if r.Chance(1, 4) {
			d[i] = sigopBytes[r.Intn(4)]
		}
	}
	return d
}

// pushOnly builds a push-only script whose last push is `last` (canonical
// opcode for its size unless nonCanon).
func pushOnly(r *core.Rand, last []byte, nonCanon bool) []byte {
	var s []byte
	for i := r.Intn(3); i > 0; i-- {
		switch r.Intn(3) {
		case 0:
			s = append(s, byte(0x4f+r.Intn(18)))
		case 1:
			s = append(s, 0x00)
		default:
			l := 1 + r.Intn(72)
			s = append(s, byte(l))
			s = append(s, r.Bytes(l)...)
		}
	}
	return append(s, pushOf(last, nonCanon)...)
}

func pushOf(d []byte, nonCanon bool) []byte {
	l := len(d)
	var s []byte
	switch {
	case nonCanon && l <= 0xff:
		s = []byte{0x4d, byte(l), 0}
	case l == 0:
		return []byte{0x00}
	case l <= 75:
		s = []byte{byte(l)}
	case l <= 0xff:
		s = []byte{0x4c, byte(l)}
	default:
		s = []byte{0x4d, byte(l), byte(l >> 8)}
	}
	return append(s, d...)
}

func p2shScript(r *core.Rand) []byte {
	return append(append([]byte{0xa9, 0x14}, r.Bytes(20)...), 0x87)
}

// pkVariant returns a scriptPubKey: exact templates and near misses.
func pkVariant(r *core.Rand) ([]byte, string) {
	switch r.Intn(14) {
	case 0, 1, 2:
		return p2shScript(r), "p2sh"
	case 3:
		s := p2shScript(r)
		i := int(r.Pick(0, 1, 22))
		s[i] ^= byte(1 << r.Intn(8))
		return s, "p2sh-flip"
	case 4:
		s := p2shScript(r)
		if r.Bool() {
			return s[:22], "p2sh-short"
		}
		return append(s, 0x87), "p2sh-long"
	case 5, 6:
		return append([]byte{0x00, 0x14}, r.Bytes(20)...), "p2wpkh"
	case 7, 8:
		return append([]byte{0x00, 0x20}, r.Bytes(32)...), "p2wsh"
	case 9:
		return append([]byte{0x51, 0x20}, r.Bytes(32)...), "p2tr"
	case 10:
		// witness program of arbitrary version / size incl. out-of-range sizes
		v := byte(r.Pick(0x00, 0x4f, 0x50, 0x51, 0x52, 0x60, 0x61))
		l := int(r.Pick(1, 2, 3, 19, 20, 21, 31, 32, 33, 39, 40, 41))
		return append([]byte{v, byte(l)}, r.Bytes(l)...), "wprog-var"
	case 11:
		// length byte disagrees with the script length / non-canonical push forms
		l := int(r.Pick(2, 20, 32))
		switch r.Intn(4) {
		case 0:
			return append([]byte{0x00, byte(l + 1)}, r.Bytes(l)...), "wprog-shortdata"
		case 1:
			return append([]byte{0x00, byte(l)}, r.Bytes(l+1)...), "wprog-trailing"
		case 2:
			return append([]byte{0x00, 0x4c, byte(l)}, r.Bytes(l)...), "wprog-pushdata1"
		default:
			return append([]byte{0x00, 0x4d, byte(l), 0}, r.Bytes(l)...), "wprog-pushdata2"
		}
	case 12:
		return randScript(r, 6, r.Chance(1, 3)), "pk-script"
	default:
		// short scripts around the 4-byte lower bound
		return [][]byte{{0x00, 0x01, 0x05}, {0x00, 0x02, 0x05, 0x06}, {0x51, 0x61, 0x61, 0x61}, {0x00, 0x51, 0x51, 0x51},
			{0x00, 0x02, 0x01, 0x01}, {0x60, 0x02, 0xaa, 0xbb}, {0x00, 0x00, 0x00, 0x00}}[r.Intn(7)], "wprog-tiny"
	}
}

func witnessFor(r *core.Rand) wire.TxWitness {
	switch r.Intn(5) {
	case 0:
		return nil
	case 1:
		return wire.TxWitness{randScript(r, 8, r.Chance(1, 4))}
	case 2:
		return wire.TxWitness{r.Bytes(r.Intn(5)), r.Bytes(r.Intn(40)), randScript(r, 8, r.Chance(1, 4))}
	case 3:
		return wire.TxWitness{randScript(r, 4, false), {}}
	default:
		ms := []byte{byte(0x51 + r.Intn(16)), 0x21}
		ms = append(ms, r.Bytes(33)...)
		ms = append(ms, byte(0x51+r.Intn(16)), byte(0xae+r.Intn(2)))
		return wire.TxWitness{{}, ms}
	}
}

func sigScriptFor(r *core.Rand) ([]byte, string) {
	switch r.Intn(9) {
	case 0:
		return nil, "empty"
	case 1, 2:
		return pushOnly(r, randScript(r, 8, r.Chance(1, 4)), r.Chance(1, 6)), "push-redeem"
	case 3, 4:
		pk, c := pkVariant(r)
		return pushOnly(r, pk, r.Chance(1, 8)), "push-" + c
	case 5:
		s := pushOnly(r, randScript(r, 4, false), false)
		return append(s, byte(0x61+r.Intn(0x9e))), "non-push-tail"
	case 6:
		s := pushOnly(r, randScript(r, 4, false), false)
		return append(s, byte(0x4f+r.Intn(18))), "last-smallint"
	case 7:
		s := pushOnly(r, randScript(r, 6, false), false)
		if len(s) > 1 {
			s = s[:len(s)-1-r.Intn(len(s)-1)]
		}
		return s, "cut"
	default:
		return randScript(r, 6, r.Chance(1, 2)), "random"
	}
}

// ---------------------------------------------------------------- generators

func (P) Generate(g *core.Gen) {
	// a generator that calls into a (possibly mutated) tree must not take the harness down: a
	// panic while generating becomes a case that Go and Lean answer differently
	run := func(name string, f func(*core.Gen, *core.Rand)) {
		r := g.R.Fork()
		defer func() {
			if e := recover(); e != nil {
				g.Case("generator-panic", true, "C13 genpanic "+name)
			}
		}()
		f(g, r)
	}
	run("merkle", genMerkle)
	run("commit", genCommit)
	run("weight", genWeight)
	run("sigops", genSigops)
	run("height", genHeight)
	run("final", genFinal)
	run("seqlock", genSeqLock)
	run("hardening", genHardening)
	run("round3", genRound3)
}

func genMerkle(g *core.Gen, r *core.Rand) {
	maxSmall := 130
	for n := 0; n <= maxSmall; n++ {
		for w := 0; w <= 1; w++ {
			txs := leafList(r, n, 0, 0, w == 1)
			tok := txsTok(txs)
			g.Case("merkle-exhaustive", n >= 2, fmt.Sprintf("C13 merkle %d %s", w, tok))
			if n <= g.N(40, 130) || n%16 <= 1 || n%16 == 15 {
				g.Case("merkle-store-full", n >= 2, fmt.Sprintf("C13 mstore %d %s", w, tok))
				g.Case("merkle-rolling-model", n >= 2, fmt.Sprintf("C13 mroll %d %s", w, tok))
			}
		}
	}
	// duplicated tails and mirrored tails (mutated-block shapes)
	for i := 0; i < g.N(120, 600); i++ {
		n := 1 + r.Intn(70)
		dup, mir := 0, 0
		switch r.Intn(3) {
		case 0:
			dup = 1 + r.Intn(4)
		case 1:
			mir = 1 + r.Intn(8)
		default:
			dup, mir = 1+r.Intn(3), 1+r.Intn(4)
		}
		w := r.Intn(2)
		tok := txsTok(leafList(r, n, dup, mir, w == 1))
		op := []string{"merkle", "mstore", "mroll"}[r.Intn(3)]
		g.Case("merkle-duptail", true, fmt.Sprintf("C13 %s %d %s", op, w, tok))
	}
	// large random counts
	for i := 0; i < g.N(4, 24); i++ {
		n := 131 + r.Intn(g.N(1200, 4870))
		if i == 0 {
			n = g.N(1025, 4097)
		}
		w := r.Intn(2)
		tok := txsTok(leafList(r, n, r.Intn(3), 0, w == 1))
		g.Case("merkle-large", true, fmt.Sprintf("C13 merkle %d %s", w, tok))
		if i%2 == 0 {
			g.Case("merkle-large", true, fmt.Sprintf("C13 mroll %d %s", w, tok))
		}
	}
}

func genCommit(g *core.Gen, r *core.Rand) {
	magic := []byte{0x6a, 0x24, 0xaa, 0x21, 0xa9, 0xed}
	mkOut := func(kind int) (*wire.TxOut, bool) {
		var s []byte
		hit := false
		switch kind {
		case 0:
			s = append(append([]byte{}, magic...), r.Bytes(32)...)
			hit = true
		case 1:
			s = append(append([]byte{}, magic...), r.Bytes(33+r.Intn(8))...)
			hit = true
		case 2:
			s = append(append([]byte{}, magic...), r.Bytes(31-r.Intn(3))...) // 35..37 bytes
		case 3:
			s = append(append([]byte{}, magic...), r.Bytes(32)...)
			s[r.Intn(6)] ^= byte(1 << r.Intn(8))
		case 4:
			s = append([]byte{0x51}, append(append([]byte{}, magic...), r.Bytes(32)...)...)
		case 5:
			s = r.Bytes(r.Intn(45))
		case 6:
			s = magic[:r.Intn(7)]
		default:
			s = append([]byte{0x76, 0xa9, 0x14}, append(r.Bytes(20), 0x88, 0xac)...)
		}
		return &wire.TxOut{Value: int64(r.Intn(5000)), PkScript: s}, hit
	}
	for i := 0; i < g.N(500, 3000); i++ {
		n := r.Intn(6)
		var outs []*wire.TxOut
		hits := 0
		for j := 0; j < n; j++ {
			o, h := mkOut(r.Intn(8))
			if h {
				hits++
			}
			outs = append(outs, o)
		}
		t := coinbaseTx(r, outs, nil)
		class := "commit-cb"
		switch r.Intn(10) {
		case 0:
			t.TxIn[0].PreviousOutPoint.Index = uint32(r.Pick(0, 0xfffffffe))
			class = "commit-not-cb"
		case 1:
			t.TxIn[0].PreviousOutPoint.Hash[r.Intn(32)] = 1
			class = "commit-not-cb"
		case 2:
			t.TxIn = append(t.TxIn, &wire.TxIn{PreviousOutPoint: wire.OutPoint{Index: 0xffffffff}})
			class = "commit-not-cb"
		}
		g.Case(class, hits >= 1, "C13 commit "+txTok(t))
	}

	// whole blocks through ValidateWitnessCommitment
	for i := 0; i < g.N(300, 2000); i++ {
		n := 1 + r.Intn(9)
		txs := leafList(r, n, 0, 0, r.Chance(3, 4))
		leaves := [][]byte{make([]byte, 32)}
		for _, t := range txs[1:] {
			h := t.WitnessHash()
			leaves = append(leaves, h[:])
		}
		root := naiveRoot(leaves)
		nonce := r.Bytes(32)
		class := "vwc-valid"
		cbOuts := []*wire.TxOut{{Value: 50, PkScript: []byte{0x51}}}
		wit := wire.TxWitness{nonce}
		switch k := r.Intn(14); k {
		case 0:
			class = "vwc-no-commitment" // ok iff no tx has a witness
			wit = nil
			if r.Bool() {
				wit = wire.TxWitness{nonce}
			}
		case 1:
			class = "vwc-nonce-len"
			wit = wire.TxWitness{r.Bytes(int(r.Pick(0, 31, 33, 64)))}
			cbOuts = append(cbOuts, &wire.TxOut{PkScript: commitmentScript(root, nonce, nil)})
		case 2:
			class = "vwc-witness-items"
			wit = wire.TxWitness{nonce, nonce}
			if r.Bool() {
				wit = nil
			}
			cbOuts = append(cbOuts, &wire.TxOut{PkScript: commitmentScript(root, nonce, nil)})
		case 3:
			class = "vwc-mismatch"
			s := commitmentScript(root, nonce, nil)
			s[6+r.Intn(32)] ^= byte(1 << r.Intn(8))
			cbOuts = append(cbOuts, &wire.TxOut{PkScript: s})
		case 4:
			class = "vwc-last-wins"
			good := &wire.TxOut{PkScript: commitmentScript(root, nonce, nil)}
			bad := &wire.TxOut{PkScript: commitmentScript(r.Bytes(32), nonce, nil)}
			if r.Bool() {
				cbOuts = append(cbOuts, bad, good)
			} else {
				cbOuts = append(cbOuts, good, bad)
			}
		case 5:
			class = "vwc-trailing-bytes"
			cbOuts = append(cbOuts, &wire.TxOut{PkScript: commitmentScript(root, nonce, r.Bytes(1+r.Intn(6)))})
		case 6:
			class = "vwc-wrong-root" // commitment to the txid root instead of the wtxid root
			var ids [][]byte
			for _, t := range txs {
				h := t.TxHash()
				ids = append(ids, h[:])
			}
			cbOuts = append(cbOuts, &wire.TxOut{PkScript: commitmentScript(naiveRoot(ids), nonce, nil)})
		case 7:
			class = "vwc-cb-leaf-not-zero" // commitment computed with the real coinbase wtxid
			cb := coinbaseTx(r, cbOuts, wit)
			h := cb.WitnessHash()
			l2 := append([][]byte{h[:]}, leaves[1:]...)
			cbOuts = append(cbOuts, &wire.TxOut{PkScript: commitmentScript(naiveRoot(l2), nonce, nil)})
		default:
			cbOuts = append([]*wire.TxOut{{PkScript: commitmentScript(root, nonce, nil)}}, cbOuts...)
			if r.Bool() {
				cbOuts[0], cbOuts[len(cbOuts)-1] = cbOuts[len(cbOuts)-1], cbOuts[0]
			}
		}
		sig := txs[0].TxIn[0].SignatureScript
		txs[0] = coinbaseTx(r, cbOuts, wit)
		txs[0].TxIn[0].SignatureScript = sig
		g.Case(class, n >= 2, "C13 vwc "+txsTok(txs))
		if i%3 == 0 {
			g.Case(class+"-frombytes", n >= 2, "C13 vwcb "+txsTok(txs))
		}
	}
	g.Case("vwc-empty", false, "C13 vwc _")
	g.Case("vwc-no-inputs", false, "C13 vwc "+txsTok([]*wire.MsgTx{{Version: 1}}))
	g.Case("vwc-no-inputs", false, "C13 vwc "+txsTok([]*wire.MsgTx{{Version: 1, TxOut: []*wire.TxOut{{PkScript: commitmentScript(make([]byte, 32), make([]byte, 32), nil)}}}}))
}

func sizedBytes(r *core.Rand, n int) []byte {
	b := make([]byte, n)
	if n > 0 {
		b[0] = byte(r.U64())
		b[n-1] = byte(r.U64())
	}
	return b
}

func genWeight(g *core.Gen, r *core.Rand) {
	lens := []int{0, 1, 2, 75, 76, 251, 252, 253, 254, 255, 256, 300}
	randTx := func() *wire.MsgTx {
		t := &wire.MsgTx{Version: int32(r.U32()), LockTime: r.U32()}
		nin := r.Intn(4)
		for i := 0; i < nin; i++ {
			in := &wire.TxIn{PreviousOutPoint: randOutPoint(r), Sequence: r.U32(),
				SignatureScript: sizedBytes(r, lens[r.Intn(len(lens))])}
			if r.Chance(1, 2) {
				k := r.Intn(4)
				if r.Chance(1, 12) {
					k = int(r.Pick(252, 253, 254, 300)) // witness item count at the varint boundary
				}
				for j := 0; j < k; j++ {
					if k > 100 {
						in.Witness = append(in.Witness, sizedBytes(r, r.Intn(3)))
					} else {
						in.Witness = append(in.Witness, sizedBytes(r, lens[r.Intn(len(lens))]))
					}
				}
			}
			t.TxIn = append(t.TxIn, in)
		}
		nout := r.Intn(4)
		for i := 0; i < nout; i++ {
			t.TxOut = append(t.TxOut, &wire.TxOut{Value: int64(r.U64()), PkScript: sizedBytes(r, lens[r.Intn(len(lens))])})
		}
		return t
	}
	for i := 0; i < g.N(400, 3000); i++ {
		t := randTx()
		g.Case("weight-tx", len(t.TxIn)+len(t.TxOut) > 0, "C13 txw "+txTok(t))
	}
	// varint boundaries: counts of inputs / outputs / witness items, 64 KiB scripts
	for _, n := range []int{252, 253, 254} {
		t := &wire.MsgTx{Version: 2}
		for i := 0; i < n; i++ {
			t.TxIn = append(t.TxIn, &wire.TxIn{PreviousOutPoint: wire.OutPoint{Index: uint32(i)}})
		}
		g.Case("weight-boundary", true, "C13 txw "+txTok(t))
		t = &wire.MsgTx{Version: 2, TxIn: []*wire.TxIn{{}}}
		for i := 0; i < n; i++ {
			t.TxOut = append(t.TxOut, &wire.TxOut{Value: int64(i)})
		}
		g.Case("weight-boundary", true, "C13 txw "+txTok(t))
		t = &wire.MsgTx{Version: 2, TxIn: []*wire.TxIn{{}, {}}}
		for i := 0; i < n; i++ {
			t.TxIn[1].Witness = append(t.TxIn[1].Witness, []byte{byte(i)})
		}
		g.Case("weight-boundary", true, "C13 txw "+txTok(t))
	}
	for _, n := range []int{65535, 65536} {
		t := &wire.MsgTx{Version: 2, TxIn: []*wire.TxIn{{SignatureScript: sizedBytes(r, n)}},
			TxOut: []*wire.TxOut{{PkScript: sizedBytes(r, n)}}}
		t.TxIn[0].Witness = wire.TxWitness{sizedBytes(r, n)}
		g.Case("weight-boundary", true, "C13 txw "+txTok(t))
	}
	for i := 0; i < g.N(120, 800); i++ {
		n := r.Intn(7)
		if r.Chance(1, 10) {
			n = int(r.Pick(252, 253, 254))
		}
		var txs []*wire.MsgTx
		for j := 0; j < n; j++ {
			if n > 100 {
				txs = append(txs, smallTx(r, true))
			} else {
				txs = append(txs, randTx())
			}
		}
		g.Case("weight-block", n > 0, "C13 blkw "+txsTok(txs))
	}
}

func genSigops(g *core.Gen, r *core.Rand) {
	// every single opcode alone, after OP_n, and in front of CHECKMULTISIG
	for op := 0; op < 256; op++ {
		g.Case("sigops-alphabet", true, fmt.Sprintf("C13 sigops %s", hx([]byte{byte(op)})))
		g.Case("sigops-alphabet", true, fmt.Sprintf("C13 sigops %s", hx([]byte{byte(op), 0xae})))
		g.Case("sigops-alphabet", true, fmt.Sprintf("C13 sigops %s", hx([]byte{byte(op), 0xac, 0xac, 0xac, 0xac, 0xac, 0xaf})))
		if op >= 1 && op <= 0x4e {
			// push whose data is exactly / one short of what it announces, data full of sigops
			var hdr []byte
			l := op
			switch op {
			case 0x4c:
				l = 3
				hdr = []byte{0x4c, 3}
			case 0x4d:
				l = 3
				hdr = []byte{0x4d, 3, 0}
			case 0x4e:
				l = 3
				hdr = []byte{0x4e, 3, 0, 0, 0}
			default:
				hdr = []byte{byte(op)}
			}
			data := make([]byte, l)
			for i := range data {
				data[i] = 0xac
			}
			g.Case("sigops-push-exact", true, "C13 sigops "+hx(append(append(append([]byte{0xac}, hdr...), data...), 0xac)))
			g.Case("sigops-push-short", true, "C13 sigops "+hx(append(append([]byte{0xac}, hdr...), data[:l-1]...)))
		}
	}
	g.Case("sigops-empty", false, "C13 sigops -")
	for i := 0; i < g.N(1500, 12000); i++ {
		tr := r.Chance(1, 3)
		s := randScript(r, 12, tr)
		cl := "sigops-structured"
		if tr {
			cl = "sigops-truncated"
		}
		g.Case(cl, len(s) > 0, "C13 sigops "+hx(s))
	}
	for i := 0; i < g.N(500, 4000); i++ {
		g.Case("sigops-random-bytes", true, "C13 sigops "+hx(r.Bytes(1+r.Intn(40))))
	}
	for i := 0; i < g.N(1500, 10000); i++ {
		sig, c1 := sigScriptFor(r)
		pk, c2 := pkVariant(r)
		if r.Chance(1, 2) {
			pk, c2 = p2shScript(r), "p2sh"
		}
		g.Case("p2sh:"+c2, c1 != "empty", fmt.Sprintf("C13 p2sh %s %s", hx(sig), hx(pk)))
		_ = c1
	}
	for i := 0; i < g.N(1500, 10000); i++ {
		sig, _ := sigScriptFor(r)
		pk, c2 := pkVariant(r)
		if r.Chance(1, 4) {
			sig = nil
		}
		g.Case("wsig:"+c2, true, fmt.Sprintf("C13 wsig %s %s %s", hx(sig), hx(pk), witTok(witnessFor(r))))
	}
	// whole transactions
	for i := 0; i < g.N(800, 6000); i++ {
		t := &wire.MsgTx{Version: 2}
		nin := 1 + r.Intn(4)
		var us []string
		for j := 0; j < nin; j++ {
			sig, _ := sigScriptFor(r)
			in := &wire.TxIn{PreviousOutPoint: randOutPoint(r), SignatureScript: sig, Sequence: 0xffffffff, Witness: witnessFor(r)}
			t.TxIn = append(t.TxIn, in)
			pk, _ := pkVariant(r)
			switch {
			case r.Chance(1, 25):
				us = append(us, "x")
			case r.Chance(1, 25):
				us = append(us, "s"+hx(pk))
			default:
				us = append(us, hx(pk))
			}
		}
		for j := r.Intn(3); j > 0; j-- {
			pk, _ := pkVariant(r)
			t.TxOut = append(t.TxOut, &wire.TxOut{Value: 1, PkScript: pk})
		}
		cb := r.Chance(1, 8)
		if cb && r.Bool() {
			// a real coinbase (null outpoint) whose own scripts carry sigops
			t.TxIn = t.TxIn[:1]
			us = us[:1]
			t.TxIn[0].PreviousOutPoint = wire.OutPoint{Index: 0xffffffff}
			t.TxIn[0].SignatureScript = append([]byte{0x02, 0x11, 0x22}, randScript(r, 4, false)...)
			t.TxOut = append(t.TxOut, &wire.TxOut{Value: 1, PkScript: []byte{0x51, 0xae, 0xac}})
		}
		g.Case("sigop-cost", true, fmt.Sprintf("C13 cost %s %s %s %s %s", txTok(t), b01(cb), b01(r.Chance(4, 5)), b01(r.Chance(4, 5)), strings.Join(us, ",")))
	}
}

func heightScriptOf(h int64) []byte {
	s, err := txscript.NewScriptBuilder().AddInt64(h).Script()
	if err != nil {
		panic(err)
	}
	return s
}

func genHeight(g *core.Gen, r *core.Rand) {
	emit := func(class string, s []byte, want int64) {
		g.Case(class, len(s) > 0, fmt.Sprintf("C13 cbh %s %d", hx(s), want))
	}
	bounds := []int64{0, 1, 2, 15, 16, 17, 18, 126, 127, 128, 129, 254, 255, 256, 257, 32766, 32767, 32768, 32769,
		65535, 65536, 8388606, 8388607, 8388608, 8388609, 16777215, 16777216, 2147483646, 2147483647,
		-1, -2, -127, -128, -129, -32768, -2147483647, -2147483648}
	for _, h := range bounds {
		s := heightScriptOf(h)
		emit("height-boundary", s, h)
		emit("height-boundary", append(append([]byte{}, s...), r.Bytes(1+r.Intn(8))...), h+int64(r.Intn(2)))
		// non-minimal: pad the number with a zero byte
		if len(s) > 1 && s[0] < 0x4c {
			p := append([]byte{s[0] + 1}, s[1:]...)
			p = append(p, 0x00)
			emit("height-nonminimal", p, h)
			emit("height-short", s[:len(s)-1], h)
		}
	}
	for v := 0; v <= 0x82; v++ {
		emit("height-one-byte-push", []byte{0x01, byte(v)}, int64(v))
	}
	for op := 0; op < 256; op++ {
		emit("height-first-byte", []byte{byte(op)}, int64(op))
		emit("height-first-byte", append([]byte{byte(op)}, r.Bytes(op)...), int64(r.Intn(100)))
		emit("height-first-byte", append([]byte{byte(op)}, make([]byte, op+1)...), 0)
	}
	emit("height-empty", nil, 0)
	for i := 0; i < g.N(1500, 12000); i++ {
		var h int64
		switch r.Intn(4) {
		case 0:
			h = r.Range(0, 1000000)
		case 1:
			h = r.Range(0, 1<<31-1)
		case 2:
			h = r.Range(-(1 << 31), 1<<31-1)
		default:
			h = bounds[r.Intn(len(bounds))] + r.Range(-2, 2)
			if h > 1<<31-1 || h < -(1<<31) {
				h = 0
			}
		}
		s := heightScriptOf(h)
		want := h
		switch r.Intn(8) {
		case 0:
			want = h + r.Pick(-1, 1)
		case 1:
			s = append(s, r.Bytes(r.Intn(90))...)
		case 2:
			// length 5..8 pushes: only the first four bytes are read
			l := int(r.Pick(5, 6, 8))
			s = append([]byte{byte(l)}, r.Bytes(l)...)
			if r.Bool() {
				s[4] = byte(r.Pick(0x00, 0x80, 0x7f))
				s[5] = byte(r.Pick(0x00, 0x80))
			}
		case 3:
			if len(s) > 1 {
				s[len(s)-1] ^= byte(r.Pick(0x80, 0x01))
			}
		}
		emit("height-random", s, want)
	}
}

func genFinal(g *core.Gen, r *core.Rand) {
	const th = 500000000
	seqSets := []string{"_", "4294967295", "4294967294", "0", "4294967295,4294967295", "4294967295,4294967294",
		"4294967294,4294967295", "4294967295,4294967295,0", "2147483648"}
	near := func(xs ...int64) []int64 {
		var out []int64
		for _, x := range xs {
			for d := int64(-1); d <= 1; d++ {
				if x+d >= 0 {
					out = append(out, x+d)
				}
			}
		}
		return out
	}
	heights := near(0, 100, th-1, 2147483646)
	times := near(0, 100, th, th+1000, 4294967295)
	heights = append(heights, -1, -2147483648)
	times = append(times, -1, 1<<33)
	for _, h := range heights {
		for _, t := range times {
			lts := near(0, h, t, th, 4294967294)
			for _, lt := range lts {
				if lt > 4294967295 || lt < 0 {
					continue
				}
				ss := seqSets[r.Intn(len(seqSets))]
				g.Case("final-grid", lt != 0, fmt.Sprintf("C13 final %d %d %d %s", lt, h, t, ss))
			}
		}
	}
	for _, ss := range seqSets {
		for _, lt := range []int64{0, 1, 99, 100, 101, th - 1, th, th + 1, th + 1000, th + 1001, 4294967295} {
			g.Case("final-seqs", lt != 0, fmt.Sprintf("C13 final %d 100 %d %s", lt, th+1000, ss))
		}
	}
	for i := 0; i < g.N(1000, 8000); i++ {
		var lt int64
		h := r.Range(0, 1000000)
		t := r.Range(th, th+100000000)
		switch r.Intn(4) {
		case 0:
			lt = h + r.Range(-2, 2)
		case 1:
			lt = t + r.Range(-2, 2)
		case 2:
			lt = th + r.Range(-2, 2)
		default:
			lt = int64(r.U32())
		}
		if lt < 0 {
			lt = 0
		}
		var seqs []string
		for j := r.Intn(4); j > 0; j-- {
			seqs = append(seqs, strconv.FormatUint(uint64(r.Pick(0xffffffff, 0xffffffff, 0xffffffff, 0xfffffffe, 0, 0x80000000)), 10))
		}
		ss := "_"
		if len(seqs) > 0 {
			ss = strings.Join(seqs, ",")
		}
		g.Case("final-random", lt != 0, fmt.Sprintf("C13 final %d %d %d %s", lt, h, t, ss))
	}
}

func genSeqLock(g *core.Gen, r *core.Rand) {
	seqOf := func() uint32 {
		v := uint32(r.Pick(0, 1, 2, 0xfffe, 0xffff, int64(r.Intn(0x10000))))
		if r.Chance(1, 2) {
			v |= 1 << 22
		}
		if r.Chance(1, 6) {
			v |= 1 << 31
		}
		if r.Chance(1, 3) {
			v |= uint32(r.Intn(1<<5)) << 16 // bits 16..20: ignored
		}
		if r.Chance(1, 8) {
			v |= uint32(r.Intn(1<<8)) << 23 // bits 23..30: ignored
		}
		return v
	}
	for i := 0; i < g.N(2500, 20000); i++ {
		n := 1 + r.Intn(30)
		base := int64(1500000000)
		ts := make([]string, n)
		for j := range ts {
			base += r.Range(-300, 900)
			ts[j] = strconv.FormatInt(base, 10)
		}
		ver := uint32(r.Pick(0, 1, 2, 2, 2, 3, 0x7fffffff, 0x80000000, 0xffffffff))
		act := !r.Chance(1, 8)
		cb := r.Chance(1, 12)
		nin := 1 + r.Intn(4)
		if cb {
			nin = 1
		}
		var ins []string
		missing := false
		for j := 0; j < nin; j++ {
			h := "m"
			switch r.Intn(8) {
			case 0:
			case 1:
				if r.Chance(1, 4) {
					h = "x"
					missing = true
				}
			case 2:
				h = "0"
			case 3:
				h = "1"
			case 4:
				h = strconv.Itoa(n - 1)
			default:
				h = strconv.Itoa(r.Intn(n))
			}
			ins = append(ins, fmt.Sprintf("%d:%s", seqOf(), h))
		}
		class := "seqlock"
		switch {
		case cb:
			class = "seqlock-coinbase"
		case !act:
			class = "seqlock-csv-inactive"
		case ver < 2:
			class = "seqlock-version<2"
		case missing:
			class = "seqlock-missing-input"
		}
		g.Case(class, act && ver >= 2 && !cb, fmt.Sprintf("C13 seqlock %s %d %s %s %s", b01(act), ver, b01(cb), strings.Join(ts, ","), strings.Join(ins, ",")))
	}
	for _, lt := range []uint32{0, 1, 511, 512, 513, 1023, 1024, 65535, 65536, 1<<25 - 1, 1 << 25, 1<<25 + 511, 1<<31 - 1, 1 << 31, 1<<32 - 1} {
		for _, secs := range []bool{false, true} {
			g.Case("lt2seq", lt > 0, fmt.Sprintf("C13 lt2seq %s %d", b01(secs), lt))
		}
	}
	for i := 0; i < g.N(100, 1000); i++ {
		g.Case("lt2seq", true, fmt.Sprintf("C13 lt2seq %s %d", b01(r.Bool()), r.U32()>>uint(r.Intn(24))))
	}
	// evaluation at every boundary
	for _, s := range []int64{-1, 0, 1499999999, 1500000000, 1500000001} {
		for _, h := range []int64{-1, 0, 99, 100, 101, 2147483647} {
			for _, bh := range []int64{0, 99, 100, 101, 102, 2147483647} {
				for _, mtp := range []int64{0, 1499999999, 1500000000, 1500000001, 1500000002} {
					g.Case("lockactive-grid", true, fmt.Sprintf("C13 lockactive %d %d %d %d", s, h, bh, mtp))
				}
			}
		}
	}
}

// ---------------------------------------------------------------- hardening round

func randHash(r *core.Rand) string {
	switch r.Intn(6) {
	case 0:
		return strings.Repeat("00", 32)
	case 1:
		return strings.Repeat("ff", 32)
	}
	return hx(r.Bytes(32))
}

// subLine builds one self-contained case (without the "C13 " prefix) for the
// concurrent groups; every kind touches package-level state of btcd (opcode
// table, serializer buffer pool, hash caches).
func subLine(r *core.Rand) string {
	switch r.Intn(12) {
	case 0:
		return "sigops " + hx(randScript(r, 10, r.Chance(1, 3)))
	case 1:
		sig, _ := sigScriptFor(r)
		return fmt.Sprintf("p2sh %s %s", hx(sig), hx(p2shScript(r)))
	case 2:
		sig, _ := sigScriptFor(r)
		pk, _ := pkVariant(r)
		return fmt.Sprintf("wsig %s %s %s", hx(sig), hx(pk), witTok(witnessFor(r)))
	case 3:
		w := r.Intn(2)
		return fmt.Sprintf("merkle %d %s", w, txsTok(leafList(r, 1+r.Intn(24), r.Intn(2), 0, w == 1)))
	case 4:
		return "mvalues " + txsTok(leafList(r, r.Intn(16), 0, 0, true))
	case 5:
		n := 1 + r.Intn(12)
		w := r.Intn(2)
		return fmt.Sprintf("merkleb %d %d %s", w, r.Intn(n+1)-1, txsTok(leafList(r, n, 0, 0, true)))
	case 6:
		return "txw " + txTok(smallTx(r, true))
	case 7:
		return "tok " + hx(randScript(r, 8, r.Chance(1, 3)))
	case 8:
		pk, _ := pkVariant(r)
		return "script " + hx(pk)
	case 9:
		return fmt.Sprintf("hmb %s %s", randHash(r), randHash(r))
	case 10:
		h := r.Range(0, 1<<31-1)
		return fmt.Sprintf("cbh %s %d", hx(append(heightScriptOf(h), r.Bytes(r.Intn(4))...)), h)
	default:
		return fmt.Sprintf("final %d %d %d %d", r.Pick(0, 1, 499999999, 500000000, 500000001), r.Intn(3), 500000000+r.Intn(3), r.Pick(0xffffffff, 0xfffffffe))
	}
}

func genHardening(g *core.Gen, r *core.Rand) {
	// A1: every exported entry point ------------------------------------
	for i := 0; i < g.N(60, 400); i++ {
		g.Case("hash-merkle-branches", true, fmt.Sprintf("C13 hmb %s %s", randHash(r), randHash(r)))
	}
	// IsCoinBase / IsCoinBaseTx: null outpoint exactly
	cbBase := func() *wire.MsgTx { return coinbaseTx(r, nil, nil) }
	g.Case("is-coinbase", true, "C13 iscb "+txTok(cbBase()))
	for b := 0; b < 32; b++ {
		t := cbBase()
		t.TxIn[0].PreviousOutPoint.Hash[b] = byte(1 << r.Intn(8))
		g.Case("is-coinbase", true, "C13 iscb "+txTok(t))
	}
	for _, idx := range []uint32{0, 1, 0x7fffffff, 0x80000000, 0xfffffffe, 0xffffffff} {
		t := cbBase()
		t.TxIn[0].PreviousOutPoint.Index = idx
		g.Case("is-coinbase", true, "C13 iscb "+txTok(t))
	}
	{
		t := cbBase()
		t.TxIn = nil
		g.Case("is-coinbase", false, "C13 iscb "+txTok(t))
		t = cbBase()
		t.TxIn = append(t.TxIn, t.TxIn[0])
		g.Case("is-coinbase", true, "C13 iscb "+txTok(t))
		t = cbBase()
		t.TxIn = append([]*wire.TxIn{{PreviousOutPoint: randOutPoint(r)}}, t.TxIn...)
		g.Case("is-coinbase", true, "C13 iscb "+txTok(t))
	}
	// tokenizer: every instruction, where it stops
	for op := 0; op < 256; op++ {
		g.Case("tokenizer", true, "C13 tok "+hx(append([]byte{byte(op)}, r.Bytes(r.Intn(80))...)))
	}
	for i := 0; i < g.N(600, 5000); i++ {
		g.Case("tokenizer", true, "C13 tok "+hx(randScript(r, 10, r.Chance(1, 3))))
	}
	g.Case("tokenizer", false, "C13 tok -")
	// exported script predicates: all versions x program sizes around 2 / 40, total sizes 3..43
	for v := 0; v < 256; v++ {
		l := int(r.Pick(2, 20, 32, 40))
		g.Case("script-predicates", true, "C13 script "+hx(append([]byte{byte(v), byte(l)}, r.Bytes(l)...)))
	}
	for _, v := range []byte{0x00, 0x4f, 0x50, 0x51, 0x60, 0x61} {
		for l := 0; l <= 42; l++ {
			for d := -1; d <= 1; d++ {
				if l+d < 0 {
					continue
				}
				g.Case("script-predicates", true, "C13 script "+hx(append([]byte{v, byte(l)}, r.Bytes(l+d)...)))
			}
		}
	}
	for i := 0; i < g.N(500, 4000); i++ {
		pk, _ := pkVariant(r)
		if r.Chance(1, 3) {
			pk, _ = sigScriptFor(r)
		}
		g.Case("script-predicates", len(pk) > 0, "C13 script "+hx(pk))
	}
	// merkle roots through blocks decoded from bytes (cached raw bytes), optionally with one
	// transaction wrapped lazily before Transactions()
	for n := 1; n <= g.N(24, 70); n++ {
		for w := 0; w <= 1; w++ {
			txs := txsTok(leafList(r, n, r.Intn(2), 0, true))
			for _, pre := range []int{-2, -1, 0, n / 2, n - 1} {
				g.Case("merkle-from-bytes", n >= 2, fmt.Sprintf("C13 merkleb %d %d %s", w, pre, txs))
			}
		}
	}
	for op := 0; op < 256; op++ {
		g.Case("small-int", true, fmt.Sprintf("C13 smallint %d", op))
	}
	for _, v := range []int64{-2147483648, -1, 0, 1, 2, 3, 4, 536870912, 2147483647} {
		g.Case("serialized-height-version", true, fmt.Sprintf("C13 shh %d", v))
	}
	// A2: results are values
	for n := 0; n <= g.N(33, 80); n++ {
		g.Case("merkle-values", n >= 2, "C13 mvalues "+txsTok(leafList(r, n, 0, 0, true)))
	}
	// A3: no hidden shared state: 10 instances at once, each repeated
	for i := 0; i < g.N(40, 300); i++ {
		subs := make([]string, 8+r.Intn(5))
		for j := range subs {
			subs[j] = strings.ReplaceAll(subLine(r), " ", "^")
		}
		g.Case("concurrent-group", true, "C13 par "+strings.Join(subs, "~"))
	}
	// A5: boundary triples ------------------------------------------------
	// push lengths where the opcode / length prefix changes
	type pd struct {
		op  byte
		lb  int
		len int
	}
	for _, c := range []pd{{0, 0, 74}, {0, 0, 75}, {0x4c, 1, 0}, {0x4c, 1, 74}, {0x4c, 1, 75}, {0x4c, 1, 76}, {0x4c, 1, 254}, {0x4c, 1, 255},
		{0x4d, 2, 0}, {0x4d, 2, 255}, {0x4d, 2, 256}, {0x4d, 2, 257}, {0x4d, 2, 65534}, {0x4d, 2, 65535},
		{0x4e, 4, 0}, {0x4e, 4, 65535}, {0x4e, 4, 65536}, {0x4e, 4, 65537}} {
		var hdr []byte
		if c.lb == 0 {
			hdr = []byte{byte(c.len)}
		} else {
			hdr = []byte{c.op}
			for k := 0; k < c.lb; k++ {
				hdr = append(hdr, byte(c.len>>(8*k)))
			}
		}
		data := bytes0xac(c.len)
		for _, short := range []int{0, 1} {
			if c.len-short < 0 {
				continue
			}
			s := append(append([]byte{0xac}, hdr...), data[:c.len-short]...)
			if short == 0 {
				s = append(s, 0x51, 0xae)
			}
			g.Case("push-length-boundary", true, "C13 sigops "+hx(s))
			g.Case("push-length-boundary", true, "C13 tok "+hx(s))
			if c.len <= 300 {
				g.Case("push-length-boundary", true, fmt.Sprintf("C13 p2sh %s %s", hx(s), hx(p2shScript(r))))
			}
		}
	}
	// redeem scripts of every push size class as the last push of a scriptSig
	for _, l := range []int{0, 1, 74, 75, 76, 77, 254, 255, 256, 257, 519, 520, 521} {
		redeem := bytes0xac(l)
		g.Case("redeem-size-boundary", true, fmt.Sprintf("C13 p2sh %s %s", hx(pushOf(redeem, false)), hx(p2shScript(r))))
		g.Case("redeem-size-boundary", true, fmt.Sprintf("C13 wsig - %s %s", hx(append([]byte{0x00, 0x20}, r.Bytes(32)...)), witTok(wire.TxWitness{{0x01}, redeem})))
	}
	// sequence numbers at every flag / mask edge, median window sizes 10/11/12
	edges := []uint32{0, 1, 0xfffe, 0xffff, 0x10000, 0x10001, 0x1ffff, 1<<22 - 1, 1 << 22, 1<<22 + 1, 1<<22 | 0xffff, 1<<22 | 0x10000,
		1<<23 | 5, 1<<31 - 1, 1 << 31, 1<<31 | 1<<22 | 7, 0xfffffffe, 0xffffffff}
	for _, L := range []int{1, 2, 3, 10, 11, 12, 13, 22, 23, 24} {
		ts := make([]string, L)
		for j := range ts {
			ts[j] = strconv.FormatInt(1500000000+int64(r.Intn(5000)), 10)
		}
		for _, h := range []int{0, 1, 2, 9, 10, 11, 12, L - 2, L - 1} {
			if h < 0 || h >= L {
				continue
			}
			e := edges[r.Intn(len(edges))] | 1<<22
			e &^= 1 << 31
			g.Case("seqlock-median-window", true, fmt.Sprintf("C13 seqlock 1 2 0 %s %d:%d,%d:m", strings.Join(ts, ","), e, h, e))
		}
	}
	for _, e := range edges {
		g.Case("seqlock-flag-edges", true, fmt.Sprintf("C13 seqlock 1 2 0 1500000000,1500000700,1500000300 %d:1,%d:2,%d:m", e, e, e))
		g.Case("seqlock-flag-edges", true, fmt.Sprintf("C13 lt2seq 1 %d", e))
	}
	for _, v := range []uint32{0, 1, 2, 3, 1<<31 - 1, 1 << 31, 1<<32 - 1} {
		g.Case("seqlock-version-edges", v >= 2, fmt.Sprintf("C13 seqlock 1 %d 0 1500000000,1500000700 65535:1,4259839:0", v))
		g.Case("seqlock-version-edges", false, fmt.Sprintf("C13 seqlock 0 %d 0 1500000000,1500000700 65535:1,4259839:0", v))
	}
	// multisig key counts around the small-int range in accurate mode
	for _, op := range []byte{0x4f, 0x50, 0x51, 0x52, 0x5f, 0x60, 0x61, 0x00, 0x01} {
		s := []byte{op}
		if op == 0x01 {
			s = append(s, 0x10)
		}
		for _, cms := range []byte{0xae, 0xaf} {
			g.Case("multisig-count-boundary", true, "C13 sigops "+hx(append(append([]byte{}, s...), cms)))
			g.Case("multisig-count-boundary", true, fmt.Sprintf("C13 wsig - %s %s", hx(append([]byte{0x00, 0x20}, r.Bytes(32)...)), witTok(wire.TxWitness{append(append([]byte{}, s...), cms)})))
		}
	}
	// merkle: odd counts >= 5 and 2^k +- 1 through every path
	for _, n := range []int{5, 7, 9, 11, 13, 15, 17, 31, 33, 63, 65, 127, 129, 255, 257, 511, 513} {
		tok := txsTok(leafList(r, n, 0, 0, true))
		for w := 0; w <= 1; w++ {
			g.Case("merkle-odd-and-pow2", true, fmt.Sprintf("C13 merkle %d %s", w, tok))
			g.Case("merkle-odd-and-pow2", true, fmt.Sprintf("C13 mroll %d %s", w, tok))
			if n <= 129 {
				g.Case("merkle-odd-and-pow2", true, fmt.Sprintf("C13 mstore %d %s", w, tok))
				g.Case("merkle-odd-and-pow2", true, fmt.Sprintf("C13 merkleb %d %d %s", w, n-2, tok))
			}
		}
	}
}

func bytes0xac(n int) []byte {
	b := make([]byte, n)
	for i := range b {
		b[i] = 0xac
	}
	return b
}

// plainTx passes CheckTransactionSanity and has no sigops unless asked for.
func plainTx(r *core.Rand, sigops int) *wire.MsgTx {
	pk := []byte{0x51}
	if sigops > 0 {
		pk = bytes0xac(sigops)
	}
	return &wire.MsgTx{Version: 1, TxIn: []*wire.TxIn{{PreviousOutPoint: randOutPoint(r), Sequence: 0xffffffff}},
		TxOut: []*wire.TxOut{{Value: int64(1 + r.Intn(1000)), PkScript: pk}}}
}

func txidRoot(txs []*wire.MsgTx) []byte {
	var ids [][]byte
	for _, t := range txs {
		h := t.TxHash()
		ids = append(ids, h[:])
	}
	return naiveRoot(ids)
}

// grind finds a nonce whose header hash meets the regtest target (the proof of
// work is not what these cases observe).
func grind(root []byte) uint32 {
	var h chainhash.Hash
	copy(h[:], root)
	target := blockchain.CompactToBig(0x207fffff)
	for n := uint32(0); n < 1<<16; n++ {
		hdr := sanityHeader(h, n)
		bh := hdr.BlockHash()
		if blockchain.HashToBig(&bh).Cmp(target) <= 0 {
			return n
		}
	}
	return 0 // a tree where nothing meets the regtest target: the case then shows the difference
}

func genSanity(g *core.Gen, r *core.Rand) {
	emit := func(class string, root []byte, txs []*wire.MsgTx) {
		g.Case(class, len(txs) >= 2, fmt.Sprintf("C13 sanity %s %d %d %s", hx(root), grind(root), r.Intn(2), txsTok(txs)))
	}
	mk := func(n int) []*wire.MsgTx {
		txs := []*wire.MsgTx{coinbaseTx(r, []*wire.TxOut{{Value: 50, PkScript: []byte{0x51}}}, nil)}
		for len(txs) < n {
			txs = append(txs, plainTx(r, 0))
		}
		return txs
	}
	for i := 0; i < g.N(150, 1000); i++ {
		n := 1 + r.Intn(12)
		txs := mk(n)
		root := txidRoot(txs)
		switch r.Intn(6) {
		case 0:
			bad := append([]byte{}, root...)
			bad[r.Intn(32)] ^= byte(1 << r.Intn(8))
			emit("sanity-bad-merkle", bad, txs)
		case 1:
			// CVE-2012-2459: repeat the tail; for the right counts the header root of the
			// ORIGINAL list still matches, and only the duplicate check rejects the block
			k := 1 + r.Intn(3)
			if k >= n {
				k = n - 1
			}
			if k < 1 {
				emit("sanity-valid", root, txs)
				continue
			}
			mut := append(append([]*wire.MsgTx{}, txs...), txs[n-k:]...)
			if string(txidRoot(mut)) == string(root) {
				// only when the original root still matches: exactly one check fails
				emit("sanity-duplicated-tail", root, mut)
			}
			emit("sanity-duplicated-tail", txidRoot(mut), mut)
		case 2:
			// root of the reversed list / of the wtxids
			rev := append([]*wire.MsgTx{}, txs...)
			if n > 2 {
				rev[1], rev[n-1] = rev[n-1], rev[1]
			}
			emit("sanity-root-of-permutation", txidRoot(rev), txs)
		default:
			emit("sanity-valid", root, txs)
		}
	}
	// sigops carried by the coinbase itself (signature script and outputs) count like any other
	for _, c := range []int{19990, 19998, 19999} {
		txs := mk(2)
		txs[0].TxIn[0].SignatureScript = []byte{0x02, 0xac, 0xac, 0xac} // push of two bytes, then one CHECKSIG
		txs[0].TxOut = append(txs[0].TxOut, &wire.TxOut{Value: 1, PkScript: []byte{0xac}})
		txs[1] = plainTx(r, c)
		emit("sanity-sigop-limit-coinbase", txidRoot(txs), txs)
	}
	// legacy sigop limit: 4 * count against 80000, single script and spread over transactions
	for _, c := range []int{19999, 20000, 20001} {
		txs := mk(2)
		txs[1] = plainTx(r, c)
		emit("sanity-sigop-limit", txidRoot(txs), txs)
		txs = mk(4)
		txs[1] = plainTx(r, 10000)
		txs[2] = plainTx(r, c-10000-3)
		txs[3] = plainTx(r, 3)
		emit("sanity-sigop-limit", txidRoot(txs), txs)
	}
}

// ---------------------------------------------------------------- round 3

// classScript returns (scriptSig, spent scriptPubKey, witness) of one input of a named class.
func classScript(r *core.Rand, class int) ([]byte, []byte, wire.TxWitness) {
	ms := func() []byte { // k-of-n multisig with a random small n
		n := 1 + r.Intn(16)
		s := []byte{byte(0x51 + r.Intn(n))}
		for i := 0; i < n; i++ {
			s = append(s, 0x21)
			s = append(s, r.Bytes(33)...)
		}
		return append(s, byte(0x50+n), 0xae)
	}
	switch class % 10 {
	case 8: // 23 bytes, P2SH-shaped except for one template byte, full of sigop bytes: counts nothing when spent
		pk := append(append([]byte{0xa9, 0x14}, bytes0xac(20)...), 0x87)
		pk[int(r.Pick(0, 1, 22))] = byte(r.Pick(0xac, 0xad, 0xae))
		return pushOf([]byte{0xac, 0xac}, false), pk, nil
	case 9: // 23 bytes of CHECKSIG
		return pushOf([]byte{0x51, 0xae}, false), bytes0xac(23), nil
	case 0: // legacy P2PKH spend
		return pushOf(r.Bytes(71), false), append([]byte{0x76, 0xa9, 0x14}, append(r.Bytes(20), 0x88, 0xac)...), nil
	case 1: // P2SH multisig
		return append([]byte{0x00}, pushOf(ms(), false)...), p2shScript(r), nil
	case 2: // P2WPKH
		return nil, append([]byte{0x00, 0x14}, r.Bytes(20)...), wire.TxWitness{r.Bytes(71), r.Bytes(33)}
	case 3: // P2WSH multisig
		return nil, append([]byte{0x00, 0x20}, r.Bytes(32)...), wire.TxWitness{{}, r.Bytes(71), ms()}
	case 4: // P2SH-nested P2WSH
		return pushOf(append([]byte{0x00, 0x20}, r.Bytes(32)...), false), p2shScript(r), wire.TxWitness{{}, ms()}
	case 5: // P2SH-nested P2WPKH
		return pushOf(append([]byte{0x00, 0x14}, r.Bytes(20)...), false), p2shScript(r), wire.TxWitness{r.Bytes(71), r.Bytes(33)}
	case 6: // taproot
		return nil, append([]byte{0x51, 0x20}, r.Bytes(32)...), wire.TxWitness{r.Bytes(64)}
	default: // bare multisig output spent with a scriptSig that itself contains sigop bytes
		return []byte{0x00, 0x02, 0xac, 0xac, 0xac}, ms(), nil
	}
}

func perm(r *core.Rand, n int) []int {
	p := make([]int, n)
	for i := range p {
		p[i] = i
	}
	for i := n - 1; i > 0; i-- {
		j := r.Intn(i + 1)
		p[i], p[j] = p[j], p[i]
	}
	return p
}

func genRound3(g *core.Gen, r *core.Rand) {
	// lessons 6 + 7: one transaction / view shared by many calls; every input of a different class
	for i := 0; i < g.N(150, 1200); i++ {
		t := &wire.MsgTx{Version: int32(r.Pick(1, 2))}
		order := perm(r, 10)
		nin := 2 + r.Intn(9)
		var us []string
		for j := 0; j < nin; j++ {
			sig, pk, wit := classScript(r, order[j])
			t.TxIn = append(t.TxIn, &wire.TxIn{PreviousOutPoint: randOutPoint(r), SignatureScript: sig, Sequence: r.U32(), Witness: wit})
			us = append(us, hx(pk))
		}
		// the unavailable output (if any) at the first, a middle or the last position
		switch r.Intn(6) {
		case 0:
			us[0] = "x"
		case 1:
			us[nin/2] = "s" + us[nin/2]
		case 2:
			us[nin-1] = "x"
		}
		for j := 0; j < 1+r.Intn(3); j++ {
			_, pk, _ := classScript(r, r.Intn(10))
			t.TxOut = append(t.TxOut, &wire.TxOut{Value: int64(r.Intn(1e6)), PkScript: pk})
		}
		cb := r.Chance(1, 10)
		line := fmt.Sprintf("%s %s %s", txTok(t), b01(cb), strings.Join(us, ","))
		g.Case("inputs-as-values-heterogeneous", true, "C13 inval "+line)
		if i%3 == 0 {
			g.Case("cost-heterogeneous", true, fmt.Sprintf("C13 cost %s %s 1 1 %s", txTok(t), b01(cb), strings.Join(us, ",")))
		}
	}
	// one chain + one view queried by several transactions that differ in version, flags, input
	// ages and lock types
	seqs := []uint32{0, 1, 5, 0xffff, 1 << 22, 1<<22 | 1, 1<<22 | 0xffff, 1 << 31, 1<<31 | 1<<22 | 9, 0x10003, 0xffffffff}
	for i := 0; i < g.N(120, 1000); i++ {
		n := 3 + r.Intn(28)
		ts := make([]string, n)
		base := int64(1500000000)
		for j := range ts {
			base += r.Range(-400, 900)
			ts[j] = strconv.FormatInt(base, 10)
		}
		var cases []string
		for c := 0; c < 3+r.Intn(4); c++ {
			ver := uint32(r.Pick(1, 2, 2, 2, 3, 0x80000002))
			cb := r.Chance(1, 15)
			nin := 1 + r.Intn(5)
			if cb {
				nin = 1
			}
			ins := make([]string, nin)
			for j := range ins {
				h := strconv.Itoa(r.Intn(n))
				switch r.Intn(9) {
				case 0:
					h = "m"
				case 1:
					if r.Chance(1, 3) {
						h = "x"
					}
				}
				ins[j] = fmt.Sprintf("%d:%s", seqs[r.Intn(len(seqs))], h)
			}
			cases = append(cases, fmt.Sprintf("%s!%d!%s!%s", b01(!r.Chance(1, 6)), ver, b01(cb), strings.Join(ins, ",")))
		}
		g.Case("seqlock-shared-chain", true, fmt.Sprintf("C13 seqmulti %s %s", strings.Join(ts, ","), strings.Join(cases, "/")))
	}
	// lesson 10: every bit of the commitment magic, the decisive item at the first / a middle / the last position
	magicScript := func() []byte { return append([]byte{0x6a, 0x24, 0xaa, 0x21, 0xa9, 0xed}, r.Bytes(32)...) }
	for byteIdx := 0; byteIdx < 6; byteIdx++ {
		for bit := 0; bit < 8; bit++ {
			s := magicScript()
			s[byteIdx] ^= 1 << bit
			g.Case("commit-magic-bit-sweep", true, "C13 commit "+txTok(coinbaseTx(r, []*wire.TxOut{{PkScript: []byte{0x51}}, {PkScript: s}}, nil)))
		}
	}
	for v := 0; v < 256; v++ { // every value of the byte right after the magic position 0 / the push length byte
		s := magicScript()
		s[1] = byte(v)
		g.Case("commit-magic-byte-sweep", v == 0x24, "C13 commit "+txTok(coinbaseTx(r, []*wire.TxOut{{PkScript: s}}, nil)))
	}
	for _, n := range []int{1, 2, 5, 9} {
		for _, p := range []int{0, n / 2, n - 1} {
			for _, q := range []int{-1, 0, n / 2, n - 1} {
				outs := make([]*wire.TxOut, n)
				for j := range outs {
					outs[j] = &wire.TxOut{Value: int64(j), PkScript: append([]byte{0x6a, 0x24, 0xaa, 0x21, 0xa9}, r.Bytes(33)...)} // near miss
				}
				outs[p] = &wire.TxOut{PkScript: magicScript()}
				if q >= 0 && q != p {
					outs[q] = &wire.TxOut{PkScript: magicScript()}
				}
				g.Case("commit-position-sweep", true, "C13 commit "+txTok(coinbaseTx(r, outs, nil)))
			}
		}
	}
	// the one non-final sequence / the one disabled or dominating lock at each position
	for _, n := range []int{1, 2, 3, 6} {
		for p := 0; p < n; p++ {
			ss := make([]string, n)
			for j := range ss {
				ss[j] = "4294967295"
			}
			ss[p] = "4294967294"
			g.Case("final-position-sweep", true, fmt.Sprintf("C13 final 500000100 10 500000050 %s", strings.Join(ss, ",")))
			g.Case("final-position-sweep", true, fmt.Sprintf("C13 final 100 10 500000050 %s", strings.Join(ss, ",")))
			ins := make([]string, n)
			for j := range ins {
				ins[j] = "1:1"
			}
			ins[p] = "4194309:3"
			g.Case("seqlock-position-sweep", true, fmt.Sprintf("C13 seqlock 1 2 0 1500000000,1500000900,1500000500,1500001700,1500001200 %s", strings.Join(ins, ",")))
			ins[p] = "30:4"
			g.Case("seqlock-position-sweep", true, fmt.Sprintf("C13 seqlock 1 2 0 1500000000,1500000900,1500000500,1500001700,1500001200 %s", strings.Join(ins, ",")))
			ins[p] = "1:x"
			g.Case("seqlock-position-sweep", true, fmt.Sprintf("C13 seqlock 1 2 0 1500000000,1500000900,1500000500,1500001700,1500001200 %s", strings.Join(ins, ",")))
		}
	}
	// duplicate transactions at arbitrary positions (root computed over the list as it is)
	for i := 0; i < g.N(40, 300); i++ {
		n := 3 + r.Intn(8)
		txs := []*wire.MsgTx{coinbaseTx(r, []*wire.TxOut{{Value: 50, PkScript: []byte{0x51}}}, nil)}
		for len(txs) < n {
			txs = append(txs, plainTx(r, 0))
		}
		a := 1 + r.Intn(n-1)
		b := 1 + r.Intn(n-1)
		switch r.Intn(3) {
		case 0:
			a, b = 1, n-1
		case 1:
			b = a + 1
			if b >= n {
				a, b = n-2, n-1
			}
		}
		if a != b {
			txs[b] = txs[a]
		}
		root := txidRoot(txs)
		g.Case("sanity-duplicate-positions", a != b, fmt.Sprintf("C13 sanity %s %d %d %s", hx(root), grind(root), r.Intn(2), txsTok(txs)))
	}
	// a witness-carrying transaction at each position of a block without commitment
	for _, n := range []int{1, 2, 4, 7} {
		for p := 0; p < n; p++ {
			txs := []*wire.MsgTx{coinbaseTx(r, []*wire.TxOut{{Value: 50, PkScript: []byte{0x51}}}, nil)}
			for len(txs) < n {
				txs = append(txs, plainTx(r, 0))
			}
			txs[p].TxIn[0].Witness = wire.TxWitness{r.Bytes(1 + r.Intn(3))}
			g.Case("vwc-witness-position-sweep", true, "C13 vwc "+txsTok(txs))
			g.Case("vwc-witness-position-sweep", true, "C13 vwcb "+txsTok(txs))
		}
	}
	// every value of each of the three template bytes of P2SH; every single bit of a sequence number
	redeem := pushOf([]byte{0x52, 0xae, 0xac}, false)
	for _, pos := range []int{0, 1, 22} {
		for v := 0; v < 256; v++ {
			pk := p2shScript(r)
			pk[pos] = byte(v)
			g.Case("p2sh-template-byte-sweep", true, fmt.Sprintf("C13 p2sh %s %s", hx(redeem), hx(pk)))
			if v%4 == 0 {
				g.Case("p2sh-template-byte-sweep", true, "C13 script "+hx(pk))
				g.Case("p2sh-template-byte-sweep", true, fmt.Sprintf("C13 wsig %s %s 00.51ae", hx(pushOf(append([]byte{0x00, 0x20}, r.Bytes(32)...), false)), hx(pk)))
			}
		}
	}
	for bit := 0; bit < 32; bit++ {
		v := uint32(1) << bit
		g.Case("sequence-bit-sweep", true, fmt.Sprintf("C13 seqlock 1 2 0 1500000000,1500000900,1500000500 %d:1,%d:2", v, v|3))
		g.Case("sequence-bit-sweep", true, fmt.Sprintf("C13 seqlock 1 2 0 1500000000,1500000900,1500000500 %d:2,7:m", v|1<<22|2))
		g.Case("sequence-bit-sweep", true, fmt.Sprintf("C13 final 500000100 10 500000050 %d,4294967295", 0xffffffff^v))
	}
	// lesson 8: empty-but-non-nil and degenerate shapes reached directly
	empties := []*wire.MsgTx{
		{Version: 1, TxIn: []*wire.TxIn{}, TxOut: []*wire.TxOut{}},
		{Version: 1, TxIn: []*wire.TxIn{{Witness: wire.TxWitness{}}}, TxOut: []*wire.TxOut{{PkScript: []byte{}}}},
		{Version: 1, TxIn: []*wire.TxIn{{Witness: wire.TxWitness{{}}}}},
		{Version: 1, TxIn: []*wire.TxIn{{Witness: wire.TxWitness{{}, {}}}, {}}},
		{Version: 1, TxIn: []*wire.TxIn{{SignatureScript: []byte{}}, {Witness: wire.TxWitness{{0}}}}},
	}
	for _, t := range empties {
		g.Case("degenerate-shapes", false, "C13 txw "+txTok(t))
		g.Case("degenerate-shapes", false, "C13 iscb "+txTok(t))
		g.Case("degenerate-shapes", false, "C13 commit "+txTok(t))
		if len(t.TxIn) > 0 {
			g.Case("degenerate-shapes", false, "C13 merkle 1 "+txsTok([]*wire.MsgTx{t, t}))
			us := make([]string, len(t.TxIn))
			for j := range us {
				us[j] = "-"
			}
			g.Case("degenerate-shapes", false, fmt.Sprintf("C13 inval %s 0 %s", txTok(t), strings.Join(us, ",")))
		}
	}
	for _, s := range []string{"-", "00", "4c00", "4d0000", "4e00000000", "0100", "004c004d00004e00000000"} {
		g.Case("degenerate-shapes", false, fmt.Sprintf("C13 p2sh %s %s", s, hx(p2shScript(r))))
		g.Case("degenerate-shapes", false, fmt.Sprintf("C13 wsig %s %s -", s, hx(p2shScript(r))))
		g.Case("degenerate-shapes", false, fmt.Sprintf("C13 wsig %s %s _", s, hx(append([]byte{0x00, 0x20}, r.Bytes(32)...))))
		g.Case("degenerate-shapes", false, "C13 tok "+s)
		g.Case("degenerate-shapes", false, "C13 script "+s)
	}
}
