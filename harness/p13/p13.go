// Package p13: correspondence for C13 (merkle roots, witness commitment, weight,
// sigop cost, coinbase height, finality, BIP68 sequence locks).
//
// Line formats (mirrored by lean/BV/C13/Driver.lean):
//
//	tx  = ver;lock;ins;outs       ins/outs = "_" or items joined by "|"
//	in  = prevhash:idx:script:seq:wit    wit = "_" or items joined by "."
//	out = value:script            bytes = hex, "-" = empty; txs = "_" or joined by ","
package p13

import (
	"bytes"
	"encoding/hex"
	"errors"
	"sort"
	"fmt"
	"strconv"
	"strings"
	"sync"
	"sync/atomic"
	"time"

	"github.com/btcsuite/btcd/blockchain"
	"github.com/btcsuite/btcd/btcutil/v2"
	"github.com/btcsuite/btcd/chaincfg/v2"
	"github.com/btcsuite/btcd/chainhash/v2"
	"github.com/btcsuite/btcd/txscript/v2"
	"github.com/btcsuite/btcd/wire/v2"
	"verifharness/core"
)

type P struct{}

func (P) ID() string { return "C13" }

// ---------------------------------------------------------------- facts (T2)

func bytesToInts(b []byte) []int64 {
	out := make([]int64, len(b))
	for i, x := range b {
		out[i] = int64(x)
	}
	return out
}

func (P) Facts() []core.Fact {
	fs := []core.Fact{
		{Name: "opcodeLengths", Value: opcodeLengthsObserved()},
		{Name: "witnessScaleFactor", Value: int64(blockchain.WitnessScaleFactor)},
		{Name: "maxPubKeysPerMultiSig", Value: int64(txscript.MaxPubKeysPerMultiSig)},
		{Name: "lockTimeThreshold", Value: int64(txscript.LockTimeThreshold)},
		{Name: "maxTxInSequenceNum", Value: int64(wire.MaxTxInSequenceNum)},
		{Name: "sequenceLockTimeDisabled", Value: int64(wire.SequenceLockTimeDisabled)},
		{Name: "sequenceLockTimeIsSeconds", Value: int64(wire.SequenceLockTimeIsSeconds)},
		{Name: "sequenceLockTimeMask", Value: int64(wire.SequenceLockTimeMask)},
		{Name: "sequenceLockTimeGranularity", Value: int64(wire.SequenceLockTimeGranularity)},
		{Name: "coinbaseWitnessDataLen", Value: int64(blockchain.CoinbaseWitnessDataLen)},
		{Name: "coinbaseWitnessPkScriptLength", Value: int64(blockchain.CoinbaseWitnessPkScriptLength)},
		{Name: "witnessMagicBytes", Value: bytesToInts(blockchain.WitnessMagicBytes)},
		{Name: "opCheckSig", Value: int64(txscript.OP_CHECKSIG)},
		{Name: "opCheckSigVerify", Value: int64(txscript.OP_CHECKSIGVERIFY)},
		{Name: "opCheckMultiSig", Value: int64(txscript.OP_CHECKMULTISIG)},
		{Name: "opCheckMultiSigVerify", Value: int64(txscript.OP_CHECKMULTISIGVERIFY)},
		{Name: "op1", Value: int64(txscript.OP_1)},
		{Name: "op16", Value: int64(txscript.OP_16)},
		{Name: "opHash160", Value: int64(txscript.OP_HASH160)},
		{Name: "opEqual", Value: int64(txscript.OP_EQUAL)},
		{Name: "opData20", Value: int64(txscript.OP_DATA_20)},
		{Name: "opInvalidOpcode", Value: int64(txscript.OP_INVALIDOPCODE)},
		{Name: "opPushData1", Value: int64(txscript.OP_PUSHDATA1)},
		{Name: "op1Negate", Value: int64(txscript.OP_1NEGATE)},
		{Name: "maxBlockWeight", Value: int64(blockchain.MaxBlockWeight)},
		{Name: "maxBlockSigOpsCost", Value: int64(blockchain.MaxBlockSigOpsCost)},
		{Name: "blockHeaderLen", Value: int64(wire.MaxBlockHeaderPayload)},
	}
	fs = append(fs,
		core.Fact{Name: "baseSegwitWitnessVersion", Value: int64(txscript.BaseSegwitWitnessVersion)},
		core.Fact{Name: "taprootWitnessVersion", Value: int64(txscript.TaprootWitnessVersion)})
	return fs
}

// opcodeLengthsObserved derives the push-length table of the 256 opcodes from
// the behaviour of the exported tokenizer (not from btcd's internal opcode
// struct): n+1 for a direct push of n bytes, -k for a push whose length is in
// the next k bytes, 1 for everything else.
func opcodeLengthsObserved() []int64 {
	parses := func(s []byte) bool {
		t := txscript.MakeScriptTokenizer(0, s)
		return t.Next() && t.Done() && t.Err() == nil
	}
	out := make([]int64, 256)
	for op := 0; op < 256; op++ {
		k := -1
		for n := 0; n <= 80; n++ {
			if parses(append([]byte{byte(op)}, make([]byte, n)...)) {
				k = n
				break
			}
		}
		ones := make([]byte, k)
		for i := range ones {
			ones[i] = 1
		}
		switch {
		case k <= 0:
			out[op] = 1
		case parses(append([]byte{byte(op)}, ones...)):
			out[op] = int64(k) + 1 // the immediate bytes are data
		default:
			out[op] = -int64(k) // the immediate bytes are a length
		}
	}
	return out
}

// ---------------------------------------------------------------- line format

func hx(b []byte) string {
	if len(b) == 0 {
		return "-"
	}
	return hex.EncodeToString(b)
}

// shape alternates the representation of empty containers (nil vs empty but
// non-nil): both must behave alike everywhere.
var shape atomic.Uint64

func unhx(s string) []byte {
	if s == "-" {
		if shape.Add(1)%2 == 0 {
			return nil
		}
		return []byte{}
	}
	b, err := hex.DecodeString(s)
	if err != nil {
		panic("bad hex")
	}
	return b
}

func atoi(s string) int64 {
	v, err := strconv.ParseInt(s, 10, 64)
	if err != nil {
		panic("bad int " + s)
	}
	return v
}

func atou(s string) uint64 {
	v, err := strconv.ParseUint(s, 10, 64)
	if err != nil {
		panic("bad uint " + s)
	}
	return v
}

func splitList(s, sep string) []string {
	if s == "_" {
		return nil
	}
	return strings.Split(s, sep)
}

func witTok(w wire.TxWitness) string {
	if len(w) == 0 {
		return "_"
	}
	parts := make([]string, len(w))
	for i, it := range w {
		parts[i] = hx(it)
	}
	return strings.Join(parts, ".")
}

func parseWit(s string) wire.TxWitness {
	items := splitList(s, ".")
	if items == nil {
		if shape.Add(1)%2 == 0 {
			return wire.TxWitness{}
		}
		return nil
	}
	w := make(wire.TxWitness, len(items))
	for i, it := range items {
		w[i] = unhx(it)
	}
	return w
}

func txTok(t *wire.MsgTx) string {
	var b strings.Builder
	fmt.Fprintf(&b, "%d;%d;", uint32(t.Version), t.LockTime)
	if len(t.TxIn) == 0 {
		b.WriteString("_")
	}
	for i, in := range t.TxIn {
		if i > 0 {
			b.WriteByte('|')
		}
		fmt.Fprintf(&b, "%s:%d:%s:%d:%s", hex.EncodeToString(in.PreviousOutPoint.Hash[:]),
			in.PreviousOutPoint.Index, hx(in.SignatureScript), in.Sequence, witTok(in.Witness))
	}
	b.WriteByte(';')
	if len(t.TxOut) == 0 {
		b.WriteString("_")
	}
	for i, o := range t.TxOut {
		if i > 0 {
			b.WriteByte('|')
		}
		fmt.Fprintf(&b, "%d:%s", uint64(o.Value), hx(o.PkScript))
	}
	return b.String()
}

func parseTx(s string) *wire.MsgTx {
	f := strings.Split(s, ";")
	if len(f) != 4 {
		panic("bad tx")
	}
	t := &wire.MsgTx{Version: int32(uint32(atou(f[0]))), LockTime: uint32(atou(f[1]))}
	for _, is := range splitList(f[2], "|") {
		g := strings.Split(is, ":")
		if len(g) != 5 {
			panic("bad in")
		}
		in := &wire.TxIn{SignatureScript: unhx(g[2]), Sequence: uint32(atou(g[3])), Witness: parseWit(g[4])}
		copy(in.PreviousOutPoint.Hash[:], unhx(g[0]))
		in.PreviousOutPoint.Index = uint32(atou(g[1]))
		t.TxIn = append(t.TxIn, in)
	}
	for _, os := range splitList(f[3], "|") {
		g := strings.Split(os, ":")
		if len(g) != 2 {
			panic("bad out")
		}
		t.TxOut = append(t.TxOut, &wire.TxOut{Value: int64(atou(g[0])), PkScript: unhx(g[1])})
	}
	return t
}

func txsTok(ts []*wire.MsgTx) string {
	if len(ts) == 0 {
		return "_"
	}
	parts := make([]string, len(ts))
	for i, t := range ts {
		parts[i] = txTok(t)
	}
	return strings.Join(parts, ",")
}

func parseTxs(s string) []*wire.MsgTx {
	var out []*wire.MsgTx
	for _, x := range splitList(s, ",") {
		out = append(out, parseTx(x))
	}
	return out
}

func utilTxs(ms []*wire.MsgTx) []*btcutil.Tx {
	out := make([]*btcutil.Tx, len(ms))
	for i, m := range ms {
		out[i] = btcutil.NewTx(m)
	}
	return out
}

func ruleCode(err error) (blockchain.ErrorCode, bool) {
	var re blockchain.RuleError
	if errors.As(err, &re) {
		return re.ErrorCode, true
	}
	return 0, false
}

func b01(b bool) string {
	if b {
		return "1"
	}
	return "0"
}

// ---------------------------------------------------------------- exec (real code)

func (p P) Exec(line string) string {
	f := strings.Fields(line)
	if len(f) < 2 || f[0] != "C13" {
		return "bad-op"
	}
	if f[1] == "genpanic" {
		return "generator-panic"
	}
	// watchdog: a loop in the (mutated) tree that no longer terminates is an answer, not a hang
	done := make(chan string, 1)
	go func() {
		defer func() {
			if r := recover(); r != nil {
				done <- "panic"
			}
		}()
		if f[1] == "par" {
			done <- execPar(f[2])
		} else {
			done <- exec1(f[1], f[2:])
		}
	}()
	select {
	case out := <-done:
		return out
	case <-time.After(60 * time.Second):
		return "timeout"
	}
}

// execPar runs every sub-line (tokens joined by "^", sub-lines by "~") in its
// own goroutine, all started together, each repeated; an instance whose
// repetitions disagree reports "unstable".
func execPar(body string) string {
	subs := strings.Split(body, "~")
	outs := make([]string, len(subs))
	var wg sync.WaitGroup
	start := make(chan struct{})
	for i, sub := range subs {
		wg.Add(1)
		go func(i int, sub string) {
			defer wg.Done()
			defer func() {
				if r := recover(); r != nil {
					outs[i] = "panic"
				}
			}()
			t := strings.Split(sub, "^")
			<-start
			first := ""
			for rep := 0; rep < 6; rep++ {
				o := exec1(t[0], t[1:])
				if rep == 0 {
					first = o
				} else if o != first {
					first = "unstable"
					break
				}
			}
			outs[i] = first
		}(i, sub)
	}
	close(start)
	wg.Wait()
	return strings.Join(outs, "~")
}

// blockFromBytes round-trips the block through its wire form so that the
// wrapped transactions hash their cached raw bytes (the production path);
// pre >= 0 wraps that transaction lazily first (Block.Tx / Block.TxHash).
func blockFromBytes(ms []*wire.MsgTx, pre int) (*btcutil.Block, bool) {
	for _, m := range ms {
		if len(m.TxIn) == 0 {
			return nil, false
		}
	}
	mb := &wire.MsgBlock{Transactions: ms}
	var buf bytes.Buffer
	if err := mb.Serialize(&buf); err != nil {
		return nil, false
	}
	blk, err := btcutil.NewBlockFromBytes(buf.Bytes())
	if err != nil {
		return nil, false
	}
	if pre == -1 {
		blk = btcutil.NewBlockFromBlockAndBytes(blk.MsgBlock(), buf.Bytes())
	}
	if pre >= 0 && pre < len(ms) {
		// both byte-based constructors wrap every transaction eagerly; the
		// lazy path is NewBlock, one transaction wrapped on its own, then
		// Bytes() caching the serialized block before Transactions()
		blk = btcutil.NewBlock(blk.MsgBlock())
		defer blk.Bytes()
		if pre%2 == 0 {
			blk.Tx(pre)
		} else {
			blk.TxHash(pre)
		}
	}
	return blk, true
}

func exec1(op string, a []string) string {
	switch op {
	case "merkle":
		txs := utilTxs(parseTxs(a[1]))
		w := a[0] == "1"
		roll := blockchain.CalcMerkleRoot(txs, w)
		store := blockchain.BuildMerkleTreeStore(txs, w)
		last := store[len(store)-1]
		return "roll=" + hex.EncodeToString(roll[:]) + " store=" + hex.EncodeToString(last[:])
	case "mstore":
		txs := utilTxs(parseTxs(a[1]))
		store := blockchain.BuildMerkleTreeStore(txs, a[0] == "1")
		parts := make([]string, len(store))
		for i, h := range store {
			if h == nil {
				parts[i] = "nil"
			} else {
				parts[i] = hex.EncodeToString(h[:])
			}
		}
		return strings.Join(parts, ",")
	case "mroll":
		txs := utilTxs(parseTxs(a[1]))
		roll := blockchain.CalcMerkleRoot(txs, a[0] == "1")
		return hex.EncodeToString(roll[:])
	case "merkleb":
		// same observation as "merkle", through a block decoded from bytes
		w := a[0] == "1"
		blk, ok := blockFromBytes(parseTxs(a[2]), int(atoi(a[1])))
		if !ok {
			return "undecodable"
		}
		roll := blockchain.CalcMerkleRoot(blk.Transactions(), w)
		store := blockchain.BuildMerkleTreeStore(blk.Transactions(), w)
		last := store[len(store)-1]
		return "roll=" + hex.EncodeToString(roll[:]) + " store=" + hex.EncodeToString(last[:]) +
			" weight=" + strconv.FormatInt(blockchain.GetBlockWeight(blk), 10)
	case "mvalues":
		// results are values: later calls and writes into returned stores
		// must not change what the first calls returned
		txs := utilTxs(parseTxs(a[0]))
		r1 := blockchain.CalcMerkleRoot(txs, false)
		w1 := blockchain.CalcMerkleRoot(txs, true)
		s1 := blockchain.BuildMerkleTreeStore(txs, true)
		s0 := blockchain.BuildMerkleTreeStore(txs, false)
		keep1, keep0 := *s1[len(s1)-1], *s0[len(s0)-1]
		// scribble over every node the store allocated itself (interior
		// nodes and the zero coinbase leaf); leaves alias the tx hash cache
		for i := len(txs); i < len(s0); i++ {
			if s0[i] != nil {
				s0[i][0] ^= 0xff
			}
			if s1[i] != nil {
				s1[i][31] ^= 0xff
			}
		}
		if len(txs) > 0 {
			s1[0][5] ^= 0xff
		}
		r2 := blockchain.CalcMerkleRoot(txs, false)
		w2 := blockchain.CalcMerkleRoot(txs, true)
		t1 := blockchain.BuildMerkleTreeStore(txs, true)
		t0 := blockchain.BuildMerkleTreeStore(txs, false)
		again := r1 == r2 && w1 == w2 && *t1[len(t1)-1] == keep1 && *t0[len(t0)-1] == keep0 &&
			keep0 == r1 && keep1 == w1
		for _, tx := range txs {
			if *tx.Hash() != tx.MsgTx().TxHash() || *tx.WitnessHash() != tx.MsgTx().WitnessHash() {
				again = false
			}
		}
		// the same slice shared by concurrent callers; afterwards the slice
		// still holds the same transactions in the same order
		held := append([]*btcutil.Tx(nil), txs...)
		var wg sync.WaitGroup
		var mu sync.Mutex
		for gi := 0; gi < 4; gi++ {
			wg.Add(1)
			go func(gi int) {
				defer wg.Done()
				w := gi%2 == 1
				want := r1
				if w {
					want = w1
				}
				st := blockchain.BuildMerkleTreeStore(txs, w)
				if blockchain.CalcMerkleRoot(txs, w) != want || *st[len(st)-1] != want {
					mu.Lock()
					again = false
					mu.Unlock()
				}
			}(gi)
		}
		wg.Wait()
		for i := range txs {
			if txs[i] != held[i] {
				again = false
			}
		}
		return "r=" + hex.EncodeToString(r1[:]) + " w=" + hex.EncodeToString(w1[:]) + " again=" + b01(again)
	case "sanity":
		// CheckBlockSanity on a block whose header, coinbase and transaction
		// shapes pass every earlier check: observes the merkle root
		// comparison, the duplicate check and the legacy sigop limit
		var root chainhash.Hash
		copy(root[:], unhx(a[0]))
		ms := parseTxs(a[3])
		mb := &wire.MsgBlock{Header: sanityHeader(root, uint32(atou(a[1]))), Transactions: ms}
		blk := btcutil.NewBlock(mb)
		if a[2] == "1" {
			var buf bytes.Buffer
			mb.Serialize(&buf)
			b2, err := btcutil.NewBlockFromBytes(buf.Bytes())
			if err != nil {
				return "undecodable"
			}
			blk = b2
			if len(ms)%2 == 0 {
				blk = btcutil.NewBlock(b2.MsgBlock())
				blk.TxHash(0)
				blk.Bytes()
			}
		}
		err := blockchain.CheckBlockSanity(blk, chaincfg.RegressionNetParams.PowLimit, blockchain.NewMedianTime())
		if err == nil {
			return "ok"
		}
		code, ok := ruleCode(err)
		switch {
		case ok && code == blockchain.ErrBadMerkleRoot:
			return "err:badMerkle"
		case ok && code == blockchain.ErrDuplicateTx:
			return "err:dupTx"
		case ok && code == blockchain.ErrTooManySigOps:
			return "err:tooManySigOps"
		case ok:
			return "err:other:" + code.String()
		}
		return "err:other"
	case "shh":
		return b01(blockchain.ShouldHaveSerializedBlockHeight(&wire.BlockHeader{Version: int32(atoi(a[0]))}))
	case "smallint":
		op := byte(atou(a[0]))
		if !txscript.IsSmallInt(op) {
			return "is=0"
		}
		return fmt.Sprintf("is=1 as=%d", txscript.AsSmallInt(op))
	case "hmb":
		var l, r chainhash.Hash
		copy(l[:], unhx(a[0]))
		copy(r[:], unhx(a[1]))
		h := blockchain.HashMerkleBranches(&l, &r)
		return hex.EncodeToString(h[:])
	case "iscb":
		m := parseTx(a[0])
		return b01(blockchain.IsCoinBaseTx(m)) + b01(blockchain.IsCoinBase(btcutil.NewTx(m)))
	case "tok":
		s := unhx(a[0])
		t := txscript.MakeScriptTokenizer(0, s)
		var parts []string
		for t.Next() {
			parts = append(parts, fmt.Sprintf("%02x:%s", t.Opcode(), hx(t.Data())))
		}
		end := "done"
		if t.Err() != nil {
			end = "err"
		}
		if len(parts) == 0 {
			parts = []string{"-"}
		}
		// an unsupported script version yields no instruction and an error
		t1 := txscript.MakeScriptTokenizer(1, s)
		if t1.Next() || t1.Err() == nil || !t1.Done() {
			return "api-mismatch"
		}
		return fmt.Sprintf("%s %s@%d", strings.Join(parts, ","), end, t.ByteIndex())
	case "script":
		s := unhx(a[0])
		wp := "none"
		if v, prog, err := txscript.ExtractWitnessProgramInfo(s); err == nil {
			wp = fmt.Sprintf("%d:%s", v, hx(prog))
		}
		return fmt.Sprintf("po=%s sh=%s iswp=%s wp=%s wpkh=%s wsh=%s tr=%s",
			b01(txscript.IsPushOnlyScript(s)), b01(txscript.IsPayToScriptHash(s)), b01(txscript.IsWitnessProgram(s)), wp,
			b01(txscript.IsPayToWitnessPubKeyHash(s)), b01(txscript.IsPayToWitnessScriptHash(s)), b01(txscript.IsPayToTaproot(s)))
	case "commit":
		c, ok := blockchain.ExtractWitnessCommitment(btcutil.NewTx(parseTx(a[0])))
		if !ok {
			return "none"
		}
		return hex.EncodeToString(c)
	case "vwc", "vwcb":
		blk := btcutil.NewBlock(&wire.MsgBlock{Transactions: parseTxs(a[0])})
		if op == "vwcb" {
			b2, ok := blockFromBytes(parseTxs(a[0]), -2+len(a[0])%2)
			if !ok {
				return "undecodable"
			}
			blk = b2
		}
		err := blockchain.ValidateWitnessCommitment(blk)
		if err == nil {
			return "ok"
		}
		code, ok := ruleCode(err)
		if !ok {
			return "err:other"
		}
		switch code {
		case blockchain.ErrNoTransactions:
			return "err:noTransactions"
		case blockchain.ErrNoTxInputs:
			return "err:noTxInputs"
		case blockchain.ErrUnexpectedWitness:
			return "err:unexpectedWitness"
		case blockchain.ErrInvalidWitnessCommitment:
			return "err:invalidCommitment"
		case blockchain.ErrWitnessCommitmentMismatch:
			return "err:mismatch"
		}
		return "err:other"
	case "txw":
		m := parseTx(a[0])
		w := blockchain.GetTransactionWeight(btcutil.NewTx(m))
		var full, stripped lenWriter
		m.Serialize(&full)
		m.SerializeNoWitness(&stripped)
		if len(m.TxIn) > 0 {
			// secondary path: the same transaction decoded from its bytes
			var buf bytes.Buffer
			m.Serialize(&buf)
			if t2, err := btcutil.NewTxFromBytes(buf.Bytes()); err == nil {
				if blockchain.GetTransactionWeight(t2) != w || m.SerializeSize() != full.n || m.SerializeSizeStripped() != stripped.n {
					return "api-mismatch"
				}
			}
		}
		return fmt.Sprintf("w=%d base=%d total=%d", w, stripped.n, full.n)
	case "blkw":
		blk := btcutil.NewBlock(&wire.MsgBlock{Transactions: parseTxs(a[0])})
		return strconv.FormatInt(blockchain.GetBlockWeight(blk), 10)
	case "sigops":
		s := unhx(a[0])
		// the accurate count through an exported path: the witness script of a P2WSH spend
		p2wsh := append([]byte{0x00, 0x20}, make([]byte, 32)...)
		return fmt.Sprintf("fast=%d precise=%d", txscript.GetSigOpCount(s), txscript.GetWitnessSigOpCount(nil, p2wsh, wire.TxWitness{s}))
	case "p2sh":
		// the third parameter is deprecated and must not matter
		n1 := txscript.GetPreciseSigOpCount(unhx(a[0]), unhx(a[1]), true)
		if n2 := txscript.GetPreciseSigOpCount(unhx(a[0]), unhx(a[1]), false); n1 != n2 {
			return "api-mismatch"
		}
		return strconv.Itoa(n1)
	case "wsig":
		return strconv.Itoa(txscript.GetWitnessSigOpCount(unhx(a[0]), unhx(a[1]), parseWit(a[2])))
	case "cost":
		m := parseTx(a[0])
		tx := btcutil.NewTx(m)
		cb, bip16, segwit := a[1] == "1", a[2] == "1", a[3] == "1"
		us := splitList(a[4], ",")
		if len(us) != len(m.TxIn) {
			return "bad-op"
		}
		view := blockchain.NewUtxoViewpoint()
		for i, u := range us {
			if u == "x" {
				continue
			}
			spent := strings.HasPrefix(u, "s")
			if spent {
				u = u[1:]
			}
			e := blockchain.NewUtxoEntry(&wire.TxOut{Value: 1000, PkScript: unhx(u)}, 100, false)
			if spent {
				e.Spend()
			}
			view.Entries()[m.TxIn[i].PreviousOutPoint] = e
		}
		legacy := blockchain.CountSigOps(tx)
		p2sh := "err:missing"
		if n, err := blockchain.CountP2SHSigOps(tx, cb, view); err == nil {
			p2sh = strconv.Itoa(n)
		} else if c, ok := ruleCode(err); !ok || c != blockchain.ErrMissingTxOut {
			p2sh = "err:other"
		}
		cost := "err:missing"
		if n, err := blockchain.GetSigOpCost(tx, cb, view, bip16, segwit); err == nil {
			cost = strconv.Itoa(n)
		} else if c, ok := ruleCode(err); !ok || c != blockchain.ErrMissingTxOut {
			cost = "err:other"
		}
		return fmt.Sprintf("legacy=%d p2sh=%s cost=%s", legacy, p2sh, cost)
	case "inval":
		// the transaction, the view and the spent scripts are created once and
		// shared by every call, sequentially and from concurrent goroutines;
		// afterwards they must be byte-for-byte what the caller passed in
		m := parseTx(a[0])
		tx := btcutil.NewTx(m)
		cb := a[1] == "1"
		us := splitList(a[2], ",")
		if len(us) != len(m.TxIn) {
			return "bad-op"
		}
		view := blockchain.NewUtxoViewpoint()
		for i, u := range us {
			if u == "x" {
				continue
			}
			spent := strings.HasPrefix(u, "s")
			if spent {
				u = u[1:]
			}
			e := blockchain.NewUtxoEntry(&wire.TxOut{Value: 1000, PkScript: unhx(u)}, 100, false)
			if spent {
				e.Spend()
			}
			view.Entries()[m.TxIn[i].PreviousOutPoint] = e
		}
		before := viewDigest(view) + txsDigest([]*btcutil.Tx{tx})
		obs := func() string {
			var b strings.Builder
			fmt.Fprintf(&b, "legacy=%d", blockchain.CountSigOps(tx))
			if n, err := blockchain.CountP2SHSigOps(tx, cb, view); err == nil {
				fmt.Fprintf(&b, " p2sh=%d", n)
			} else {
				b.WriteString(" p2sh=err:missing")
			}
			for _, fl := range [][2]bool{{false, false}, {false, true}, {true, false}, {true, true}} {
				if n, err := blockchain.GetSigOpCost(tx, cb, view, fl[0], fl[1]); err == nil {
					fmt.Fprintf(&b, " c%s%s=%d", b01(fl[0]), b01(fl[1]), n)
				} else {
					fmt.Fprintf(&b, " c%s%s=err:missing", b01(fl[0]), b01(fl[1]))
				}
			}
			fmt.Fprintf(&b, " w=%d", blockchain.GetTransactionWeight(tx))
			return b.String()
		}
		first := obs()
		stable := obs() == first && obs() == first
		var wg sync.WaitGroup
		var mu sync.Mutex
		for gi := 0; gi < 6; gi++ {
			wg.Add(1)
			go func() {
				defer wg.Done()
				for rep := 0; rep < 3; rep++ {
					if obs() != first {
						mu.Lock()
						stable = false
						mu.Unlock()
					}
				}
			}()
		}
		wg.Wait()
		return first + " stable=" + b01(stable) + " inputs=" + b01(before == viewDigest(view)+txsDigest([]*btcutil.Tx{tx}))
	case "cbh":
		m := &wire.MsgTx{Version: 1, TxIn: []*wire.TxIn{{
			PreviousOutPoint: wire.OutPoint{Index: 0xffffffff}, SignatureScript: unhx(a[0]), Sequence: 0xffffffff}}}
		tx := btcutil.NewTx(m)
		want := int32(atoi(a[1]))
		cls := func(err error) string {
			c, ok := ruleCode(err)
			switch {
			case ok && c == blockchain.ErrMissingCoinbaseHeight:
				return "err:missing"
			case ok && c == blockchain.ErrBadCoinbaseHeight:
				return "err:bad"
			}
			return "err:other"
		}
		h, err := blockchain.ExtractCoinbaseHeight(tx)
		out := ""
		if err != nil {
			out = cls(err)
		} else {
			out = strconv.Itoa(int(h))
		}
		if err := blockchain.CheckSerializedHeight(tx, want); err != nil {
			return out + " chk=" + cls(err)
		}
		return out + " chk=ok"
	case "final":
		m := &wire.MsgTx{Version: 1, LockTime: uint32(atou(a[0]))}
		for i, s := range splitList(a[3], ",") {
			m.TxIn = append(m.TxIn, &wire.TxIn{PreviousOutPoint: wire.OutPoint{Index: uint32(i)}, Sequence: uint32(atou(s))})
		}
		return b01(blockchain.IsFinalizedTransaction(btcutil.NewTx(m), int32(atoi(a[1])), time.Unix(atoi(a[2]), 0)))
	case "seqlock":
		var times []int64
		for _, t := range splitList(a[3], ",") {
			times = append(times, atoi(t))
		}
		view := blockchain.NewUtxoViewpoint()
		tx, ok := seqCase(view, 0, a[1], a[2], splitList(a[4], ","))
		if !ok {
			return "bad-op"
		}
		sl, err := blockchain.VerifC13CalcSequenceLockExported(times, tx, view, a[0] == "1")
		return seqOut(sl, err)
	case "seqmulti":
		// one chain and one view, created once, queried by several different
		// transactions: sequentially, then concurrently and repeatedly; the
		// chain's answers must not depend on earlier calls and the inputs must
		// come back unchanged
		var times []int64
		for _, t := range splitList(a[0], ",") {
			times = append(times, atoi(t))
		}
		chain := blockchain.VerifC13NewChain(times)
		view := blockchain.NewUtxoViewpoint()
		cases := strings.Split(a[1], "/")
		txs := make([]*btcutil.Tx, len(cases))
		pools := make([]bool, len(cases))
		for i, c := range cases {
			f := strings.Split(c, "!")
			tx, ok := seqCase(view, i+1, f[1], f[2], splitList(f[3], ","))
			if !ok {
				return "bad-op"
			}
			txs[i], pools[i] = tx, f[0] == "1"
		}
		before := viewDigest(view) + txsDigest(txs)
		outs := make([]string, len(cases))
		for i := range cases {
			outs[i] = seqOut(chain.CalcSequenceLock(txs[i], view, pools[i]))
		}
		stable := true
		var wg sync.WaitGroup
		var mu sync.Mutex
		for rep := 0; rep < 3; rep++ {
			for i := range cases {
				wg.Add(1)
				go func(i int) {
					defer wg.Done()
					if o := seqOut(chain.CalcSequenceLock(txs[i], view, pools[i])); o != outs[i] {
						mu.Lock()
						stable = false
						mu.Unlock()
					}
				}(i)
			}
		}
		wg.Wait()
		return strings.Join(outs, "/") + " stable=" + b01(stable) + " inputs=" + b01(before == viewDigest(view)+txsDigest(txs))
	case "lt2seq":
		return strconv.FormatUint(uint64(blockchain.LockTimeToSequence(a[0] == "1", uint32(atou(a[1])))), 10)
	case "lockactive":
		sl := &blockchain.SequenceLock{Seconds: atoi(a[0]), BlockHeight: int32(atoi(a[1]))}
		return b01(blockchain.SequenceLockActive(sl, int32(atoi(a[2])), time.Unix(atoi(a[3]), 0)))
	}
	return "bad-op"
}

// seqCase builds the transaction of one sequence-lock case and adds its spent
// outputs to view; k separates the outpoints of different cases.
func seqCase(view *blockchain.UtxoViewpoint, k int, ver, cbs string, ins []string) (*btcutil.Tx, bool) {
	m := &wire.MsgTx{Version: int32(uint32(atou(ver)))}
	cb := cbs == "1"
	if cb && len(ins) != 1 {
		return nil, false
	}
	for i, is := range ins {
		g := strings.Split(is, ":")
		in := &wire.TxIn{Sequence: uint32(atou(g[0]))}
		if cb {
			in.PreviousOutPoint = wire.OutPoint{Index: 0xffffffff}
		} else {
			in.PreviousOutPoint.Hash[0] = byte(i + 1)
			in.PreviousOutPoint.Hash[1] = byte((i + 1) >> 8)
			in.PreviousOutPoint.Hash[2] = byte(k)
			in.PreviousOutPoint.Index = uint32(i)
		}
		m.TxIn = append(m.TxIn, in)
		if cb {
			continue
		}
		switch g[1] {
		case "x":
		case "m":
			view.Entries()[in.PreviousOutPoint] = blockchain.NewUtxoEntry(&wire.TxOut{Value: 1}, 0x7fffffff, false)
		default:
			view.Entries()[in.PreviousOutPoint] = blockchain.NewUtxoEntry(&wire.TxOut{Value: 1}, int32(atoi(g[1])), false)
		}
	}
	return btcutil.NewTx(m), true
}

func seqOut(sl *blockchain.SequenceLock, err error) string {
	if err != nil {
		if c, ok := ruleCode(err); ok && c == blockchain.ErrMissingTxOut {
			return "err:missing"
		}
		return "err:other"
	}
	return fmt.Sprintf("%d,%d", sl.Seconds, sl.BlockHeight)
}

// viewDigest / txsDigest render the caller-owned inputs so that any write by
// the callee shows.
func viewDigest(v *blockchain.UtxoViewpoint) string {
	var parts []string
	for op, e := range v.Entries() {
		parts = append(parts, fmt.Sprintf("%v:%d:%d:%x:%v:%v", op, e.Amount(), e.BlockHeight(), e.PkScript(), e.IsSpent(), e.IsCoinBase()))
	}
	sort.Strings(parts)
	return strings.Join(parts, ";")
}

func txsDigest(txs []*btcutil.Tx) string {
	var b strings.Builder
	for _, t := range txs {
		var buf bytes.Buffer
		t.MsgTx().Serialize(&buf)
		fmt.Fprintf(&b, "%x|", buf.Bytes())
	}
	return b.String()
}

func sanityHeader(root chainhash.Hash, nonce uint32) wire.BlockHeader {
	return wire.BlockHeader{Version: 1, MerkleRoot: root, Timestamp: time.Unix(1600000000, 0),
		Bits: 0x207fffff, Nonce: nonce}
}

type lenWriter struct{ n int }

func (l *lenWriter) Write(p []byte) (int, error) { l.n += len(p); return len(p), nil }

var _ = chainhash.HashSize
