// Package p13: correspondence for C13 (merkle roots, witness commitment, weight,
// sigop cost, coinbase height, finality, BIP68 sequence locks).
//
// Line formats (mirrored by lean/BV/C13/Driver.lean):
//
//	tx  = ver;lock;ins;outs       ins/outs = "_" or items joined by "|"
//	in  = prevhash:idx:script:seq:wit    wit = "_" or items joined by "."
//	out = value:script            bytes = hex, "-" = empty; txs = "_" or joined by ","
package p13

import (
	"encoding/hex"
	"errors"
	"fmt"
	"strconv"
	"strings"
	"time"

	"github.com/btcsuite/btcd/blockchain"
	"github.com/btcsuite/btcd/btcutil/v2"
	"github.com/btcsuite/btcd/chainhash/v2"
	"github.com/btcsuite/btcd/txscript/v2"
	"github.com/btcsuite/btcd/wire/v2"
	"verifharness/core"
)

type P struct{}

func (P) ID() string { return "C13" }

// ---------------------------------------------------------------- facts (T2)

func bytesToInts(b []byte) []int64 {
	out := make([]int64, len(b))
	for i, x := range b {
		out[i] = int64(x)
	}
	return out
}

func (P) Facts() []core.Fact {
	fs := []core.Fact{
		{Name: "opcodeLengths", Value: txscript.VerifC13OpcodeLengths()},
		{Name: "witnessScaleFactor", Value: int64(blockchain.WitnessScaleFactor)},
		{Name: "maxPubKeysPerMultiSig", Value: int64(txscript.MaxPubKeysPerMultiSig)},
		{Name: "lockTimeThreshold", Value: int64(txscript.LockTimeThreshold)},
		{Name: "maxTxInSequenceNum", Value: int64(wire.MaxTxInSequenceNum)},
		{Name: "sequenceLockTimeDisabled", Value: int64(wire.SequenceLockTimeDisabled)},
		{Name: "sequenceLockTimeIsSeconds", Value: int64(wire.SequenceLockTimeIsSeconds)},
		{Name: "sequenceLockTimeMask", Value: int64(wire.SequenceLockTimeMask)},
		{Name: "sequenceLockTimeGranularity", Value: int64(wire.SequenceLockTimeGranularity)},
		{Name: "coinbaseWitnessDataLen", Value: int64(blockchain.CoinbaseWitnessDataLen)},
		{Name: "coinbaseWitnessPkScriptLength", Value: int64(blockchain.CoinbaseWitnessPkScriptLength)},
		{Name: "witnessMagicBytes", Value: bytesToInts(blockchain.WitnessMagicBytes)},
		{Name: "opCheckSig", Value: int64(txscript.OP_CHECKSIG)},
		{Name: "opCheckSigVerify", Value: int64(txscript.OP_CHECKSIGVERIFY)},
		{Name: "opCheckMultiSig", Value: int64(txscript.OP_CHECKMULTISIG)},
		{Name: "opCheckMultiSigVerify", Value: int64(txscript.OP_CHECKMULTISIGVERIFY)},
		{Name: "op1", Value: int64(txscript.OP_1)},
		{Name: "op16", Value: int64(txscript.OP_16)},
		{Name: "opHash160", Value: int64(txscript.OP_HASH160)},
		{Name: "opEqual", Value: int64(txscript.OP_EQUAL)},
		{Name: "opData20", Value: int64(txscript.OP_DATA_20)},
		{Name: "opInvalidOpcode", Value: int64(txscript.OP_INVALIDOPCODE)},
		{Name: "opPushData1", Value: int64(txscript.OP_PUSHDATA1)},
		{Name: "op1Negate", Value: int64(txscript.OP_1NEGATE)},
		{Name: "maxBlockWeight", Value: int64(blockchain.MaxBlockWeight)},
		{Name: "maxBlockSigOpsCost", Value: int64(blockchain.MaxBlockSigOpsCost)},
		{Name: "blockHeaderLen", Value: int64(wire.MaxBlockHeaderPayload)},
	}
	for k, v := range txscript.VerifC13Consts() {
		fs = append(fs, core.Fact{Name: k, Value: v})
	}
	return fs
}

// ---------------------------------------------------------------- line format

func hx(b []byte) string {
	if len(b) == 0 {
		return "-"
	}
	return hex.EncodeToString(b)
}

func unhx(s string) []byte {
	if s == "-" {
		return []byte{}
	}
	b, err := hex.DecodeString(s)
	if err != nil {
		panic("bad hex")
	}
	return b
}

func atoi(s string) int64 {
	v, err := strconv.ParseInt(s, 10, 64)
	if err != nil {
		panic("bad int " + s)
	}
	return v
}

func atou(s string) uint64 {
	v, err := strconv.ParseUint(s, 10, 64)
	if err != nil {
		panic("bad uint " + s)
	}
	return v
}

func splitList(s, sep string) []string {
	if s == "_" {
		return nil
	}
	return strings.Split(s, sep)
}

func witTok(w wire.TxWitness) string {
	if len(w) == 0 {
		return "_"
	}
	parts := make([]string, len(w))
	for i, it := range w {
		parts[i] = hx(it)
	}
	return strings.Join(parts, ".")
}

func parseWit(s string) wire.TxWitness {
	items := splitList(s, ".")
	if items == nil {
		return nil
	}
	w := make(wire.TxWitness, len(items))
	for i, it := range items {
		w[i] = unhx(it)
	}
	return w
}

func txTok(t *wire.MsgTx) string {
	var b strings.Builder
	fmt.Fprintf(&b, "%d;%d;", uint32(t.Version), t.LockTime)
	if len(t.TxIn) == 0 {
		b.WriteString("_")
	}
	for i, in := range t.TxIn {
		if i > 0 {
			b.WriteByte('|')
		}
		fmt.Fprintf(&b, "%s:%d:%s:%d:%s", hex.EncodeToString(in.PreviousOutPoint.Hash[:]),
			in.PreviousOutPoint.Index, hx(in.SignatureScript), in.Sequence, witTok(in.Witness))
	}
	b.WriteByte(';')
	if len(t.TxOut) == 0 {
		b.WriteString("_")
	}
	for i, o := range t.TxOut {
		if i > 0 {
			b.WriteByte('|')
		}
		fmt.Fprintf(&b, "%d:%s", uint64(o.Value), hx(o.PkScript))
	}
	return b.String()
}

func parseTx(s string) *wire.MsgTx {
	f := strings.Split(s, ";")
	if len(f) != 4 {
		panic("bad tx")
	}
	t := &wire.MsgTx{Version: int32(uint32(atou(f[0]))), LockTime: uint32(atou(f[1]))}
	for _, is := range splitList(f[2], "|") {
		g := strings.Split(is, ":")
		if len(g) != 5 {
			panic("bad in")
		}
		in := &wire.TxIn{SignatureScript: unhx(g[2]), Sequence: uint32(atou(g[3])), Witness: parseWit(g[4])}
		copy(in.PreviousOutPoint.Hash[:], unhx(g[0]))
		in.PreviousOutPoint.Index = uint32(atou(g[1]))
		t.TxIn = append(t.TxIn, in)
	}
	for _, os := range splitList(f[3], "|") {
		g := strings.Split(os, ":")
		if len(g) != 2 {
			panic("bad out")
		}
		t.TxOut = append(t.TxOut, &wire.TxOut{Value: int64(atou(g[0])), PkScript: unhx(g[1])})
	}
	return t
}

func txsTok(ts []*wire.MsgTx) string {
	if len(ts) == 0 {
		return "_"
	}
	parts := make([]string, len(ts))
	for i, t := range ts {
		parts[i] = txTok(t)
	}
	return strings.Join(parts, ",")
}

func parseTxs(s string) []*wire.MsgTx {
	var out []*wire.MsgTx
	for _, x := range splitList(s, ",") {
		out = append(out, parseTx(x))
	}
	return out
}

func utilTxs(ms []*wire.MsgTx) []*btcutil.Tx {
	out := make([]*btcutil.Tx, len(ms))
	for i, m := range ms {
		out[i] = btcutil.NewTx(m)
	}
	return out
}

func ruleCode(err error) (blockchain.ErrorCode, bool) {
	var re blockchain.RuleError
	if errors.As(err, &re) {
		return re.ErrorCode, true
	}
	return 0, false
}

func b01(b bool) string {
	if b {
		return "1"
	}
	return "0"
}

// ---------------------------------------------------------------- exec (real code)

func (P) Exec(line string) string {
	f := strings.Fields(line)
	if len(f) < 2 || f[0] != "C13" {
		return "bad-op"
	}
	a := f[2:]
	switch f[1] {
	case "merkle":
		txs := utilTxs(parseTxs(a[1]))
		w := a[0] == "1"
		roll := blockchain.CalcMerkleRoot(txs, w)
		store := blockchain.BuildMerkleTreeStore(txs, w)
		last := store[len(store)-1]
		return "roll=" + hex.EncodeToString(roll[:]) + " store=" + hex.EncodeToString(last[:])
	case "mstore":
		txs := utilTxs(parseTxs(a[1]))
		store := blockchain.BuildMerkleTreeStore(txs, a[0] == "1")
		parts := make([]string, len(store))
		for i, h := range store {
			if h == nil {
				parts[i] = "nil"
			} else {
				parts[i] = hex.EncodeToString(h[:])
			}
		}
		return strings.Join(parts, ",")
	case "mroll":
		txs := utilTxs(parseTxs(a[1]))
		roll := blockchain.CalcMerkleRoot(txs, a[0] == "1")
		return hex.EncodeToString(roll[:])
	case "npot":
		return strconv.Itoa(blockchain.VerifC13NextPowerOfTwo(int(atoi(a[0]))))
	case "commit":
		c, ok := blockchain.ExtractWitnessCommitment(btcutil.NewTx(parseTx(a[0])))
		if !ok {
			return "none"
		}
		return hex.EncodeToString(c)
	case "vwc":
		blk := btcutil.NewBlock(&wire.MsgBlock{Transactions: parseTxs(a[0])})
		err := blockchain.ValidateWitnessCommitment(blk)
		if err == nil {
			return "ok"
		}
		code, ok := ruleCode(err)
		if !ok {
			return "err:other"
		}
		switch code {
		case blockchain.ErrNoTransactions:
			return "err:noTransactions"
		case blockchain.ErrNoTxInputs:
			return "err:noTxInputs"
		case blockchain.ErrUnexpectedWitness:
			return "err:unexpectedWitness"
		case blockchain.ErrInvalidWitnessCommitment:
			return "err:invalidCommitment"
		case blockchain.ErrWitnessCommitmentMismatch:
			return "err:mismatch"
		}
		return "err:other"
	case "txw":
		m := parseTx(a[0])
		w := blockchain.GetTransactionWeight(btcutil.NewTx(m))
		var full, stripped lenWriter
		m.Serialize(&full)
		m.SerializeNoWitness(&stripped)
		return fmt.Sprintf("w=%d base=%d total=%d", w, stripped.n, full.n)
	case "blkw":
		blk := btcutil.NewBlock(&wire.MsgBlock{Transactions: parseTxs(a[0])})
		return strconv.FormatInt(blockchain.GetBlockWeight(blk), 10)
	case "sigops":
		s := unhx(a[0])
		return fmt.Sprintf("fast=%d precise=%d", txscript.GetSigOpCount(s), txscript.VerifC13CountSigOpsV0(s, true))
	case "p2sh":
		return strconv.Itoa(txscript.GetPreciseSigOpCount(unhx(a[0]), unhx(a[1]), true))
	case "wsig":
		return strconv.Itoa(txscript.GetWitnessSigOpCount(unhx(a[0]), unhx(a[1]), parseWit(a[2])))
	case "cost":
		m := parseTx(a[0])
		tx := btcutil.NewTx(m)
		cb, bip16, segwit := a[1] == "1", a[2] == "1", a[3] == "1"
		us := splitList(a[4], ",")
		if len(us) != len(m.TxIn) {
			return "bad-op"
		}
		view := blockchain.NewUtxoViewpoint()
		for i, u := range us {
			if u == "x" {
				continue
			}
			spent := strings.HasPrefix(u, "s")
			if spent {
				u = u[1:]
			}
			e := blockchain.NewUtxoEntry(&wire.TxOut{Value: 1000, PkScript: unhx(u)}, 100, false)
			if spent {
				e.Spend()
			}
			view.Entries()[m.TxIn[i].PreviousOutPoint] = e
		}
		legacy := blockchain.CountSigOps(tx)
		p2sh := "err:missing"
		if n, err := blockchain.CountP2SHSigOps(tx, cb, view); err == nil {
			p2sh = strconv.Itoa(n)
		} else if c, ok := ruleCode(err); !ok || c != blockchain.ErrMissingTxOut {
			p2sh = "err:other"
		}
		cost := "err:missing"
		if n, err := blockchain.GetSigOpCost(tx, cb, view, bip16, segwit); err == nil {
			cost = strconv.Itoa(n)
		} else if c, ok := ruleCode(err); !ok || c != blockchain.ErrMissingTxOut {
			cost = "err:other"
		}
		return fmt.Sprintf("legacy=%d p2sh=%s cost=%s", legacy, p2sh, cost)
	case "cbh":
		m := &wire.MsgTx{Version: 1, TxIn: []*wire.TxIn{{
			PreviousOutPoint: wire.OutPoint{Index: 0xffffffff}, SignatureScript: unhx(a[0]), Sequence: 0xffffffff}}}
		tx := btcutil.NewTx(m)
		want := int32(atoi(a[1]))
		cls := func(err error) string {
			c, ok := ruleCode(err)
			switch {
			case ok && c == blockchain.ErrMissingCoinbaseHeight:
				return "err:missing"
			case ok && c == blockchain.ErrBadCoinbaseHeight:
				return "err:bad"
			}
			return "err:other"
		}
		h, err := blockchain.ExtractCoinbaseHeight(tx)
		out := ""
		if err != nil {
			out = cls(err)
		} else {
			out = strconv.Itoa(int(h))
		}
		if err := blockchain.CheckSerializedHeight(tx, want); err != nil {
			return out + " chk=" + cls(err)
		}
		return out + " chk=ok"
	case "final":
		m := &wire.MsgTx{Version: 1, LockTime: uint32(atou(a[0]))}
		for i, s := range splitList(a[3], ",") {
			m.TxIn = append(m.TxIn, &wire.TxIn{PreviousOutPoint: wire.OutPoint{Index: uint32(i)}, Sequence: uint32(atou(s))})
		}
		return b01(blockchain.IsFinalizedTransaction(btcutil.NewTx(m), int32(atoi(a[1])), time.Unix(atoi(a[2]), 0)))
	case "seqlock":
		mempool := a[0] == "1"
		m := &wire.MsgTx{Version: int32(uint32(atou(a[1])))}
		cb := a[2] == "1"
		var times []int64
		for _, t := range splitList(a[3], ",") {
			times = append(times, atoi(t))
		}
		view := blockchain.NewUtxoViewpoint()
		ins := splitList(a[4], ",")
		if cb && len(ins) != 1 {
			return "bad-op"
		}
		for i, is := range ins {
			g := strings.Split(is, ":")
			in := &wire.TxIn{Sequence: uint32(atou(g[0]))}
			if cb {
				in.PreviousOutPoint = wire.OutPoint{Index: 0xffffffff}
			} else {
				in.PreviousOutPoint.Hash[0] = byte(i + 1)
				in.PreviousOutPoint.Hash[1] = byte((i + 1) >> 8)
				in.PreviousOutPoint.Index = uint32(i)
			}
			m.TxIn = append(m.TxIn, in)
			switch g[1] {
			case "x":
			case "m":
				view.Entries()[in.PreviousOutPoint] = blockchain.NewUtxoEntry(&wire.TxOut{Value: 1}, 0x7fffffff, false)
			default:
				view.Entries()[in.PreviousOutPoint] = blockchain.NewUtxoEntry(&wire.TxOut{Value: 1}, int32(atoi(g[1])), false)
			}
		}
		sl, err := blockchain.VerifC13CalcSequenceLock(times, btcutil.NewTx(m), view, mempool)
		if err != nil {
			if c, ok := ruleCode(err); ok && c == blockchain.ErrMissingTxOut {
				return "err:missing"
			}
			return "err:other"
		}
		return fmt.Sprintf("%d,%d", sl.Seconds, sl.BlockHeight)
	case "lt2seq":
		return strconv.FormatUint(uint64(blockchain.LockTimeToSequence(a[0] == "1", uint32(atou(a[1])))), 10)
	case "lockactive":
		sl := &blockchain.SequenceLock{Seconds: atoi(a[0]), BlockHeight: int32(atoi(a[1]))}
		return b01(blockchain.SequenceLockActive(sl, int32(atoi(a[2])), time.Unix(atoi(a[3]), 0)))
	}
	return "bad-op"
}

type lenWriter struct{ n int }

func (l *lenWriter) Write(p []byte) (int, error) { l.n += len(p); return len(p), nil }

var _ = chainhash.HashSize
