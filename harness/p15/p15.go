// Package p15: correspondence for C15 (persisted chain-state records: VLQ, compressed
// amounts/scripts/txouts, utxo entries, spend journal, best state, block index rows).
package p15

import (
	"bytes"
	"crypto/sha256"
	"encoding/hex"
	"fmt"
	"math/big"
	"sort"
	"strconv"
	"strings"
	"sync"
	"time"

	"github.com/btcsuite/btcd/blockchain"
	"github.com/btcsuite/btcd/btcec/v2"
	"github.com/btcsuite/btcd/chainhash/v2"
	"github.com/btcsuite/btcd/wire/v2"
	"verifharness/core"
)

type P struct{}

func (P) ID() string { return "C15" }

// ---------------------------------------------------------------- facts (T2)

func (P) Facts() []core.Fact {
	var fs []core.Fact
	// only constants fixed by the persisted formats; in-memory flag bit values and buffer sizes that the
	// hook also knows are internal and are not emitted (false-alarm audit, rule 1)
	format := map[string]bool{"cstPayToPubKeyHash": true, "cstPayToScriptHash": true, "cstPayToPubKeyComp2": true,
		"cstPayToPubKeyComp3": true, "cstPayToPubKeyUncomp4": true, "cstPayToPubKeyUncomp5": true,
		"numSpecialScripts": true, "blockHdrSize": true, "hashSize": true}
	for k, v := range blockchain.VerifConstsC15() {
		if format[k] {
			fs = append(fs, core.Fact{Name: k, Value: v})
		}
	}
	// opcodes the special forms are built from, read through the compiled package
	fs = append(fs, core.Fact{Name: "vlqMaxU64", Value: hex.EncodeToString(blockchain.VerifPutVLQ(1<<64 - 1))})
	return fs
}

// ---------------------------------------------------------------- helpers

func hexTok(b []byte) string {
	if len(b) == 0 {
		return "-"
	}
	return hex.EncodeToString(b)
}

func unhex(s string) []byte {
	if s == "-" {
		return []byte{}
	}
	b, err := hex.DecodeString(s)
	if err != nil {
		panic("bad hex")
	}
	return b
}

func u64(s string) uint64 {
	v, err := strconv.ParseUint(s, 10, 64)
	if err != nil {
		panic(err)
	}
	return v
}

func i64(s string) int64 {
	v, err := strconv.ParseInt(s, 10, 64)
	if err != nil {
		panic(err)
	}
	return v
}

func b01(b bool) string {
	if b {
		return "1"
	}
	return "0"
}

type txo struct {
	amount uint64
	script []byte
	height int32
	cb     bool
}

func (t txo) String() string {
	return fmt.Sprintf("%d:%s:%d:%s", t.amount, hexTok(t.script), t.height, b01(t.cb))
}

func parseTxo(s string) txo {
	f := strings.Split(s, ":")
	if len(f) != 4 {
		panic("bad txo")
	}
	return txo{u64(f[0]), unhex(f[1]), int32(i64(f[2])), f[3] == "1"}
}

func (t txo) stxo() blockchain.SpentTxOut {
	return blockchain.SpentTxOut{Amount: int64(t.amount), PkScript: t.script, Height: t.height, IsCoinBase: t.cb}
}

func fromStxo(s blockchain.SpentTxOut) txo {
	return txo{uint64(s.Amount), s.PkScript, s.Height, s.IsCoinBase}
}

func showTxos(l []txo) string {
	if len(l) == 0 {
		return "-"
	}
	p := make([]string, len(l))
	for i, t := range l {
		p[i] = t.String()
	}
	return strings.Join(p, ";")
}

func parseTxos(s string) []txo {
	if s == "-" {
		return nil
	}
	var out []txo
	for _, x := range strings.Split(s, ";") {
		out = append(out, parseTxo(x))
	}
	return out
}

// ---------------------------------------------------------------- exec (real code)

// watchdog bounds the ops that touch a database or wait for goroutines: on a (mutated) tree that blocks,
// the case answers "timeout" instead of hanging the run.
func watchdog(f func() string) string {
	done := make(chan string, 1)
	go func() {
		defer func() {
			if recover() != nil {
				done <- "panic"
			}
		}()
		done <- f()
	}()
	select {
	case out := <-done:
		return out
	case <-time.After(120 * time.Second):
		return "timeout"
	}
}

// exact returns a copy whose capacity equals its length (reads past the end fault).
func exact(b []byte) []byte {
	c := make([]byte, len(b))
	copy(c, b)
	return c[:len(b):len(b)]
}

// scribble overwrites a decoder's input after the fact: a decoded value must not alias it.
func scribble(b []byte) {
	for i := range b {
		b[i] ^= 0xff
	}
}

// reuse runs an encoder/decoder on the SAME input objects three more times sequentially and from three
// concurrent goroutines; every call must give the answer of the first one (inputs are values: created once,
// reused, never changed by the callee). Returns "" when all agree.
func reuse(first string, f func() string) string {
	for k := 0; k < 3; k++ {
		if f() != first {
			return "reuse-differs"
		}
	}
	var wg sync.WaitGroup
	res := make([]string, 4)
	start := make(chan struct{})
	for k := range res {
		wg.Add(1)
		go func(k int) {
			defer wg.Done()
			defer func() {
				if recover() != nil {
					res[k] = "panic"
				}
			}()
			<-start
			res[k] = f()
			for j := 0; j < 3; j++ { // overlap the callers for longer than one call lasts
				if f() != res[k] {
					res[k] = "flicker"
				}
			}
		}(k)
	}
	close(start)
	wg.Wait()
	for _, x := range res {
		if x != first {
			return "reuse-differs-concurrent"
		}
	}
	return ""
}

// otherTxo is encoded right after the value under test: an encoder's result must be a value of its own.
var otherTxo = txo{amount: 123456789, script: bytes.Repeat([]byte{0xab}, 40), height: 777777, cb: true}

func (P) Exec(line string) string {
	f := strings.Fields(line)
	if len(f) < 2 || f[0] != "C15" {
		return "bad-op"
	}
	switch f[1] {
	case "chain":
		return watchdog(func() string { return execChain(f[2:]) })
	case "par":
		return watchdog(func() string { return execPar(f[2]) })
	case "vlq":
		n := u64(f[2])
		return fmt.Sprintf("%s %d", hex.EncodeToString(blockchain.VerifPutVLQ(n)), blockchain.VerifSerializeSizeVLQ(n))
	case "unvlq":
		n, k := blockchain.VerifDeserializeVLQ(unhex(f[2]))
		return fmt.Sprintf("%d %d", n, k)
	case "amtc":
		return strconv.FormatUint(blockchain.VerifCompressTxOutAmount(u64(f[2])), 10)
	case "amtd":
		return strconv.FormatUint(blockchain.VerifDecompressTxOutAmount(u64(f[2])), 10)
	case "amtrt":
		return strconv.FormatUint(blockchain.VerifDecompressTxOutAmount(blockchain.VerifCompressTxOutAmount(u64(f[2]))), 10)
	case "scr":
		s := unhex(f[2])
		orig := append([]byte{}, s...)
		enc := func(s []byte) func() string {
			return func() string {
				buf, k := blockchain.VerifPutCompressedScript(s)
				return fmt.Sprintf("%s %d %d", hexTok(buf), k, blockchain.VerifCompressedScriptSize(s))
			}
		}
		out := enc(s)()
		if r := reuse(out, enc(s)); r != "" {
			return r
		}
		if !bytes.Equal(s, orig) {
			return "input-modified"
		}
		if len(s) == 0 && enc(nil)() != out { // nil and empty-but-non-nil scripts are the same script
			return "nil-differs"
		}
		return out
	case "scrrt":
		buf, _ := blockchain.VerifPutCompressedTxOut(0, unhex(f[2]))
		_, script, n, err := blockchain.VerifDecodeCompressedTxOut(buf)
		if err != nil || n != len(buf) {
			return "err"
		}
		return hexTok(script)
	case "txo":
		s := unhex(f[3])
		orig := append([]byte{}, s...)
		enc := func(s []byte) func() string {
			return func() string {
				buf, k := blockchain.VerifPutCompressedTxOut(u64(f[2]), s)
				return fmt.Sprintf("%s %d %d", hexTok(buf), k, blockchain.VerifCompressedTxOutSize(u64(f[2]), s))
			}
		}
		out := enc(s)()
		if r := reuse(out, enc(s)); r != "" {
			return r
		}
		if !bytes.Equal(s, orig) {
			return "input-modified"
		}
		if len(s) == 0 && enc(nil)() != out {
			return "nil-differs"
		}
		return out
	case "untxo":
		in := exact(unhex(f[2]))
		a, s, n, err := blockchain.VerifDecodeCompressedTxOutRaw(in)
		if err != nil {
			return "err"
		}
		out := fmt.Sprintf("ok %d %s %d", a, hexTok(s), n)
		if r := reuse(out, func() string {
			a, s, n, err := blockchain.VerifDecodeCompressedTxOutRaw(in)
			if err != nil {
				return "err"
			}
			return fmt.Sprintf("ok %d %s %d", a, hexTok(s), n)
		}); r != "" {
			return r
		}
		if !bytes.Equal(in, unhex(f[2])) {
			return "input-modified"
		}
		scribble(in)
		if fmt.Sprintf("ok %d %s %d", a, hexTok(s), n) != out {
			return "aliased"
		}
		return out
	case "utxo":
		t := parseTxo(f[2])
		b, err := blockchain.VerifSerializeUtxoEntry(int64(t.amount), t.script, t.height, t.cb, f[3] == "1")
		if err != nil {
			return "err"
		}
		if b == nil {
			return "nil"
		}
		out := fmt.Sprintf("%s %d", hexTok(b), len(b))
		scriptCopy := append([]byte{}, t.script...)
		if r := reuse(out, func() string {
			b, err := blockchain.VerifSerializeUtxoEntry(int64(t.amount), t.script, t.height, t.cb, false)
			if err != nil {
				return "err"
			}
			return fmt.Sprintf("%s %d", hexTok(b), len(b))
		}); r != "" {
			return r
		}
		if !bytes.Equal(t.script, scriptCopy) {
			return "input-modified"
		}
		blockchain.VerifSerializeUtxoEntry(int64(otherTxo.amount), otherTxo.script, otherTxo.height, otherTxo.cb, false)
		if fmt.Sprintf("%s %d", hexTok(b), len(b)) != out {
			return "aliased"
		}
		return out
	case "unutxo":
		in := exact(unhex(f[2]))
		e, err := blockchain.VerifDeserializeUtxoEntryRaw(in)
		if err != nil {
			return "err"
		}
		if e.IsSpent() {
			return "bad-flags"
		}
		out := "ok " + txo{uint64(e.Amount()), e.PkScript(), e.BlockHeight(), e.IsCoinBase()}.String()
		if r := reuse(out, func() string {
			e, err := blockchain.VerifDeserializeUtxoEntryRaw(in)
			if err != nil {
				return "err"
			}
			return "ok " + txo{uint64(e.Amount()), e.PkScript(), e.BlockHeight(), e.IsCoinBase()}.String()
		}); r != "" {
			return r
		}
		if !bytes.Equal(in, unhex(f[2])) {
			return "input-modified"
		}
		scribble(in)
		if "ok "+(txo{uint64(e.Amount()), e.PkScript(), e.BlockHeight(), e.IsCoinBase()}).String() != out {
			return "aliased"
		}
		return out
	case "stxo":
		st := parseTxo(f[2]).stxo()
		buf, k := blockchain.VerifPutSpentTxOut(&st)
		out := fmt.Sprintf("%s %d %d", hexTok(buf), k, blockchain.VerifSpentTxOutSerializeSize(&st))
		if r := reuse(out, func() string {
			buf, k := blockchain.VerifPutSpentTxOut(&st)
			return fmt.Sprintf("%s %d %d", hexTok(buf), k, blockchain.VerifSpentTxOutSerializeSize(&st))
		}); r != "" {
			return r
		}
		if fromStxo(st).String() != parseTxo(f[2]).String() {
			return "input-modified"
		}
		ot := otherTxo.stxo()
		blockchain.VerifPutSpentTxOut(&ot)
		if fmt.Sprintf("%s %d %d", hexTok(buf), k, blockchain.VerifSpentTxOutSerializeSize(&st)) != out {
			return "aliased"
		}
		return out
	case "unstxo":
		in := exact(unhex(f[2]))
		st, n, err := blockchain.VerifDecodeSpentTxOutRaw(in)
		if err != nil {
			return "err"
		}
		out := fmt.Sprintf("ok %s %d", fromStxo(st), n)
		if r := reuse(out, func() string {
			st, n, err := blockchain.VerifDecodeSpentTxOutRaw(in)
			if err != nil {
				return "err"
			}
			return fmt.Sprintf("ok %s %d", fromStxo(st), n)
		}); r != "" {
			return r
		}
		if !bytes.Equal(in, unhex(f[2])) {
			return "input-modified"
		}
		scribble(in)
		if fmt.Sprintf("ok %s %d", fromStxo(st), n) != out {
			return "aliased"
		}
		return out
	case "journal":
		var l []blockchain.SpentTxOut
		for _, t := range parseTxos(f[2]) {
			l = append(l, t.stxo())
		}
		ser := blockchain.VerifSerializeSpendJournalEntry(l)
		out := hexTok(ser)
		if r := reuse(out, func() string { return hexTok(blockchain.VerifSerializeSpendJournalEntry(l)) }); r != "" {
			return r
		}
		if len(l) == 0 && hexTok(blockchain.VerifSerializeSpendJournalEntry([]blockchain.SpentTxOut{})) != out {
			return "nil-differs"
		}
		blockchain.VerifSerializeSpendJournalEntry([]blockchain.SpentTxOut{otherTxo.stxo(), otherTxo.stxo()})
		for i := range l { // the input list belongs to the caller and must be left as it was
			if fromStxo(l[i]).String() != parseTxos(f[2])[i].String() {
				return "input-modified"
			}
		}
		if hexTok(ser) != out {
			return "aliased"
		}
		return out
	case "unjournal":
		var txns []*wire.MsgTx
		if f[3] != "-" {
			for _, c := range strings.Split(f[3], ",") {
				tx := wire.NewMsgTx(1)
				for i := uint64(0); i < u64(c); i++ {
					tx.AddTxIn(&wire.TxIn{})
				}
				txns = append(txns, tx)
			}
		}
		var in []byte
		if raw := unhex(f[2]); len(raw) > 0 {
			in = exact(raw)
		}
		l, err := blockchain.VerifDeserializeSpendJournalEntryRaw(in, txns)
		if err != nil {
			return "err"
		}
		show := func() string {
			out := make([]txo, len(l))
			for i := range l {
				out[i] = fromStxo(l[i])
			}
			return "ok " + showTxos(out)
		}
		out := show()
		if r := reuse(out, func() string {
			l2, err := blockchain.VerifDeserializeSpendJournalEntryRaw(in, txns)
			if err != nil {
				return "err"
			}
			o := make([]txo, len(l2))
			for i := range l2 {
				o[i] = fromStxo(l2[i])
			}
			return "ok " + showTxos(o)
		}); r != "" {
			return r
		}
		for i, tx := range txns { // the transactions belong to the caller
			if f[3] != "-" && len(tx.TxIn) != int(u64(strings.Split(f[3], ",")[i])) {
				return "input-modified"
			}
		}
		if in == nil {
			l3, err3 := blockchain.VerifDeserializeSpendJournalEntryRaw([]byte{}, txns)
			if err3 != nil || len(l3) != len(l) {
				return "nil-differs"
			}
		}
		scribble(in)
		if show() != out {
			return "aliased"
		}
		return out
	case "best":
		var h chainhash.Hash
		copy(h[:], unhex(f[2]))
		ws, ok := new(big.Int).SetString(f[5], 16)
		if !ok {
			panic("bad worksum")
		}
		ser := blockchain.VerifSerializeBestChainState(h, uint32(u64(f[3])), u64(f[4]), ws)
		out := hex.EncodeToString(ser)
		blockchain.VerifSerializeBestChainState(chainhash.Hash{1, 2, 3}, 99, 12345, big.NewInt(0x7fffffffffff))
		if hex.EncodeToString(ser) != out || ws.Text(16) != strings.TrimLeft(f[5], "0") && !(ws.Sign() == 0) {
			return "aliased"
		}
		return out
	case "unbest":
		h, ht, tt, ws, err := blockchain.VerifDeserializeBestChainState(unhex(f[2]))
		if err != nil {
			return "err"
		}
		return fmt.Sprintf("ok %s %d %d %s", hex.EncodeToString(h[:]), ht, tt, ws.Text(16))
	case "row":
		hd := wire.BlockHeader{Version: int32(uint32(u64(f[2]))), Timestamp: time.Unix(int64(u64(f[5])), 0),
			Bits: uint32(u64(f[6])), Nonce: uint32(u64(f[7]))}
		copy(hd.PrevBlock[:], unhex(f[3]))
		copy(hd.MerkleRoot[:], unhex(f[4]))
		k, v, err := blockchain.VerifStoreBlockNode(&hd, int32(uint32(u64(f[9]))), byte(u64(f[8])))
		if err != nil {
			return "err"
		}
		return hex.EncodeToString(k) + " " + hex.EncodeToString(v)
	case "unv0":
		m, err := blockchain.VerifDeserializeUtxoEntryV0(unhex(f[2]))
		if err != nil {
			return "err"
		}
		if len(m) == 0 {
			return "ok -"
		}
		keys := make([]int, 0, len(m))
		for k := range m {
			keys = append(keys, int(k))
		}
		sort.Ints(keys)
		parts := make([]string, len(keys))
		for i, k := range keys {
			e := m[uint32(k)]
			parts[i] = fmt.Sprintf("%d=%s", k, txo{uint64(e.Amount()), e.PkScript(), e.BlockHeight(), e.IsCoinBase()})
		}
		return "ok " + strings.Join(parts, ";")
	case "bestwrap":
		// 48 + 2^32-1 bytes, work sum length field 0xffffffff (former uint32 wrap, F-C15-d)
		b := make([]byte, 48+(1<<32)-1)
		b[44], b[45], b[46], b[47] = 0xff, 0xff, 0xff, 0xff
		if err := blockchain.VerifDeserializeBestChainStateRaw(b); err != nil {
			return "err"
		}
		return "ok"
	case "v1row":
		m, err := blockchain.VerifReadBlockTree([][]byte{unhex(f[2])})
		if err != nil {
			return "err"
		}
		for h, parent := range m {
			return fmt.Sprintf("ok %s %s", hex.EncodeToString(h[:]), hex.EncodeToString(parent[:]))
		}
		return "ok -"
	case "opkey":
		var op wire.OutPoint
		copy(op.Hash[:], unhex(f[2]))
		op.Index = uint32(u64(f[3]))
		return hex.EncodeToString(blockchain.VerifOutpointKey(op))
	case "unrow":
		hd, st, err := blockchain.VerifDeserializeBlockRow(unhex(f[2]))
		if err != nil {
			return "err"
		}
		return fmt.Sprintf("ok %d %s %s %d %d %d %d", uint32(hd.Version), hex.EncodeToString(hd.PrevBlock[:]),
			hex.EncodeToString(hd.MerkleRoot[:]), uint32(hd.Timestamp.Unix()), hd.Bits, hd.Nonce, st)
	}
	return "bad-op"
}

// ---------------------------------------------------------------- known findings

// amountBound is the largest B such that every amount <= B compresses without uint64 overflow
// (pinned by theorem amount_bound_exact in Props.lean).
const amountBound = 2049638230412172402

// compressOverflows recomputes the compressed amount in big integers (independent of the code
// under test) and reports whether it leaves the uint64 range.
func compressOverflows(a uint64) bool {
	if a == 0 {
		return false
	}
	e := 0
	for a%10 == 0 && e < 9 {
		a /= 10
		e++
	}
	x := new(big.Int)
	if e < 9 {
		d := a % 10
		n := new(big.Int).SetUint64(a / 10)
		x.Mul(n, big.NewInt(9)).Add(x, big.NewInt(int64(d)-1)).Mul(x, big.NewInt(10)).Add(x, big.NewInt(int64(1+e)))
	} else {
		x.SetUint64(a - 1)
		x.Mul(x, big.NewInt(10)).Add(x, big.NewInt(10))
	}
	return x.BitLen() > 64
}

// ClassifyMismatch recognises exactly the F-C15-b trigger: the round trip of an amount whose
// compressed form overflows uint64 (necessarily > amountBound); the spec answer is the amount itself.
func (P) ClassifyMismatch(line, goOut, leanOut string) string {
	f := strings.Fields(line)
	if len(f) == 3 && f[0] == "C15" && f[1] == "amtrt" {
		a, err := strconv.ParseUint(f[2], 10, 64)
		if err == nil && a > amountBound && compressOverflows(a) && leanOut == f[2] && goOut != "panic" {
			return "F-C15-b"
		}
	}
	return ""
}

// ---------------------------------------------------------------- generation

var curveP, _ = new(big.Int).SetString("fffffffffffffffffffffffffffffffffffffffffffffffffffffffefffffc2f", 16)

func p2pkh(h []byte) []byte {
	return append(append([]byte{0x76, 0xa9, 0x14}, h...), 0x88, 0xac)
}
func p2sh(h []byte) []byte { return append(append([]byte{0xa9, 0x14}, h...), 0x87) }
func p2pk(key []byte) []byte {
	return append(append([]byte{byte(len(key))}, key...), 0xac)
}

func validKey(r *core.Rand, compressed bool) []byte {
	for {
		priv, pub := btcec.PrivKeyFromBytes(r.Bytes(32))
		_ = priv
		if pub == nil {
			continue
		}
		if compressed {
			return pub.SerializeCompressed()
		}
		return pub.SerializeUncompressed()
	}
}

// genScript returns a script and its class label.
func genScript(r *core.Rand) ([]byte, string) {
	switch r.Intn(20) {
	case 0, 1:
		return p2pkh(r.Bytes(20)), "p2pkh"
	case 2, 3:
		return p2sh(r.Bytes(20)), "p2sh"
	case 4, 5:
		return p2pk(validKey(r, true)), "p2pk-comp"
	case 6, 7:
		return p2pk(validKey(r, false)), "p2pk-uncomp"
	case 8: // compressed key with random x: about half are not on the curve
		k := append([]byte{byte(2 + r.Intn(2))}, r.Bytes(32)...)
		return p2pk(k), "p2pk-comp-randx"
	case 9: // x >= p, x = p-1, x = 0, x = small
		k := make([]byte, 33)
		k[0] = byte(2 + r.Intn(2))
		x := new(big.Int).Add(curveP, big.NewInt(r.Range(-3, 3)))
		if r.Chance(1, 3) {
			x = big.NewInt(r.Range(0, 9))
		}
		x.FillBytes(k[1:])
		return p2pk(k), "p2pk-comp-edge"
	case 10: // uncompressed with a damaged coordinate / y negated (valid) / x>=p
		k := validKey(r, false)
		switch r.Intn(5) {
		case 0:
			k[1+r.Intn(64)] ^= byte(1 << r.Intn(8))
		case 1:
			y := new(big.Int).SetBytes(k[33:])
			y.Sub(curveP, y).FillBytes(k[33:])
		case 2:
			new(big.Int).Add(curveP, big.NewInt(r.Range(0, 5))).FillBytes(k[1:33])
		case 3:
			new(big.Int).Add(curveP, big.NewInt(r.Range(0, 5))).FillBytes(k[33:])
		case 4: // y + p does not fit; y = 0
			for i := 33; i < 65; i++ {
				k[i] = 0
			}
		}
		return p2pk(k), "p2pk-uncomp-damaged"
	case 11: // hybrid / wrong format byte with otherwise valid key
		k := validKey(r, r.Bool())
		k[0] = byte(r.Pick(0, 1, 4, 5, 6, 7, 2, 3))
		return p2pk(k), "p2pk-format"
	case 12: // near miss of a special form: one fixed byte changed, or length off by one
		var s []byte
		switch r.Intn(4) {
		case 0:
			s = p2pkh(r.Bytes(20))
		case 1:
			s = p2sh(r.Bytes(20))
		case 2:
			s = p2pk(validKey(r, true))
		case 3:
			s = p2pk(validKey(r, false))
		}
		switch r.Intn(3) {
		case 0:
			fixed := []int{0, 1, 2, len(s) - 2, len(s) - 1}
			s[fixed[r.Intn(len(fixed))]] ^= byte(1 << r.Intn(8))
		case 1:
			s = s[:len(s)-1]
		case 2:
			s = append(s, byte(r.U64()))
		}
		return s, "near-miss"
	case 13: // lengths at VLQ boundaries of len+6
		n := int(r.Pick(0, 1, 120, 121, 122, 123, 16504, 16505, 16506, 16507, 10000))
		return r.Bytes(n), "len-edge"
	case 14:
		return r.Bytes(int(r.Pick(20, 21, 22, 23, 24, 25, 26, 32, 33, 34, 35, 36, 65, 66, 67, 68))), "len-special"
	default:
		return r.Bytes(r.Intn(80)), "random"
	}
}

func genAmount(r *core.Rand) uint64 {
	switch r.Intn(8) {
	case 0:
		return 0
	case 1:
		return r.U64()
	case 2:
		return uint64(r.Range(0, 2100000000000000))
	case 3: // k * 10^e
		k := uint64(r.Range(1, 999))
		for e := r.Intn(18); e > 0; e-- {
			k *= 10
		}
		return k
	case 4:
		return uint64(r.Pick(1, 9, 10, 546, 5000000000, 2099999999999999, 2100000000000000, 2100000000000001))
	case 5:
		return amountBound - uint64(r.Intn(3)) + uint64(r.Intn(3))
	case 6:
		return ^uint64(0) - uint64(r.Intn(3))
	default:
		return uint64(r.Range(0, 100000)) * 1000
	}
}

func genHeight(r *core.Rand) int32 {
	switch r.Intn(8) {
	case 0:
		return 0
	case 1:
		return 1
	case 2:
		return int32(r.Pick(2147483647, 2147483646, 1073741824, 1073741823, 63, 64, 8191, 8192))
	case 3:
		return int32(r.Pick(-1, -2, -2147483648, -2147483647))
	case 4:
		return int32(r.U32())
	default:
		return int32(r.Range(0, 900000))
	}
}

func genTxo(r *core.Rand) (txo, string) {
	s, cl := genScript(r)
	return txo{genAmount(r), s, genHeight(r), r.Bool()}, cl
}

// vlqBytes is the generator's own VLQ encoder (independent of the code under test).
// shuffle returns a random permutation of 0..n-1.
func shuffle(r *core.Rand, n int) []int {
	p := make([]int, n)
	for i := range p {
		p[i] = i
	}
	for i := n - 1; i > 0; i-- {
		j := r.Intn(i + 1)
		p[i], p[j] = p[j], p[i]
	}
	return p
}

func vlqBytes(n uint64) []byte { return encVLQBig(new(big.Int).SetUint64(n)) }

// try runs a real encoder inside the generator; a panic there (a size calculator that disagrees with
// its encoder after a change) must not kill the run: the direct encode lines already emitted for the
// same value report it as a precise Go/Lean difference, the derived decoder cases are skipped.
func try(f func() []byte) (out []byte, ok bool) {
	defer func() {
		if recover() != nil {
			out, ok = nil, false
		}
	}()
	return f(), true
}

// overlong VLQs (more than 10 bytes, value wraps mod 2^64) that decode to v: encode 2^64+v in the unbounded scheme.
func wrapVLQ(v uint64, extra int) []byte {
	n := new(big.Int).Lsh(big.NewInt(1), 64)
	n.Mul(n, big.NewInt(int64(1+extra)))
	n.Add(n, new(big.Int).SetUint64(v))
	return encVLQBig(n)
}

// encVLQBig encodes an arbitrarily large natural number in the unbounded VLQ scheme.
func encVLQBig(n0 *big.Int) []byte {
	n := new(big.Int).Set(n0)
	var out []byte
	first := true
	for {
		b := byte(new(big.Int).And(n, big.NewInt(0x7f)).Uint64())
		if !first {
			b |= 0x80
		}
		out = append([]byte{b}, out...)
		if n.Cmp(big.NewInt(0x7f)) <= 0 {
			break
		}
		n.Rsh(n, 7).Sub(n, big.NewInt(1))
		first = false
	}
	return out
}

// malformed emits a family of damaged variants of a valid encoding under the given decoder op.
func malformed(g *core.Gen, r *core.Rand, op string, enc []byte, suffix string, full bool) {
	emit := func(class string, b []byte) {
		rec(g, op+"-"+class, len(b) > 0, fmt.Sprintf("C15 %s %s%s", op, hexTok(b), suffix))
	}
	emit("valid", enc)
	if full {
		for i := 0; i < len(enc); i++ {
			emit("trunc", enc[:i])
		}
	} else {
		emit("trunc", enc[:r.Intn(len(enc)+1)])
		if len(enc) > 0 {
			emit("trunc", enc[:len(enc)-1])
		}
	}
	emit("extend", append(append([]byte{}, enc...), r.Bytes(1+r.Intn(40))...))
	if len(enc) > 0 {
		c := append([]byte{}, enc...)
		c[r.Intn(len(c))] ^= byte(1 << r.Intn(8))
		emit("flip", c)
		c = append([]byte{}, enc...)
		c[r.Intn(len(c))] |= 0x80
		emit("flip-cont", c)
	}
}

// hostile script-size encodings appended to a prefix (header code / reserved / amount as needed)
func hostileScripts(r *core.Rand) [][]byte {
	var out [][]byte
	big63 := []uint64{1 << 63, 1<<63 + 5, 1<<63 + 6, 1<<63 + 7, 1<<64 - 1, 1<<64 - 2, 1<<64 - 10, 1<<63 - 1, 1<<63 - 10, 1 << 62, 1 << 32, 1<<31 + 6}
	for _, v := range big63 {
		for _, tail := range []int{0, 1, 5, 40} {
			out = append(out, append(vlqBytes(v), r.Bytes(tail)...))
		}
	}
	for v := uint64(0); v < 9; v++ { // over-long VLQ wrapping to special types (and just above)
		for _, extra := range []int{0, 1} {
			w := wrapVLQ(v, extra)
			for _, tail := range []int{0, 1, 10, 11, 19, 20, 21, 22, 31, 32, 33, 34, 40, 70} {
				out = append(out, append(append([]byte{}, w...), r.Bytes(tail)...))
			}
		}
	}
	// sizes just around the available data
	for _, l := range []int{0, 1, 2, 50, 121, 122, 200} {
		for d := -2; d <= 2; d++ {
			if l+d < 0 {
				continue
			}
			out = append(out, append(vlqBytes(uint64(l+6)), r.Bytes(l+d)...))
		}
	}
	// special types with exactly / one less than the needed data
	for t := byte(0); t < 6; t++ {
		need := 20
		if t >= 2 {
			need = 32
		}
		for d := -1; d <= 1; d++ {
			body := r.Bytes(need + d)
			if t >= 4 && r.Bool() { // a real x coordinate so decompression succeeds
				copy(body, validKey(r, true)[1:])
			}
			out = append(out, append([]byte{t}, body...))
		}
	}
	// unterminated VLQ
	for _, n := range []int{1, 2, 9, 10, 11, 12, 20, 30} {
		b := make([]byte, n)
		for i := range b {
			b[i] = 0x80 | byte(r.U64())
		}
		out = append(out, b)
	}
	return out
}

// recorded keeps the lines generated so far (the concurrent class re-runs a sample of them).
var recorded []string

func rec(g *core.Gen, class string, nontrivial bool, line string) {
	recorded = append(recorded, line)
	g.Case(class, nontrivial, line)
}

func (P) Generate(g *core.Gen) {
	r := g.R
	recorded = recorded[:0]

	// ---- VLQ
	var vlqVals []uint64
	lim := uint64(0)
	for k := 0; k < 10; k++ { // first / last value of every encoded length
		vlqVals = append(vlqVals, lim, lim+1)
		if lim > 0 {
			vlqVals = append(vlqVals, lim-1)
		}
		if k < 9 {
			lim = lim + 1<<(7*uint(k+1))
		}
	}
	for k := uint(0); k < 64; k++ {
		vlqVals = append(vlqVals, 1<<k, 1<<k-1, 1<<k+1, 1<<k+127, 1<<k+128)
	}
	vlqVals = append(vlqVals, ^uint64(0), ^uint64(0)-1, ^uint64(0)-127, ^uint64(0)-128)
	for i := 0; i < g.N(1200, 40000); i++ {
		v := r.U64() >> uint(r.Intn(64))
		vlqVals = append(vlqVals, v)
	}
	for _, v := range vlqVals {
		rec(g, "vlq", v > 127, fmt.Sprintf("C15 vlq %d", v))
		enc := vlqBytes(v)
		rec(g, "unvlq-valid", v > 127, "C15 unvlq "+hexTok(append(enc, r.Bytes(r.Intn(3))...)))
		if len(enc) > 1 && r.Chance(1, 4) {
			rec(g, "unvlq-trunc", true, "C15 unvlq "+hexTok(enc[:r.Intn(len(enc))]))
		}
	}
	for v := uint64(0); v < 200; v += 7 {
		for extra := 0; extra < 3; extra++ {
			rec(g, "unvlq-overlong", true, "C15 unvlq "+hexTok(wrapVLQ(v, extra)))
		}
	}
	for i := 0; i < g.N(800, 30000); i++ {
		b := r.Bytes(r.Intn(24))
		if r.Bool() {
			for j := range b {
				b[j] |= 0x80
			}
			if len(b) > 0 && r.Bool() {
				b[len(b)-1] &= 0x7f
			}
		}
		rec(g, "unvlq-random", len(b) > 0, "C15 unvlq "+hexTok(b))
	}

	// ---- amounts: every digit pattern k*10^e, k*10^e +- 1
	seen := map[uint64]bool{}
	amt := func(class string, a uint64) {
		if seen[a] {
			return
		}
		seen[a] = true
		rec(g, "amtc-"+class, a != 0, fmt.Sprintf("C15 amtc %d", a))
		rec(g, "amtrt-"+class, a != 0, fmt.Sprintf("C15 amtrt %d", a))
	}
	p10 := new(big.Int)
	for e := 0; e <= 19; e++ {
		p10.Exp(big.NewInt(10), big.NewInt(int64(e)), nil)
		ks := []int64{1, 2, 3, 4, 5, 6, 7, 8, 9, 10, 11, 19, 20, 21, 99, 100, 101, 109, 110, 111, 184, 204, 205, 1844, 2049, 2050}
		for _, k := range ks {
			v := new(big.Int).Mul(p10, big.NewInt(k))
			for d := int64(-1); d <= 1; d++ {
				w := new(big.Int).Add(v, big.NewInt(d))
				if w.Sign() >= 0 && w.IsUint64() {
					amt("digits", w.Uint64())
				}
			}
		}
	}
	for _, a := range []uint64{0, 1, 546, 2099999999999999, 2100000000000000, 2100000000000001, amountBound - 1, amountBound, amountBound + 1,
		amountBound + 8, 2049638230412172410, 2049638230412172411, 1<<63 - 1, 1 << 63, 1<<63 + 1, 1<<64 - 1, 1<<64 - 2, 1<<64 - 16,
		18446744073000000000, 18000000000000000000, 10000000000000000000} {
		amt("edge", a)
	}
	for i := 0; i < g.N(2000, 80000); i++ {
		amt("random", genAmount(r))
	}
	for i := 0; i < g.N(1500, 50000); i++ {
		x := r.U64() >> uint(r.Intn(64))
		if r.Chance(1, 6) {
			x = ^uint64(0) - uint64(r.Intn(40))
		}
		rec(g, "amtd", x != 0, fmt.Sprintf("C15 amtd %d", x))
	}
	for x := uint64(0); x < 120; x++ {
		rec(g, "amtd-small", x != 0, fmt.Sprintf("C15 amtd %d", x))
	}

	// ---- scripts, txouts, utxo entries, stxos
	for i := 0; i < g.N(1400, 20000); i++ {
		t, cl := genTxo(r)
		sh := hexTok(t.script)
		rec(g, "scr-"+cl, len(t.script) > 0, "C15 scr "+sh)
		rec(g, "scrrt-"+cl, len(t.script) > 0, "C15 scrrt "+sh)
		rec(g, "txo-"+cl, true, fmt.Sprintf("C15 txo %d %s", t.amount, sh))
		rec(g, "utxo-"+cl, true, fmt.Sprintf("C15 utxo %s %s", t, b01(r.Chance(1, 10))))
		rec(g, "stxo-"+cl, true, "C15 stxo "+t.String())
		// decode what the real encoder produced, plus damaged variants
		full := i%25 == 0
		buf, ok := try(func() []byte { b, _ := blockchain.VerifPutCompressedTxOut(t.amount, t.script); return b })
		if ok && (len(buf) < 400 || i%40 == 0) {
			malformed(g, r, "untxo", buf, "", full && len(buf) < 120)
			if ub, ok := try(func() []byte {
				b, _ := blockchain.VerifSerializeUtxoEntry(int64(t.amount), t.script, t.height, t.cb, false)
				return b
			}); ok {
				malformed(g, r, "unutxo", ub, "", full && len(ub) < 120)
			}
			st := t.stxo()
			if sb, ok := try(func() []byte { b, _ := blockchain.VerifPutSpentTxOut(&st); return b }); ok {
				malformed(g, r, "unstxo", sb, "", full && len(sb) < 120)
			}
		}
	}
	// hostile script sizes behind every prefix
	for rep := 0; rep < g.N(1, 8); rep++ {
		for _, hs := range hostileScripts(r) {
			a := vlqBytes(blockchain.VerifCompressTxOutAmount(genAmount(r)))
			rec(g, "untxo-hostile", true, "C15 untxo "+hexTok(append(append([]byte{}, a...), hs...)))
			h := genHeight(r)
			code := uint64(h)<<1 | uint64(r.Intn(2))
			rec(g, "unutxo-hostile", true, "C15 unutxo "+hexTok(bytes.Join([][]byte{vlqBytes(code), a, hs}, nil)))
			pre := vlqBytes(code)
			if h > 0 {
				pre = append(pre, 0)
			}
			rec(g, "unstxo-hostile", true, "C15 unstxo "+hexTok(bytes.Join([][]byte{pre, a, hs}, nil)))
		}
	}
	for i := 0; i < g.N(1500, 40000); i++ {
		b := r.Bytes(r.Intn(60))
		op := []string{"untxo", "unutxo", "unstxo"}[r.Intn(3)]
		rec(g, op+"-random", len(b) > 0, fmt.Sprintf("C15 %s %s", op, hexTok(b)))
	}

	// ---- round 3, lesson 10: every value of every one-byte discriminator, every position of a list
	{
		key := validKey(r, true)
		ukey := validKey(r, false)
		for v := 0; v < 256; v++ {
			b := byte(v)
			// script type / size byte of a compressed txout, with payloads around every special size
			for _, tail := range []int{0, 19, 20, 21, 31, 32, 33, 60} {
				body := r.Bytes(tail)
				if tail >= 32 && v%2 == 0 {
					copy(body, key[1:])
				}
				rec(g, "untxo-type-sweep", true, "C15 untxo "+hexTok(append([]byte{0x09, b}, body...)))
			}
			// first byte of the header code (utxo, stxo), reserved byte of an stxo with height > 0
			rec(g, "unutxo-code-sweep", true, "C15 unutxo "+hexTok(append([]byte{b, 0x32, 0x00}, r.Bytes(21)...)))
			rec(g, "unstxo-code-sweep", true, "C15 unstxo "+hexTok(append([]byte{b, 0x00, 0x32, 0x00}, r.Bytes(21)...)))
			rec(g, "unstxo-reserved-sweep", true, "C15 unstxo "+hexTok(append([]byte{0x13, b, 0x05, 0x32, 0x07, 0x51}, r.Bytes(3)...)))
			// status byte of a block index row
			rec(g, "unrow-status-sweep", true, "C15 unrow "+hexTok(append(r.Bytes(80), b)))
			// every fixed byte of the special script forms, and the key format byte
			mut := func(class string, s []byte, pos int) {
				c := append([]byte{}, s...)
				c[pos] = b
				rec(g, class, true, "C15 scr "+hexTok(c))
				rec(g, class, true, "C15 scrrt "+hexTok(c))
			}
			pk, sh := p2pkh(r.Bytes(20)), p2sh(r.Bytes(20))
			mut("scr-p2pkh-sweep", pk, []int{0, 1, 2, 23, 24}[v%5])
			mut("scr-p2sh-sweep", sh, []int{0, 1, 22}[v%3])
			mut("scr-p2pk-sweep", p2pk(key), []int{0, 1, 34}[v%3])
			mut("scr-p2pk-sweep", p2pk(ukey), []int{0, 1, 66}[v%3])
			mut("scr-p2pk-format-sweep", p2pk(key), 1)
			mut("scr-p2pk-format-sweep", p2pk(ukey), 1)
		}
		// a damaged element at the first / a middle / the last position of a journal and of a v0 entry
		for rep := 0; rep < g.N(6, 200); rep++ {
			n := 3 + r.Intn(4)
			parts := make([][]byte, n)
			for i := range parts {
				t, _ := genTxo(r)
				if len(t.script) > 120 {
					t.script = t.script[:r.Intn(60)]
				}
				st := t.stxo()
				parts[i], _ = try(func() []byte { b, _ := blockchain.VerifPutSpentTxOut(&st); return b })
			}
			for _, pos := range []int{0, n / 2, n - 1} {
				for kind := 0; kind < 4; kind++ {
					c := make([][]byte, n)
					for i := range parts {
						c[i] = append([]byte{}, parts[i]...)
					}
					switch kind {
					case 0: // continuation bit somewhere in the element
						if len(c[pos]) > 0 {
							c[pos][r.Intn(len(c[pos]))] |= 0x80
						}
					case 1: // element cut short
						c[pos] = c[pos][:r.Intn(len(c[pos])+1)]
					case 2: // hostile script size
						hs := hostileScripts(r)
						c[pos] = append([]byte{0x13, 0x00, 0x32}, hs[r.Intn(len(hs))]...)
					case 3: // legacy reserved slot holding a multi-byte VLQ (tx version >= 128)
						c[pos] = append([]byte{0x13, 0x80 | byte(r.Intn(128)), byte(r.Intn(128)), 0x32, 0x00}, r.Bytes(20)...)
					}
					rec(g, "unjournal-position", true, fmt.Sprintf("C15 unjournal %s %d", hexTok(bytes.Join(c, nil)), n))
				}
			}
		}
	}

	// ---- round 3, lesson 7: heterogeneous journals (one stxo of every script class, every height kind, both flags)
	for i := 0; i < g.N(30, 1500); i++ {
		k1, k2 := validKey(r, true), validKey(r, false)
		scripts := [][]byte{p2pkh(r.Bytes(20)), p2sh(r.Bytes(20)), p2pk(k1), p2pk(k2), r.Bytes(r.Intn(40)), {}, p2pk(append([]byte{3}, r.Bytes(32)...))}
		heights := []int32{0, 1, 63, 64, -1, 2147483647, int32(r.Range(2, 800000))}
		l := make([]txo, len(scripts))
		for j, p := range shuffle(r, len(scripts)) {
			l[j] = txo{genAmount(r), scripts[p], heights[shuffle(r, len(heights))[0]], (i+j)%2 == 0}
		}
		rec(g, "journal-hetero", true, "C15 journal "+showTxos(l))
		var sl []blockchain.SpentTxOut
		for _, t := range l {
			sl = append(sl, t.stxo())
		}
		if ser, ok := try(func() []byte { return blockchain.VerifSerializeSpendJournalEntry(sl) }); ok {
			rec(g, "unjournal-hetero", true, fmt.Sprintf("C15 unjournal %s 3,0,4", hexTok(ser)))
		}
	}

	// ---- round 3, lesson 8: rare shapes reached directly
	{
		// public keys whose X (and Y) coordinates have leading zero bytes
		found := 0
		for i := 0; found < g.N(6, 40) && i < 200000; i++ {
			seed := sha256.Sum256([]byte(fmt.Sprintf("c15-leadzero-%d-%d", g.Seed, i)))
			_, pub := btcec.PrivKeyFromBytes(seed[:])
			u := pub.SerializeUncompressed()
			if u[1] != 0 && u[33] != 0 {
				continue
			}
			found++
			for _, s := range [][]byte{p2pk(pub.SerializeCompressed()), p2pk(u)} {
				rec(g, "scr-p2pk-leadzero", true, "C15 scr "+hexTok(s))
				rec(g, "scrrt-p2pk-leadzero", true, "C15 scrrt "+hexTok(s))
				rec(g, "utxo-p2pk-leadzero", true, fmt.Sprintf("C15 utxo %s 0", txo{genAmount(r), s, genHeight(r), r.Bool()}))
			}
		}
		// the same X with a valid, a damaged and the negated Y, one after the other (a validity memo keyed by X shows)
		for i := 0; i < g.N(20, 600); i++ {
			k := validKey(r, false)
			bad := append([]byte{}, k...)
			bad[33+r.Intn(32)] ^= byte(1 << r.Intn(8))
			neg := append([]byte{}, k...)
			new(big.Int).Sub(curveP, new(big.Int).SetBytes(k[33:])).FillBytes(neg[33:])
			c2, c3 := append([]byte{2}, k[1:33]...), append([]byte{3}, k[1:33]...)
			for _, key := range [][]byte{k, bad, neg, c2, c3, bad, k} {
				rec(g, "scr-p2pk-samex", true, "C15 scr "+hexTok(p2pk(key)))
				rec(g, "scrrt-p2pk-samex", true, "C15 scrrt "+hexTok(p2pk(key)))
			}
		}
		// best-state records whose work sum bytes carry leading zeros (never written, must still decode)
		for i := 0; i < g.N(40, 1000); i++ {
			ws := append(make([]byte, 1+r.Intn(3)), r.Bytes(r.Intn(34))...)
			b := append(r.Bytes(32), 1, 0, 0, 0, 5, 0, 0, 0, 0, 0, 0, 0, byte(len(ws)), 0, 0, 0)
			rec(g, "unbest-leadzero", true, "C15 unbest "+hexTok(append(b, ws...)))
		}
	}

	// ---- spend journal
	for i := 0; i < g.N(400, 8000); i++ {
		n := r.Intn(7)
		l := make([]txo, n)
		var sl []blockchain.SpentTxOut
		for j := range l {
			l[j], _ = genTxo(r)
			if len(l[j].script) > 300 {
				l[j].script = l[j].script[:r.Intn(40)]
			}
			sl = append(sl, l[j].stxo())
		}
		rec(g, "journal", n > 0, "C15 journal "+showTxos(l))
		ser, ok := try(func() []byte { return blockchain.VerifSerializeSpendJournalEntry(sl) })
		if !ok {
			continue
		}
		// a random composition of n (every transaction shape), sometimes a lying one
		total := n
		switch r.Intn(6) {
		case 0:
			total = n + 1 + r.Intn(2)
		case 1:
			if n > 0 {
				total = r.Intn(n)
			}
		}
		var shape []string
		for left := total; left > 0; {
			c := 1 + r.Intn(left)
			if r.Chance(1, 5) {
				shape = append(shape, "0")
			}
			shape = append(shape, strconv.Itoa(c))
			left -= c
		}
		if r.Chance(1, 5) {
			shape = append(shape, "0")
		}
		sh := "-"
		if len(shape) > 0 {
			sh = strings.Join(shape, ",")
		}
		malformed(g, r, "unjournal", ser, " "+sh, i%20 == 0 && len(ser) < 200)
	}
	rec(g, "unjournal-empty", true, "C15 unjournal - 1")
	rec(g, "unjournal-empty", true, "C15 unjournal - 0,2")
	rec(g, "unjournal-empty", false, "C15 unjournal - -")
	rec(g, "unjournal-empty", false, "C15 unjournal - 0,0")
	rec(g, "unjournal-empty", true, "C15 unjournal 00 -")

	// ---- best chain state
	for i := 0; i < g.N(400, 8000); i++ {
		ws := new(big.Int).SetBytes(r.Bytes(r.Intn(40)))
		switch r.Intn(8) {
		case 0:
			ws.SetInt64(0)
		case 1:
			ws.SetInt64(r.Range(0, 256))
		case 2:
			ws.Lsh(big.NewInt(1), uint(8*r.Intn(40)))
		case 3: // long work sums: the length field needs its second byte
			ws.SetBytes(r.Bytes(int(r.Pick(255, 256, 257, 300, 5000))))
		}
		ht := r.U32() >> uint(r.Intn(32))
		tt := r.U64() >> uint(r.Intn(64))
		hash := r.Bytes(32)
		rec(g, "best", true, fmt.Sprintf("C15 best %s %d %d %s", hex.EncodeToString(hash), ht, tt, ws.Text(16)))
		var h chainhash.Hash
		copy(h[:], hash)
		ser, ok := try(func() []byte { return blockchain.VerifSerializeBestChainState(h, ht, tt, ws) })
		if !ok {
			continue
		}
		malformed(g, r, "unbest", ser, "", i%10 == 0 && len(ser) < 200)
		// lie about the work sum length
		c := append([]byte{}, ser...)
		wl := []uint32{0, 1, uint32(len(ser) - 48), uint32(len(ser) - 47), uint32(len(ser) - 49), 0xffffffff, 0xffffffd0, 0xffffffcf, 0xffffffd1, 0x80000000, 1 << 24}[r.Intn(11)]
		c[44], c[45], c[46], c[47] = byte(wl), byte(wl>>8), byte(wl>>16), byte(wl>>24)
		rec(g, "unbest-lenlie", true, "C15 unbest "+hexTok(c))
	}

	// ---- block index rows
	for i := 0; i < g.N(300, 8000); i++ {
		ver := r.U32()
		if r.Bool() {
			ver = uint32(r.Pick(1, 2, 4, 0x20000000, 0x7fffffff, 0x80000000, 0xffffffff))
		}
		ts := r.U32() >> uint(r.Intn(8))
		prev := r.Bytes(32)
		if r.Chance(1, 8) {
			prev = make([]byte, 32)
		}
		line := fmt.Sprintf("C15 row %d %s %s %d %d %d %d %d", ver, hex.EncodeToString(prev), hex.EncodeToString(r.Bytes(32)),
			ts, r.U32(), r.U32(), r.Intn(256), r.U32()>>uint(r.Intn(32)))
		rec(g, "row", true, line)
		out := func() (o string) {
			defer func() {
				if recover() != nil {
					o = "panic"
				}
			}()
			return P{}.Exec(line)
		}()
		if sp := strings.Fields(out); len(sp) == 2 {
			malformed(g, r, "unrow", unhex(sp[1]), "", i%10 == 0)
		}
	}
	for n := 0; n < 84; n++ {
		rec(g, "unrow-len", n > 0, "C15 unrow "+hexTok(r.Bytes(n)))
	}

	// ---- end to end: real chain, real database, flush, reopen with another cache size, exported readers
	var chainLines []string
	for i := 0; i < g.N(15, 700); i++ {
		l := func() (l string) {
			defer func() {
				if recover() != nil {
					l = ""
				}
			}()
			return genChainLine(r)
		}()
		if l == "" {
			continue
		}
		chainLines = append(chainLines, l)
		rec(g, "chain", true, l)
	}

	// ---- independent instances concurrently (no hidden shared state): 8..12 sub-lines per case, taken
	// from what was generated so far (every op incl. chains with their own databases)
	{
		n := len(recorded)
		for i := 0; i < g.N(24, 1000); i++ {
			k := 8 + r.Intn(5)
			subs := make([]string, 0, k)
			for len(subs) < k {
				var l string
				if r.Chance(1, 20) && len(chainLines) > 0 {
					l = chainLines[r.Intn(len(chainLines))]
				} else {
					l = recorded[r.Intn(n)]
				}
				if len(l) > 4000 || strings.HasPrefix(l, "C15 par") || strings.HasPrefix(l, "C15 amtrt") {
					continue
				}
				subs = append(subs, strings.ReplaceAll(strings.TrimPrefix(l, "C15 "), " ", "~"))
			}
			rec(g, "par", true, "C15 par "+strings.Join(subs, "|"))
		}
	}

	// ---- legacy v1 block index rows (block index migration)
	for n := 0; n < 100; n++ {
		rec(g, "v1row-len", n > 0, "C15 v1row "+hexTok(r.Bytes(n)))
	}
	for i := 0; i < g.N(100, 3000); i++ {
		rec(g, "v1row", true, "C15 v1row "+hexTok(r.Bytes(92+r.Intn(20))))
	}

	// ---- outpoint keys (utxo set database key: hash || VLQ(index))
	for i := 0; i < g.N(300, 6000); i++ {
		idx := r.U32() >> uint(r.Intn(32))
		if r.Chance(1, 4) {
			idx = uint32(r.Pick(0, 127, 128, 16511, 16512, 2113663, 2113664, 270549119, 270549120, 0xffffffff))
		}
		rec(g, "opkey", true, fmt.Sprintf("C15 opkey %s %d", hex.EncodeToString(r.Bytes(32)), idx))
	}

	// ---- legacy v0 utxo entries (upgrade.go)
	for i := 0; i < g.N(400, 8000); i++ {
		enc := encV0(r)
		malformed(g, r, "unv0", enc, "", i%20 == 0 && len(enc) < 150)
	}
	for _, hs := range hostileScripts(r) {
		pre := []byte{0x01, byte(r.Intn(100)), byte(r.Pick(0x02, 0x03, 0x04, 0x06, 0x00, 0x0a))}
		if pre[2] == 0x00 || pre[2] == 0x0a {
			pre = append(pre, byte(1<<uint(r.Intn(8))))
		}
		rec(g, "unv0-hostile", true, "C15 unv0 "+hexTok(bytes.Join([][]byte{pre, {0x05}, hs}, nil)))
	}
	for _, code := range []uint64{0, 1, 6, 7, 8, 0x0a, 0x10, 1 << 20, 1 << 34, 1<<35 + 2, 1<<64 - 1, 1<<64 - 8, 1<<63 + 2} {
		for _, tail := range []int{0, 1, 2, 40} {
			rec(g, "unv0-code", true, "C15 unv0 "+hexTok(bytes.Join([][]byte{{0x01, 0x05}, vlqBytes(code), r.Bytes(tail)}, nil)))
		}
	}
	// bitmap length against the remaining data: nb-1 / nb / nb+1 bytes left, and a full valid tail
	for _, nb := range []int{1, 2, 15, 16, 17, 127, 128} {
		for _, flags := range []uint64{2, 4, 6, 0} {
			code := uint64(nb)<<3 | flags
			if flags == 0 {
				code = uint64(nb-1)<<3
			}
			pre := bytes.Join([][]byte{{0x01, 0x09}, vlqBytes(code)}, nil)
			for _, left := range []int{nb - 1, nb, nb + 1, nb + 2, nb + 22} {
				body := make([]byte, left)
				if left > nb+1 { // amount 0, P2PKH type, hash bytes
					body[nb] = 0x05
				}
				if flags == 0 && left >= nb {
					body[nb-1] = 0x80 // keep the last bitmap byte non-zero: output 2+8*(nb-1)+7 unspent
				}
				rec(g, "unv0-bitmap-edge", true, "C15 unv0 "+hexTok(append(append([]byte{}, pre...), body...)))
			}
		}
	}
	for i := 0; i < g.N(500, 15000); i++ {
		rec(g, "unv0-random", true, "C15 unv0 "+hexTok(r.Bytes(1+r.Intn(60))))
	}
}

// encV0 builds a well-formed legacy (version 0 format) utxo entry with a random set of unspent outputs.
func encV0(r *core.Rand) []byte {
	idxs := map[int]bool{}
	n := 1 + r.Intn(5)
	for len(idxs) < n {
		switch r.Intn(4) {
		case 0:
			idxs[r.Intn(2)] = true
		case 1:
			idxs[r.Intn(12)] = true
		default:
			idxs[r.Intn(60)] = true
		}
	}
	maxIdx := 0
	for k := range idxs {
		if k > maxIdx {
			maxIdx = k
		}
	}
	nb := 0
	if maxIdx >= 2 {
		nb = (maxIdx-2)/8 + 1
	}
	code := uint64(0)
	if r.Bool() {
		code |= 1
	}
	if idxs[0] {
		code |= 2
	}
	if idxs[1] {
		code |= 4
	}
	if !idxs[0] && !idxs[1] {
		code |= uint64(nb-1) << 3
	} else {
		code |= uint64(nb) << 3
	}
	bm := make([]byte, nb)
	for k := range idxs {
		if k >= 2 {
			bm[(k-2)/8] |= 1 << uint((k-2)%8)
		}
	}
	out := append([]byte{}, vlqBytes(uint64(r.Intn(3)))...)
	h := genHeight(r)
	out = append(out, vlqBytes(uint64(uint32(h)))...)
	out = append(out, vlqBytes(code)...)
	out = append(out, bm...)
	for k := 0; k <= maxIdx; k++ {
		if idxs[k] {
			t, _ := genTxo(r)
			if len(t.script) > 200 {
				t.script = t.script[:50]
			}
			b, _ := try(func() []byte { b, _ := blockchain.VerifPutCompressedTxOut(t.amount, t.script); return b })
			out = append(out, b...)
		}
	}
	return out
}
