package p15

// End-to-end ops for C15: records written by a real BlockChain into a real ffldb database, read back
// after a flush and a reopen (with a different cache size) through the exported entry points of
// chainio.go: FetchSpendJournal, BlockByHeight, BlockByHash, DBBlockFromBytes, plus FetchUtxoEntry,
// BestSnapshot and HeaderByHash (best-state record and block index rows are decoded by initChainState).
//
//   C15 chain <cacheA>,<cacheB>,<order> <block> <block> ...
//   block = tx/tx/...        (tx 0 is the coinbase)
//   tx    = ins;outs         ins = - | h.t.o,h.t.o   (block height, tx index, output index)
//                            outs = amount.script,amount.script (script hex, - for empty)
//
// Generated lines only contain output scripts for which txscript.IsUnspendable is exactly
// "starts with OP_RETURN or longer than 10000 bytes" (the rule the Lean fold uses).

import (
	"bytes"
	"crypto/sha256"
	"fmt"
	"os"
	"strconv"
	"strings"
	"sync"
	"time"

	"github.com/btcsuite/btcd/address/v2"
	"github.com/btcsuite/btcd/blockchain"
	"github.com/btcsuite/btcd/btcec/v2"
	"github.com/btcsuite/btcd/btcutil/v2"
	"github.com/btcsuite/btcd/chaincfg/v2"
	"github.com/btcsuite/btcd/chainhash/v2"
	"github.com/btcsuite/btcd/database"
	_ "github.com/btcsuite/btcd/database/ffldb"
	"github.com/btcsuite/btcd/txscript/v2"
	"github.com/btcsuite/btcd/wire/v2"
	"verifharness/core"
)

type cOut struct {
	amt    int64
	script []byte
}
type cRef struct{ h, t, o int }
type cTx struct {
	ins  []cRef
	outs []cOut
}
type cBlock []cTx

func (t cTx) String() string {
	ins := "-"
	if len(t.ins) > 0 {
		p := make([]string, len(t.ins))
		for i, r := range t.ins {
			p[i] = fmt.Sprintf("%d.%d.%d", r.h, r.t, r.o)
		}
		ins = strings.Join(p, ",")
	}
	p := make([]string, len(t.outs))
	for i, o := range t.outs {
		p[i] = fmt.Sprintf("%d.%s", o.amt, hexTok(o.script))
	}
	return ins + ";" + strings.Join(p, ",")
}

func (b cBlock) String() string {
	p := make([]string, len(b))
	for i, t := range b {
		p[i] = t.String()
	}
	return strings.Join(p, "/")
}

func atoi(s string) int {
	v, err := strconv.Atoi(s)
	if err != nil {
		panic("bad int " + s)
	}
	return v
}

func parseCBlock(s string) cBlock {
	var b cBlock
	for _, ts := range strings.Split(s, "/") {
		f := strings.Split(ts, ";")
		if len(f) != 2 {
			panic("bad tx")
		}
		var t cTx
		if f[0] != "-" {
			for _, x := range strings.Split(f[0], ",") {
				p := strings.Split(x, ".")
				t.ins = append(t.ins, cRef{atoi(p[0]), atoi(p[1]), atoi(p[2])})
			}
		}
		for _, x := range strings.Split(f[1], ",") {
			p := strings.Split(x, ".")
			t.outs = append(t.outs, cOut{i64(p[0]), unhex(p[1])})
		}
		b = append(b, t)
	}
	return b
}

// ---------------------------------------------------------------- keys the harness can sign for

type hkey struct {
	priv *btcec.PrivateKey
	comp []byte
	unc  []byte
}

var hkeys = func() []hkey {
	var ks []hkey
	for i := 1; i <= 4; i++ {
		seed := sha256.Sum256([]byte(fmt.Sprintf("c15-key-%d", i)))
		priv, pub := btcec.PrivKeyFromBytes(seed[:])
		ks = append(ks, hkey{priv, pub.SerializeCompressed(), pub.SerializeUncompressed()})
	}
	return ks
}()

var p2shTrue = p2sh(address.Hash160([]byte{0x51}))

// spendableScripts are output scripts the harness can produce a valid signature script for.
func spendableScript(r *core.Rand) []byte {
	k := hkeys[r.Intn(len(hkeys))]
	switch r.Intn(7) {
	case 0:
		return []byte{0x51}
	case 1:
		return p2pkh(address.Hash160(k.comp))
	case 2:
		return p2pkh(address.Hash160(k.unc))
	case 3:
		return p2pk(k.comp)
	case 4:
		return p2pk(k.unc)
	case 5:
		return p2shTrue
	default:
		return []byte{0x52}
	}
}

func canSpend(s []byte) bool {
	if bytes.Equal(s, []byte{0x51}) || bytes.Equal(s, []byte{0x52}) || bytes.Equal(s, p2shTrue) {
		return true
	}
	for _, k := range hkeys {
		if bytes.Equal(s, p2pkh(address.Hash160(k.comp))) || bytes.Equal(s, p2pkh(address.Hash160(k.unc))) ||
			bytes.Equal(s, p2pk(k.comp)) || bytes.Equal(s, p2pk(k.unc)) {
			return true
		}
	}
	return false
}

func signInput(tx *wire.MsgTx, idx int, prev []byte) []byte {
	if bytes.Equal(prev, []byte{0x51}) || bytes.Equal(prev, []byte{0x52}) {
		return nil
	}
	if bytes.Equal(prev, p2shTrue) {
		return []byte{0x01, 0x51}
	}
	for _, k := range hkeys {
		for _, comp := range []bool{true, false} {
			ser := k.unc
			if comp {
				ser = k.comp
			}
			if bytes.Equal(prev, p2pkh(address.Hash160(ser))) {
				s, err := txscript.SignatureScript(tx, idx, prev, txscript.SigHashAll, k.priv, comp)
				if err != nil {
					panic(err)
				}
				return s
			}
			if bytes.Equal(prev, p2pk(ser)) {
				sig, err := txscript.RawTxInSignature(tx, idx, prev, txscript.SigHashAll, k.priv)
				if err != nil {
					panic(err)
				}
				s, _ := txscript.NewScriptBuilder().AddData(sig).Script()
				return s
			}
		}
	}
	panic("cannot sign for " + hexTok(prev))
}

// ---------------------------------------------------------------- real chain

const chainBaseTime = 1356998400

func chainParams() *chaincfg.Params {
	p := chaincfg.RegressionNetParams
	p.CoinbaseMaturity = 1
	p.Checkpoints = nil
	p.BIP0034Height = 100000000
	p.BIP0034Hash = nil
	return &p
}

func shmRoot() string {
	if st, err := os.Stat("/dev/shm"); err == nil && st.IsDir() {
		return "/dev/shm"
	}
	return ""
}

func buildBlocks(params *chaincfg.Params, abs []cBlock) []*btcutil.Block {
	txs := map[[2]int]*wire.MsgTx{}
	prev := *params.GenesisHash
	var out []*btcutil.Block
	for bi, ab := range abs {
		height := int32(bi + 1)
		var mb wire.MsgBlock
		for ti, at := range ab {
			m := wire.NewMsgTx(1)
			if ti == 0 {
				sig := []byte{4, byte(height), byte(height >> 8), 0xc1, 0x5c}
				m.AddTxIn(&wire.TxIn{PreviousOutPoint: *wire.NewOutPoint(&chainhash.Hash{}, wire.MaxPrevOutIndex),
					SignatureScript: sig, Sequence: wire.MaxTxInSequenceNum})
			}
			for _, in := range at.ins {
				src := txs[[2]int{in.h, in.t}]
				m.AddTxIn(&wire.TxIn{PreviousOutPoint: wire.OutPoint{Hash: src.TxHash(), Index: uint32(in.o)},
					Sequence: wire.MaxTxInSequenceNum})
			}
			for _, o := range at.outs {
				m.AddTxOut(&wire.TxOut{Value: o.amt, PkScript: o.script})
			}
			for i, in := range at.ins {
				src := txs[[2]int{in.h, in.t}]
				m.TxIn[i].SignatureScript = signInput(m, i, src.TxOut[in.o].PkScript)
			}
			txs[[2]int{int(height), ti}] = m
			mb.AddTransaction(m)
		}
		utx := make([]*btcutil.Tx, len(mb.Transactions))
		for i, t := range mb.Transactions {
			utx[i] = btcutil.NewTx(t)
		}
		mb.Header = wire.BlockHeader{Version: 0x20000000, PrevBlock: prev,
			MerkleRoot: blockchain.CalcMerkleRoot(utx, false),
			Timestamp:  time.Unix(chainBaseTime+int64(height)*600, 0), Bits: params.PowLimitBits}
		target := blockchain.CompactToBig(mb.Header.Bits)
		for n := uint32(0); ; n++ {
			mb.Header.Nonce = n
			h := mb.Header.BlockHash()
			if blockchain.HashToBig(&h).Cmp(target) <= 0 {
				break
			}
		}
		prev = mb.Header.BlockHash()
		blk := btcutil.NewBlock(&mb)
		blk.SetHeight(height)
		out = append(out, blk)
	}
	return out
}

func execChain(f []string) string {
	cf := strings.Split(f[0], ",")
	cacheA, cacheB, order := u64(cf[0]), u64(cf[1]), atoi(cf[2])
	var abs []cBlock
	for _, s := range f[1:] {
		abs = append(abs, parseCBlock(s))
	}
	params := chainParams()
	blocks := buildBlocks(params, abs)

	dir, err := os.MkdirTemp(shmRoot(), "c15-")
	if err != nil {
		panic(err)
	}
	defer os.RemoveAll(dir)
	db, err := database.Create("ffldb", dir, wire.TestNet)
	if err != nil {
		panic(err)
	}
	closed := false
	defer func() {
		if !closed {
			db.Close()
		}
	}()
	open := func(cache uint64) *blockchain.BlockChain {
		ch, err := blockchain.New(&blockchain.Config{DB: db, ChainParams: params,
			TimeSource: blockchain.NewMedianTime(), UtxoCacheMaxSize: cache})
		if err != nil {
			panic(err)
		}
		return ch
	}
	ch := open(cacheA)
	for i, blk := range blocks {
		_, orphan, err := ch.ProcessBlock(blk, blockchain.BFNone)
		if err != nil || orphan {
			return fmt.Sprintf("build-err block %d", i+1)
		}
	}
	// a competing block at the tip height (same work, seen second): stored, indexed, but not in the main chain
	var side *btcutil.Block
	if len(blocks) > 0 {
		alt := make([]cBlock, len(abs))
		copy(alt, abs)
		alt[len(alt)-1] = cBlock{cTx{outs: []cOut{{amt: 1, script: []byte{0x53}}}}}
		side = buildBlocks(params, alt)[len(alt)-1]
		if _, _, err := ch.ProcessBlock(side, blockchain.BFNone); err != nil {
			return "build-err side block"
		}
	}
	if err := ch.FlushUtxoCache(blockchain.FlushRequired); err != nil {
		return "flush-err"
	}
	// second life on the same data with another cache size
	if err := db.Close(); err != nil {
		return "close-err"
	}
	db, err = database.Open("ffldb", dir, wire.TestNet)
	if err != nil {
		closed = true
		return "open-err"
	}
	ch = open(cacheB)

	obsBest := func() string {
		s := ch.BestSnapshot()
		tip := "tipbad"
		if len(blocks) == 0 && s.Hash == *params.GenesisHash || len(blocks) > 0 && s.Hash == *blocks[len(blocks)-1].Hash() {
			tip = "tipok"
		}
		return fmt.Sprintf("best=%d,%d,%s", s.Height, s.TotalTxns, tip)
	}
	obsUtxo := func() string {
		var parts []string
		for _, blk := range blocks {
			for _, tx := range blk.Transactions() {
				for oi := range tx.MsgTx().TxOut {
					e, err := ch.FetchUtxoEntry(wire.OutPoint{Hash: *tx.Hash(), Index: uint32(oi)})
					switch {
					case err != nil:
						parts = append(parts, "err")
					case e == nil || e.IsSpent():
						parts = append(parts, "x")
					default:
						parts = append(parts, txo{uint64(e.Amount()), e.PkScript(), e.BlockHeight(), e.IsCoinBase()}.String())
					}
				}
			}
		}
		if len(parts) == 0 {
			return "utxo=-"
		}
		return "utxo=" + strings.Join(parts, ",")
	}
	obsJournal := func(mutate bool) string {
		var parts []string
		for _, blk := range blocks {
			st, err := ch.FetchSpendJournal(blk)
			if err != nil {
				parts = append(parts, "err")
				continue
			}
			l := make([]txo, len(st))
			for i := range st {
				l[i] = fromStxo(st[i])
			}
			parts = append(parts, showTxos(l))
			if mutate { // the caller owns the result: damaging it must not be visible later
				for i := range st {
					st[i].Amount = -1
					st[i].Height = -7
					for j := range st[i].PkScript {
						st[i].PkScript[j] ^= 0xff
					}
				}
			}
		}
		if len(parts) == 0 {
			return "j=-"
		}
		return "j=" + strings.Join(parts, "|")
	}
	obsBlocks := func() string {
		for i, blk := range blocks {
			raw, _ := blk.Bytes()
			b1, err := ch.BlockByHeight(int32(i + 1))
			if err != nil {
				return "blk=byheight-err"
			}
			r1, _ := b1.Bytes()
			b2, err := ch.BlockByHash(blk.Hash())
			if err != nil {
				return "blk=byhash-err"
			}
			r2, _ := b2.Bytes()
			b3, err := blockchain.DBBlockFromBytes(raw, *blk.Hash())
			if err != nil {
				return "blk=frombytes-err"
			}
			r3, _ := b3.Bytes()
			// lenient form: trailing bytes in the stored block are dropped from the cached serialization
			b4, err := blockchain.DBBlockFromBytes(append(append([]byte{}, raw...), 0xde, 0xad, byte(i)), *blk.Hash())
			if err != nil {
				return "blk=frombytes-trailing-err"
			}
			if r4, _ := b4.Bytes(); !bytes.Equal(raw, r4) || *b4.Hash() != *blk.Hash() {
				return fmt.Sprintf("blk=trailing-differs-at-%d", i+1)
			}
			if _, err := blockchain.DBBlockFromBytes(raw[:len(raw)-1], *blk.Hash()); err == nil {
				return "blk=truncated-accepted"
			}
			hd, err := ch.HeaderByHash(blk.Hash())
			if err != nil {
				return "blk=header-err"
			}
			var hb bytes.Buffer
			hd.Serialize(&hb)
			if !bytes.Equal(raw, r1) || !bytes.Equal(raw, r2) || !bytes.Equal(raw, r3) || !bytes.Equal(hb.Bytes(), raw[:80]) ||
				b1.Height() != int32(i+1) || *b1.Hash() != *blk.Hash() || *b2.Hash() != *blk.Hash() || *b3.Hash() != *blk.Hash() ||
				b2.Height() != int32(i+1) {
				return fmt.Sprintf("blk=differs-at-%d", i+1)
			}
		}
		if _, err := ch.BlockByHeight(int32(len(blocks) + 1)); err == nil {
			return "blk=phantom"
		}
		if side != nil {
			if _, err := ch.BlockByHash(side.Hash()); err == nil {
				return "blk=side-chain-block-served"
			}
			if ok, err := ch.HaveBlock(side.Hash()); err != nil || !ok {
				return "blk=side-chain-block-lost"
			}
		}
		return "blk=ok"
	}

	var first [4]string
	run := func(k int) {
		switch k {
		case 0:
			first[0] = obsBest()
		case 1:
			first[1] = obsUtxo()
		case 2:
			first[2] = obsJournal(true)
		case 3:
			first[3] = obsBlocks()
		}
	}
	orders := [][]int{{0, 1, 2, 3}, {3, 2, 1, 0}, {2, 0, 3, 1}, {1, 3, 0, 2}}
	for _, k := range orders[order%4] {
		run(k)
	}
	// re-observe after everything else ran (and after the fetched journals were damaged)
	stable := "stable=ok"
	if obsBest() != first[0] || obsUtxo() != first[1] || obsJournal(false) != first[2] || obsBlocks() != first[3] {
		stable = "stable=changed"
	}
	return strings.Join(append(first[:], stable), " ")
}

// ---------------------------------------------------------------- par: independent instances concurrently

// execPar runs every sub-line (tokens joined by '~', sub-lines by '|') in its own goroutine, started
// at staggered offsets, and joins the answers with '|'.
func execPar(arg string) string {
	subs := strings.Split(arg, "|")
	outs := make([]string, len(subs))
	start := make(chan struct{})
	var wg sync.WaitGroup
	for i, s := range subs {
		wg.Add(1)
		go func(i int, s string) {
			defer wg.Done()
			defer func() {
				if recover() != nil {
					outs[i] = "panic"
				}
			}()
			line := "C15 " + strings.ReplaceAll(s, "~", " ")
			// cheap sub-cases are repeated so that the instances really overlap in time; every repetition
			// must give the same answer (an answer that flickers under concurrency is reported as such)
			reps := 40
			if strings.HasPrefix(s, "chain") {
				reps = 1
			}
			<-start
			for k := 0; k < reps; k++ {
				o := P{}.Exec(line)
				if k == 0 {
					outs[i] = o
				} else if o != outs[i] {
					outs[i] = "flicker"
					return
				}
			}
		}(i, s)
	}
	close(start)
	wg.Wait()
	return strings.Join(outs, "|")
}

// ---------------------------------------------------------------- generation

type avail struct {
	ref    cRef
	amt    int64
	mature int // first height at which it can be spent
}

// genChainScript: any script whose IsUnspendable status follows the simple rule.
func genChainScript(r *core.Rand) []byte {
	for tries := 0; ; tries++ {
		if tries > 50 { // never spin on a tree whose IsUnspendable changed
			return []byte{0x51}
		}
		var s []byte
		switch r.Intn(4) {
		case 0:
			s = spendableScript(r)
		case 1:
			s = []byte{0x6a, 0x01, byte(r.U64())} // OP_RETURN: never enters the utxo set
		default:
			s, _ = genScript(r)
		}
		simple := len(s) > 0 && s[0] == 0x6a || len(s) > 10000
		if txscript.IsUnspendable(s) == simple {
			return s
		}
	}
}

func genChainLine(r *core.Rand) string {
	n := 2 + r.Intn(6)
	var blocks []cBlock
	var pool []avail
	for h := 1; h <= n; h++ {
		var blk cBlock
		// coinbase
		budget := int64(5000000000)
		cb := cTx{}
		for k := 1 + r.Intn(3); k > 0 && budget > 0; k-- {
			a := int64(genAmount(r) % uint64(budget+1))
			if r.Chance(1, 6) {
				a = 0
			}
			s := genChainScript(r)
			if r.Chance(1, 2) {
				s = spendableScript(r)
			}
			cb.outs = append(cb.outs, cOut{a, s})
			budget -= a
		}
		blk = append(blk, cb)
		for oi, o := range cb.outs {
			if canSpend(o.script) {
				pool = append(pool, avail{cRef{h, 0, oi}, o.amt, h + 1})
			}
		}
		for ti := 1; ti <= r.Intn(4); ti++ {
			var tx cTx
			var sum int64
			for k := 1 + r.Intn(3); k > 0; k-- {
				// pick a mature available output
				cand := -1
				for tries := 0; tries < 8 && len(pool) > 0; tries++ {
					c := r.Intn(len(pool))
					if pool[c].mature <= h {
						cand = c
						break
					}
				}
				if cand < 0 {
					break
				}
				tx.ins = append(tx.ins, pool[cand].ref)
				sum += pool[cand].amt
				pool = append(pool[:cand], pool[cand+1:]...)
			}
			if len(tx.ins) == 0 {
				break
			}
			for k := 1 + r.Intn(3); k > 0; k-- {
				a := int64(0)
				if sum > 0 {
					a = int64(r.U64() % uint64(sum+1))
					if r.Chance(1, 3) {
						a = sum
					}
				}
				s := genChainScript(r)
				if r.Chance(1, 2) {
					s = spendableScript(r)
				}
				tx.outs = append(tx.outs, cOut{a, s})
				sum -= a
			}
			idx := len(blk)
			blk = append(blk, tx)
			for oi, o := range tx.outs {
				if canSpend(o.script) {
					pool = append(pool, avail{cRef{h, idx, oi}, o.amt, h})
				}
			}
		}
		blocks = append(blocks, blk)
	}
	caches := []uint64{0, 1, 300, 4096, 1 << 20, 100 << 20}
	parts := []string{fmt.Sprintf("C15 chain %d,%d,%d", caches[r.Intn(len(caches))], caches[r.Intn(len(caches))], r.Intn(4))}
	for _, b := range blocks {
		parts = append(parts, b.String())
	}
	return strings.Join(parts, " ")
}
