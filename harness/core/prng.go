// Package core is the frame shared by every per-property correspondence
// harness: one PRNG stream, case collection, the pipe to the Lean driver,
// comparison, known-finding matching, replay files and run statistics.
package core

// Rand is splitmix64; every random choice of a run derives from one seed.
type Rand struct{ s uint64 }

func NewRand(seed uint64) *Rand {
	// The seed is passed through the splitmix finaliser first: with a plain
	// affine start value the stream of seed k+1 is the stream of seed k shifted
	// by one draw, which makes seed sweeps far weaker than they look.
	z := seed + 0x632BE59BD9B4E019
	z = (z ^ (z >> 30)) * 0xBF58476D1CE4E5B9
	z = (z ^ (z >> 27)) * 0x94D049BB133111EB
	return &Rand{s: z ^ (z >> 31)}
}

func (r *Rand) U64() uint64 {
	r.s += 0x9E3779B97F4A7C15
	z := r.s
	z = (z ^ (z >> 30)) * 0xBF58476D1CE4E5B9
	z = (z ^ (z >> 27)) * 0x94D049BB133111EB
	return z ^ (z >> 31)
}

func (r *Rand) U32() uint32 { return uint32(r.U64() >> 32) }

// Intn returns a value in [0,n).
func (r *Rand) Intn(n int) int {
	if n <= 0 {
		return 0
	}
	return int(r.U64() % uint64(n))
}

// Range returns a value in [lo,hi].
func (r *Rand) Range(lo, hi int64) int64 {
	if hi <= lo {
		return lo
	}
	return lo + int64(r.U64()%uint64(hi-lo+1))
}

func (r *Rand) Bool() bool { return r.U64()&1 == 1 }

// Chance is true with probability num/den.
func (r *Rand) Chance(num, den int) bool { return r.Intn(den) < num }

func (r *Rand) Bytes(n int) []byte {
	b := make([]byte, n)
	for i := range b {
		b[i] = byte(r.U64())
	}
	return b
}

// Pick returns one of the given ints.
func (r *Rand) Pick(xs ...int64) int64 { return xs[r.Intn(len(xs))] }

// Fork derives an independent stream (for sub-generators) without disturbing
// the order of later draws.
func (r *Rand) Fork() *Rand { return NewRand(r.U64()) }
