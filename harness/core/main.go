package core

import (
	"bufio"
	"encoding/json"
	"flag"
	"fmt"
	"hash/fnv"
	"os"
	"os/exec"
	"path/filepath"
	"regexp"
	"sort"
	"strconv"
	"strings"
	"time"
)

// Property is what each pXX package implements.
//
// Generate emits protocol lines ("Cxx <op> <args…>", self-contained: a stateful
// property puts a whole history on one line). Exec runs the REAL btcd code for
// one line and returns the canonical observation; the Lean driver answers the
// same line from the model/spec. The two answers are compared verbatim.
type Property interface {
	ID() string
	Generate(g *Gen)
	Exec(line string) string
}

// FindingClassifier is optionally implemented by a Property whose known
// findings cannot be recognised by a regex on the protocol line: it returns the
// id of the known finding (an entry of known_findings.json with status "known")
// that fully explains this disagreement, or "".
type FindingClassifier interface {
	ClassifyMismatch(line, goOut, leanOut string) string
}

// Gen is handed to Property.Generate.
type Gen struct {
	R     *Rand
	Tier  string // "quick" | "thorough"
	Seed  uint64
	cases []caseRec
}

type caseRec struct {
	class      string
	nontrivial bool
	line       string
	origin     string // "corpus" | "generated"
}

func (g *Gen) Thorough() bool { return g.Tier == "thorough" }

// N scales a case count: quick count, thorough count.
func (g *Gen) N(quick, thorough int) int {
	if g.Thorough() {
		return thorough
	}
	return quick
}

// Case records one protocol line. class feeds the input-distribution
// histogram; nontrivial is the property's own non-triviality rule.
func (g *Gen) Case(class string, nontrivial bool, line string) {
	g.cases = append(g.cases, caseRec{class, nontrivial, line, "generated"})
}

// Finding is one entry of /verif/known_findings.json.
type Finding struct {
	ID       string `json:"id"`
	Property string `json:"property"`
	Status   string `json:"status"` // "known" | "fixed"
	What     string `json:"what"`
	// A disagreement is attributed to this finding iff the protocol line
	// matches LineRegex and the implementation's answer matches GoRegex
	// (empty = any).
	LineRegex string `json:"line_regex"`
	GoRegex   string `json:"go_regex"`
	Commit    string `json:"commit,omitempty"`
}

type mismatch struct {
	Line     string `json:"line"`
	Go       string `json:"go_output"`
	Lean     string `json:"lean_output"`
	Class    string `json:"class"`
	Origin   string `json:"origin"`
	Finding  string `json:"known_finding,omitempty"`
	ReplayTo string `json:"-"`
}

func safeExec(p Property, line string) (out string) {
	defer func() {
		if r := recover(); r != nil {
			out = "panic"
			if os.Getenv("VERIF_DEBUG") != "" {
				fmt.Fprintf(os.Stderr, "panic on %q: %v\n", trunc(line, 200), r)
			}
		}
	}()
	return p.Exec(line)
}

func trunc(s string, n int) string {
	if len(s) <= n {
		return s
	}
	return s[:n] + "…(" + strconv.Itoa(len(s)) + " bytes)"
}

func verifDir() string {
	if d := os.Getenv("VERIF_DIR"); d != "" {
		return d
	}
	return "/verif"
}

func loadFindings(prop string) []Finding {
	var all []Finding
	b, err := os.ReadFile(filepath.Join(verifDir(), "known_findings.json"))
	if err != nil {
		return nil
	}
	var doc struct {
		Findings []Finding `json:"findings"`
	}
	if json.Unmarshal(b, &doc) != nil {
		return nil
	}
	for _, f := range doc.Findings {
		if f.Property == prop && f.Status == "known" {
			all = append(all, f)
		}
	}
	return all
}

func readCorpus(prop string) []caseRec {
	var out []caseRec
	dir := filepath.Join(verifDir(), "corpus", prop)
	ents, _ := os.ReadDir(dir)
	names := []string{}
	for _, e := range ents {
		if strings.HasSuffix(e.Name(), ".txt") {
			names = append(names, e.Name())
		}
	}
	sort.Strings(names)
	for _, n := range names {
		f, err := os.Open(filepath.Join(dir, n))
		if err != nil {
			continue
		}
		sc := bufio.NewScanner(f)
		sc.Buffer(make([]byte, 1<<20), 1<<28)
		for sc.Scan() {
			l := strings.TrimSpace(sc.Text())
			if l == "" || strings.HasPrefix(l, "#") {
				continue
			}
			out = append(out, caseRec{"corpus:" + strings.TrimSuffix(n, ".txt"), true, l, "corpus"})
		}
		f.Close()
	}
	return out
}

// RunLean pipes lines to bvdrv and returns one answer per line.
func RunLean(pid string, lines []string) ([]string, error) {
	drv := os.Getenv("VERIF_BVDRV")
	if drv == "" {
		drv = filepath.Join(verifDir(), "lean/.lake/build/bin/drv_"+strings.ToLower(pid))
	}
	cmd := exec.Command(drv)
	stdin, err := cmd.StdinPipe()
	if err != nil {
		return nil, err
	}
	stdout, err := cmd.StdoutPipe()
	if err != nil {
		return nil, err
	}
	cmd.Stderr = os.Stderr
	if err := cmd.Start(); err != nil {
		return nil, err
	}
	go func() {
		w := bufio.NewWriterSize(stdin, 1<<20)
		for _, l := range lines {
			w.WriteString(l)
			w.WriteByte('\n')
		}
		w.Flush()
		stdin.Close()
	}()
	outs := make([]string, 0, len(lines))
	sc := bufio.NewScanner(stdout)
	sc.Buffer(make([]byte, 1<<20), 1<<28)
	for sc.Scan() {
		outs = append(outs, sc.Text())
	}
	werr := cmd.Wait()
	if len(outs) != len(lines) {
		return outs, fmt.Errorf("lean driver answered %d of %d lines (wait: %v)", len(outs), len(lines), werr)
	}
	return outs, nil
}

// Main is the entry point of every cmd/cXX binary.
func Main(p Property) {
	tier := flag.String("tier", envOr("VERIF_TIER", "quick"), "quick|thorough")
	seedS := flag.String("seed", envOr("VERIF_SEED", "1"), "seed")
	replay := flag.String("replay", "", "replay file (json written by a previous run, or a text file of lines)")
	stats := flag.String("stats", "", "write run statistics (json) here")
	replayDir := flag.String("replays", filepath.Join(verifDir(), "replays"), "where replay files go")
	flag.Parse()
	maybeEmitFacts(p)
	seed, _ := strconv.ParseUint(*seedS, 10, 64)
	start := time.Now()

	g := &Gen{R: NewRand(seed), Tier: *tier, Seed: seed}
	if *replay != "" {
		for _, l := range replayLines(*replay) {
			g.cases = append(g.cases, caseRec{"replay", true, l, "replay"})
		}
	} else {
		g.cases = append(g.cases, readCorpus(p.ID())...)
		p.Generate(g)
	}

	lines := make([]string, len(g.cases))
	goOut := make([]string, len(g.cases))
	for i, c := range g.cases {
		lines[i] = c.line
		goOut[i] = safeExec(p, c.line)
	}
	tExec := time.Since(start)
	leanOut, err := RunLean(p.ID(), lines)
	if err != nil {
		fmt.Fprintf(os.Stderr, "harness: %v\n", err)
		// A driver crash is a broken correspondence on the first unanswered line.
		for len(leanOut) < len(lines) {
			leanOut = append(leanOut, "driver-crash")
		}
	}

	findings := loadFindings(p.ID())
	classes := map[string]int{}
	outcomes := map[string]int{}
	distinct := map[uint64]struct{}{}
	samples := map[string][]map[string]string{}
	var mism []mismatch
	seenFinding := map[string]int{}
	for i, c := range g.cases {
		classes[c.class]++
		outcomes[outcomeKey(goOut[i])]++
		if c.nontrivial {
			h := fnv.New64a()
			h.Write([]byte(c.line))
			distinct[h.Sum64()] = struct{}{}
		}
		if len(samples[c.class]) < 2 {
			samples[c.class] = append(samples[c.class], map[string]string{
				"line": trunc(c.line, 400), "go": trunc(goOut[i], 300), "lean": trunc(leanOut[i], 300)})
		}
		if goOut[i] != leanOut[i] {
			m := mismatch{Line: c.line, Go: goOut[i], Lean: leanOut[i], Class: c.class, Origin: c.origin}
			if fc, ok := p.(FindingClassifier); ok {
				if id := fc.ClassifyMismatch(c.line, goOut[i], leanOut[i]); id != "" {
					for _, f := range findings {
						if f.ID == id {
							m.Finding = id
							seenFinding[id]++
						}
					}
				}
			}
			for _, f := range findings {
				if m.Finding != "" {
					break
				}
				if f.LineRegex != "" && matchRe(f.LineRegex, c.line) && matchRe(f.GoRegex, goOut[i]) {
					m.Finding = f.ID
					seenFinding[f.ID]++
				}
			}
			mism = append(mism, m)
		}
	}

	violations := 0
	os.MkdirAll(*replayDir, 0o755)
	for _, f := range findings {
		if seenFinding[f.ID] > 0 {
			fmt.Printf("KNOWN-FINDING: property=%s %s: %s (%d case(s) this run)\n", p.ID(), f.ID, f.What, seenFinding[f.ID])
		}
	}
	for _, m := range mism {
		if m.Finding != "" {
			continue
		}
		violations++
		if violations > 5 {
			continue
		}
		path := filepath.Join(*replayDir, fmt.Sprintf("%s-seed%d-%d.json", p.ID(), seed, violations))
		doc := map[string]any{
			"property": p.ID(), "seed": seed, "tier": *tier, "kind": "counterexample",
			"line": m.Line, "go_output": m.Go, "lean_output": m.Lean, "class": m.Class, "origin": m.Origin,
			"note": "implementation answer differs from the Lean model/spec answer on this input; replay with ./check " + p.ID() + " --replay <this file>",
		}
		b, _ := json.MarshalIndent(doc, "", " ")
		os.WriteFile(path, b, 0o644)
		fmt.Printf("VIOLATION property=%s replay=%s\n", p.ID(), path)
		fmt.Fprintf(os.Stderr, "  class=%s line=%s\n  go  =%s\n  lean=%s\n", m.Class, trunc(m.Line, 300), trunc(m.Go, 300), trunc(m.Lean, 300))
	}

	if *stats != "" {
		var samp []any
		keys := make([]string, 0, len(samples))
		for k := range samples {
			keys = append(keys, k)
		}
		sort.Strings(keys)
		for _, k := range keys {
			for _, s := range samples[k] {
				s["class"] = k
				samp = append(samp, s)
			}
			if len(samp) >= 24 {
				break
			}
		}
		kf := []string{}
		for id, n := range seenFinding {
			kf = append(kf, fmt.Sprintf("%s x%d", id, n))
		}
		sort.Strings(kf)
		doc := map[string]any{
			"evaluations": len(g.cases), "distinct_nontrivial": len(distinct),
			"input_distribution": map[string]any{"classes": classes, "go_outcomes": outcomes},
			"samples":            samp, "violations": violations, "known_findings": kf,
			"exec_s": tExec.Seconds(), "wall_s": time.Since(start).Seconds(),
			"mismatches_total": len(mism),
		}
		b, _ := json.MarshalIndent(doc, "", " ")
		os.WriteFile(*stats, b, 0o644)
	}
	fmt.Fprintf(os.Stderr, "%s: %d cases (%d distinct non-trivial), %d mismatches (%d attributed to known findings), %.1fs\n",
		p.ID(), len(g.cases), len(distinct), len(mism), len(mism)-violations, time.Since(start).Seconds())
	if violations > 0 {
		os.Exit(1)
	}
}

func outcomeKey(s string) string {
	// first token, bounded, for the outcome histogram
	if i := strings.IndexAny(s, " :="); i > 0 {
		s = s[:i]
	}
	switch {
	case s == "ok", s == "panic", s == "err", s == "reject", s == "accept", s == "assert", s == "bad-op", s == "malformed":
		return s
	case strings.HasPrefix(s, "err"):
		return "err"
	}
	return "value"
}

func matchRe(re, s string) bool {
	if re == "" {
		return true
	}
	ok, err := regexp.MatchString(re, s)
	return err == nil && ok
}

func envOr(k, d string) string {
	if v := os.Getenv(k); v != "" {
		return v
	}
	return d
}

func replayLines(path string) []string {
	b, err := os.ReadFile(path)
	if err != nil {
		fmt.Fprintf(os.Stderr, "replay: %v\n", err)
		os.Exit(2)
	}
	var doc map[string]any
	if json.Unmarshal(b, &doc) == nil {
		if l, ok := doc["line"].(string); ok {
			return []string{l}
		}
		if ls, ok := doc["lines"].([]any); ok {
			var out []string
			for _, x := range ls {
				if s, ok := x.(string); ok {
					out = append(out, s)
				}
			}
			return out
		}
	}
	var out []string
	for _, l := range strings.Split(string(b), "\n") {
		l = strings.TrimSpace(l)
		if l != "" && !strings.HasPrefix(l, "#") {
			out = append(out, l)
		}
	}
	return out
}
