package p06

import (
	"github.com/btcsuite/btcd/btcec/v2/schnorr"
	"github.com/btcsuite/btcd/txscript/v2"
	"github.com/btcsuite/btcd/wire/v2"
	"verifharness/core"
)

// genTaprootCoverage: systematic taproot / tapscript / witness-program families (not random): every opcode as
// OP_SUCCESS candidate in every position, every control-block first byte, control block lengths, the sigop
// budget at its exact boundary, annex placement, witness programs of every version and length.
// `thin` > 1 keeps one case in `thin` (rotated by the seed) for the quick tier.
func genTaprootCoverage(g *core.Gen, r *core.Rand, keys []keyT, thin int) []caseSpec {
	var out []caseSpec
	n := 0
	rot := int(g.Seed % uint64(thin))
	keep := func() bool {
		n++
		return thin <= 1 || (n+rot)%thin == 0
	}
	sh := txShape{version: 2, lockTime: 0, sequence: 0xfffffffe, nIn: 1, idx: 0, nOut: 1, amount: 7000}
	flagSets := []txscript.ScriptFlags{txscript.StandardVerifyFlags, consensusAll}
	addTap := func(class string, fl txscript.ScriptFlags, script []byte, tap *tapInfo, mk func(b *builtSpend) [][]byte) {
		if tap == nil {
			tap = &tapInfo{internal: keys[0].priv.PubKey(), leafVer: 0xc0}
		}
		b := buildSpend(r, wTapscript, script, sh, fl, tap)
		var items [][]byte
		if mk != nil {
			items = mk(b)
		}
		out = append(out, caseSpec{class: "gen:tap:" + class, sp: b.finish(items, nil)})
	}

	// 1. OP_SUCCESSx: every opcode value, in every position
	for op := 0; op < 256; op++ {
		o := byte(op)
		opEnc := []byte{o}
		if op >= 1 && op <= 0x4b {
			opEnc = append(opEnc, rep(0x51, op)...)
		} else if op == 0x4c {
			opEnc = []byte{o, 1, 0x51}
		} else if op == 0x4d {
			opEnc = []byte{o, 1, 0, 0x51}
		} else if op == 0x4e {
			opEnc = []byte{o, 1, 0, 0, 0, 0x51}
		}
		scripts := map[string][]byte{
			"first":             cat(opEnc, []byte{0x51}),
			"last":              cat([]byte{0x51}, opEnc),
			"dead-branch":       cat([]byte{0x00, 0x63}, opEnc, []byte{0x68, 0x51}),
			"after-return":      cat([]byte{0x6a}, opEnc),
			"in-push-data":      cat(pushBytes([]byte{o, o, o}), []byte{0x75, 0x51}),
			"before-truncated":  cat(opEnc, []byte{0x4c, 0x09, 0x01}),
			"after-truncated":   cat([]byte{0x4c, 0x09}, []byte{o}),
			"in-pushdata-len":   cat([]byte{0x4c, o}, rep(0x07, op), []byte{0x75, 0x51}),
			"after-false-verify": cat([]byte{0x00, 0x69}, opEnc),
		}
		for _, pos := range []string{"first", "last", "dead-branch", "after-return", "in-push-data", "before-truncated",
			"after-truncated", "in-pushdata-len", "after-false-verify"} {
			for _, fl := range flagSets {
				if !keep() {
					continue
				}
				addTap("opsuccess:"+pos, fl, scripts[pos], nil, nil)
			}
		}
	}

	// 2. every first byte of the control block (leaf version bits + parity bit) for a leaf committed with
	//    version v&0xfe; the script leaves exactly one true element
	for v := 0; v < 256; v++ {
		for _, fl := range flagSets {
			if !keep() {
				continue
			}
			tap := &tapInfo{internal: keys[0].priv.PubKey(), leafVer: byte(v) & 0xfe, path: [][]byte{r.Bytes(32)}}
			b := buildSpend(r, wTapscript, []byte{0x51}, sh, fl, tap)
			sp := b.finish(nil, nil)
			w := sp.tx.TxIn[sp.idx].Witness
			ctrl := append([]byte{}, w[len(w)-1]...)
			ctrl[0] = byte(v) // may flip the parity bit
			w[len(w)-1] = ctrl
			out = append(out, caseSpec{class: "gen:tap:control-byte", sp: sp})
		}
	}
	// a leaf version that collides with the annex tag, with and without a real annex behind it
	for _, fl := range flagSets {
		for _, annex := range [][]byte{nil, {0x50}, {0x50, 0x01, 0x02}} {
			addTap("leafver-0x50", fl, []byte{0x51}, &tapInfo{internal: keys[0].priv.PubKey(), leafVer: 0x50, annex: annex}, nil)
		}
	}

	// 3. control block lengths 33 + 32k: k = 0, 1, 2, 127, 128 valid paths; 129 and every off-by-one length invalid
	for _, k := range []int{0, 1, 2, 127, 128, 129} {
		for _, fl := range flagSets {
			tap := &tapInfo{internal: keys[0].priv.PubKey(), leafVer: 0xc0}
			for i := 0; i < k; i++ {
				tap.path = append(tap.path, r.Bytes(32))
			}
			addTap("control-len", fl, []byte{0x51}, tap, nil)
			for _, delta := range []int{-1, 1, -32, -33} {
				b := buildSpend(r, wTapscript, []byte{0x51}, sh, fl, tap)
				sp := b.finish(nil, nil)
				w := sp.tx.TxIn[sp.idx].Witness
				ctrl := append([]byte{}, w[len(w)-1]...)
				if delta < 0 {
					if len(ctrl)+delta < 0 {
						continue
					}
					ctrl = ctrl[:len(ctrl)+delta]
				} else {
					ctrl = append(ctrl, 0x00)
				}
				w[len(w)-1] = ctrl
				out = append(out, caseSpec{class: "gen:tap:control-len-off", sp: sp})
			}
		}
	}

	// 4. sigop budget at its exact boundary: <pk> (2DUP CHECKSIGVERIFY | OVER SWAP ... ) * k; a padding element
	//    tunes the witness size byte by byte (crossing the 252/253 compact-size step for larger k)
	for _, mode := range []string{"checksigverify", "checksigadd", "unknown-key"} {
		for k := 2; k <= 11; k++ {
			for _, fl := range flagSets {
				if mode == "unknown-key" && fl == txscript.StandardVerifyFlags {
					continue // discouraged before the budget matters
				}
				pk := keys[1].xonly
				if mode == "unknown-key" {
					pk = keys[1].comp // 33 bytes: unknown key type, signature counts but is not verified
				}
				var script []byte
				switch mode {
				case "checksigadd":
					// pad sig | SWAP DROP <pk> 0 (3 PICK SWAP 3 PICK CHECKSIGADD)*k k NUMEQUALVERIFY 2DROP 1
					script = cat([]byte{0x7c, 0x75}, pushBytes(pk), []byte{0x00})
					for i := 0; i < k; i++ {
						// stack: sig pk n  ->  OVER-like juggling: sig pk n sig n' pk : use 2 PICK, SWAP, 2 PICK
						script = append(script, 0x52, 0x79, 0x7c, 0x52, 0x79, 0xba) // 2 PICK SWAP 2 PICK CHECKSIGADD
					}
					script = cat(script, pushNum(int64(k)), []byte{0x9d, 0x6d, 0x51})
				default:
					script = cat([]byte{0x7c, 0x75}, pushBytes(pk))
					for i := 0; i < k; i++ {
						script = append(script, 0x6e, 0xad)
					}
					script = append(script, 0x6d, 0x51)
				}
				tap := &tapInfo{internal: keys[0].priv.PubKey(), leafVer: 0xc0}
				if k%3 == 0 {
					tap.annex = append([]byte{0x50}, rep(0x33, 3*k)...) // the annex counts towards the budget
				}
				// find the smallest padding with a non-negative final budget
				budget := func(pad int) int {
					b := buildSpend(core.NewRand(1), wTapscript, script, sh, fl, tap)
					sp := b.finish([][]byte{rep(0, pad), rep(1, 64)}, nil)
					return 50 + sp.tx.TxIn[0].Witness.SerializeSize() - 50*k
				}
				p := 0
				for p < 520 && budget(p) < 0 {
					p++
				}
				for _, pad := range []int{p - 1, p, p + 1} {
					if pad < 0 || pad > 520 {
						continue
					}
					pad := pad
					addTap("sigops-boundary:"+mode, fl, script, tap, func(b *builtSpend) [][]byte {
						sig := b.schnorrSig(sigPlan{key: keys[1]}, 0xffffffff, keys)
						return [][]byte{rep(0, pad), sig}
					})
				}
			}
		}
	}

	// 4b. the number of witness items crosses the compact-size step 252 / 253 (it is part of the serialized
	//     witness size and thus of the budget): N one-byte items dropped pairwise, then k signature checks
	for _, nItems := range []int{248, 249, 250, 251, 252, 253} {
		mkScript := func(k int) []byte {
			sc := cat(rep(0x6d, nItems/2), rep(0x75, nItems%2), pushBytes(keys[1].xonly))
			for i := 0; i < k; i++ {
				sc = append(sc, 0x6e, 0xad)
			}
			return append(sc, 0x6d, 0x51)
		}
		mkItems := func(sig []byte) [][]byte {
			items := [][]byte{sig}
			for i := 0; i < nItems; i++ {
				items = append(items, []byte{1})
			}
			return items
		}
		// largest k whose budget is still non-negative
		kmax := 0
		for k := 1; k < 60; k++ {
			b := buildSpend(core.NewRand(1), wTapscript, mkScript(k), sh, consensusAll, &tapInfo{internal: keys[0].priv.PubKey(), leafVer: 0xc0})
			sp := b.finish(mkItems(rep(1, 64)), nil)
			if 50+sp.tx.TxIn[0].Witness.SerializeSize()-50*k >= 0 {
				kmax = k
			}
		}
		for _, k := range []int{kmax, kmax + 1} {
			addTap("sigops-many-items", consensusAll, mkScript(k), nil, func(b *builtSpend) [][]byte {
				return mkItems(b.schnorrSig(sigPlan{key: keys[1]}, 0xffffffff, keys))
			})
		}
	}

	// 5. annex placement
	for _, fl := range flagSets {
		for _, annex := range [][]byte{{0x50}, {0x50, 0xaa}, append([]byte{0x50}, rep(0x11, 600)...)} {
			annex := annex
			// script path with annex
			sc := cat(pushBytes(keys[1].xonly), []byte{0xac})
			addTap("annex-scriptpath", fl, sc, &tapInfo{internal: keys[0].priv.PubKey(), leafVer: 0xc0, annex: annex},
				func(b *builtSpend) [][]byte { return [][]byte{b.schnorrSig(sigPlan{key: keys[1]}, 0xffffffff, keys)} })
			// signature made without committing to the annex
			addTap("annex-not-signed", fl, sc, &tapInfo{internal: keys[0].priv.PubKey(), leafVer: 0xc0, annex: annex},
				func(b *builtSpend) [][]byte {
					saved := b.tap.annex
					b.tap.annex = nil
					s := b.schnorrSig(sigPlan{key: keys[1]}, 0xffffffff, keys)
					b.tap.annex = saved
					return [][]byte{s}
				})
		}
		// a single witness element that starts with 0x50 is a key-path signature, not an annex; two elements
		// [x, 0x50..] are key path + annex; [script, control, 0x50..] is script path + annex
		q := txscript.ComputeTaprootOutputKey(keys[0].priv.PubKey(), nil)
		pk := cat([]byte{0x51, 0x20}, schnorr.SerializePubKey(q))
		for _, wit := range []wire.TxWitness{{{0x50}}, {append([]byte{0x50}, rep(1, 63)...)}, {rep(1, 64), {0x50}}, {{0x50}, {0x50}}, {{}, {0x50}}} {
			wit := wit
			out = append(out, caseSpec{class: "gen:tap:annex-keypath", sp: rawSpend(r, sh, fl, pk,
				func(*wire.MsgTx, int, *txscript.MultiPrevOutFetcher, []*wire.TxOut) ([]byte, wire.TxWitness) { return nil, wit })})
		}
	}

	// 6. witness programs of every version and length, native and nested, empty and non-empty witness
	for ver := -1; ver <= 17; ver++ {
		vb := byte(0)
		switch {
		case ver == -1:
			vb = 0x4f // OP_1NEGATE: not a witness version
		case ver == 17:
			vb = 0x61 // OP_NOP
		case ver > 0:
			vb = byte(0x50 + ver)
		}
		for plen := 1; plen <= 42; plen++ {
			for _, nested := range []bool{false, true} {
				for _, fl := range flagSets {
					if !keep() {
						continue
					}
					prog := rep(0x42, plen)
					if plen == 2 && (ver == 1 || n%2 == 0) {
						prog = []byte{0x4e, 0x73} // pay-to-anchor, and the same bytes under other versions
					}
					wp := cat([]byte{vb}, pushBytes(prog))
					pk := wp
					if nested {
						pk = cat([]byte{0xa9, 0x14}, hash160(wp), []byte{0x87})
					}
					witN := r.Intn(3)
					out = append(out, caseSpec{class: "gen:wit:every-version-length", sp: rawSpend(r, sh, fl, pk,
						func(*wire.MsgTx, int, *txscript.MultiPrevOutFetcher, []*wire.TxOut) ([]byte, wire.TxWitness) {
							var wit wire.TxWitness
							for j := 0; j < witN; j++ {
								wit = append(wit, []byte{0x01})
							}
							var ss []byte
							if nested {
								ss = pushBytes(wp)
							}
							return ss, wit
						})})
				}
			}
		}
	}
	return out
}
