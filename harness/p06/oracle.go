package p06

import (
	"encoding/hex"
	"fmt"
	"runtime"
	"strings"
	"sync"

	"github.com/btcsuite/btcd/btcec/v2"
	"github.com/btcsuite/btcd/btcec/v2/ecdsa"
	"github.com/btcsuite/btcd/btcec/v2/schnorr"
	"verifharness/core"
)

// answerQuery decides one curve-equation query of the Lean model with btcec primitives (never with the
// script engine):
//
//	e:<pubkey>:<r>:<s>:<digest>   ECDSA verification of a parsed, normalised signature  -> 1 | 0
//	s:<xonly>:<sig64>:<digest>    BIP340 verification                                    -> 1 | 0
//	t:<xonly p>:<tweak>           lift_x(p) + tweak*G                                    -> <parity byte><x> | x
func answerQuery(q string) string {
	f := strings.Split(q, ":")
	un := func(s string) []byte {
		b, err := hex.DecodeString(s)
		if err != nil {
			panic("oracle: bad hex in " + q)
		}
		return b
	}
	switch {
	case f[0] == "e" && len(f) == 5:
		pub, err := btcec.ParsePubKey(un(f[1]))
		if err != nil {
			return "0"
		}
		var r, s btcec.ModNScalar
		if r.SetByteSlice(un(f[2])) || s.SetByteSlice(un(f[3])) {
			return "0"
		}
		if ecdsa.NewSignature(&r, &s).Verify(un(f[4]), pub) {
			return "1"
		}
		return "0"
	case f[0] == "s" && len(f) == 4:
		pub, err := schnorr.ParsePubKey(un(f[1]))
		if err != nil {
			return "0"
		}
		sig, err := schnorr.ParseSignature(un(f[2]))
		if err != nil {
			return "0"
		}
		if sig.Verify(un(f[3]), pub) {
			return "1"
		}
		return "0"
	case f[0] == "t" && len(f) == 3:
		pub, err := schnorr.ParsePubKey(un(f[1]))
		if err != nil {
			return "x"
		}
		var t btcec.ModNScalar
		if t.SetByteSlice(un(f[2])) {
			return "x"
		}
		var pj, tj, qj btcec.JacobianPoint
		pub.AsJacobian(&pj)
		btcec.ScalarBaseMultNonConst(&t, &tj)
		btcec.AddNonConst(&pj, &tj, &qj)
		if qj.Z.IsZero() {
			return "x"
		}
		qj.ToAffine()
		par := "00"
		if qj.Y.IsOdd() {
			par = "01"
		}
		x := qj.X.Bytes()
		return par + hex.EncodeToString(x[:])
	}
	panic("oracle: unknown query " + q)
}

// resolveOracles completes the oracle table of every spend: the Lean driver's `collect` op reports the
// queries a spend makes that the table does not answer yet; they are answered here and the spend is run
// again until nothing is missing. Returns one oracle token per base.
func resolveOracles(bases []string, whole []bool) []string {
	tables := make([][]string, len(bases))
	seen := make([]map[string]bool, len(bases))
	pending := make([]int, len(bases))
	for i := range bases {
		pending[i] = i
		seen[i] = map[string]bool{}
	}
	tok := func(i int) string {
		if len(tables[i]) == 0 {
			return "-"
		}
		return strings.Join(tables[i], ",")
	}
	cache := map[string]string{}
	for round := 0; round < 64 && len(pending) > 0; round++ {
		lines := make([]string, len(pending))
		for k, i := range pending {
			op := "collect"
			if whole[i] {
				op = "collecttx"
			}
			lines[k] = "C06 " + op + " " + bases[i] + " " + tok(i)
		}
		outs, err := runLeanParallel(lines)
		if err != nil {
			panic(fmt.Sprintf("oracle resolution: %v", err))
		}
		var next []int
		for k, i := range pending {
			o := outs[k]
			if o == "-" {
				continue
			}
			if o == "bad-op" {
				continue // the final run reports it
			}
			added := false
			for _, q := range strings.Split(o, ",") {
				if q == "" || seen[i][q] {
					continue
				}
				seen[i][q] = true
				a, ok := cache[q]
				if !ok {
					a = answerQuery(q)
					cache[q] = a
				}
				tables[i] = append(tables[i], q+"="+a)
				added = true
			}
			if added {
				next = append(next, i)
			}
		}
		pending = next
	}
	out := make([]string, len(bases))
	for i := range bases {
		out[i] = tok(i)
	}
	return out
}

// runLeanParallel answers the lines with several driver processes (the answers are per line, so the
// split is invisible).
func runLeanParallel(lines []string) ([]string, error) {
	workers := runtime.NumCPU()
	if workers > 8 {
		workers = 8
	}
	if len(lines) < 64 || workers < 2 {
		return core.RunLean("C06", lines)
	}
	outs := make([]string, len(lines))
	errs := make([]error, workers)
	var wg sync.WaitGroup
	chunk := (len(lines) + workers - 1) / workers
	for w := 0; w < workers; w++ {
		lo, hi := w*chunk, (w+1)*chunk
		if lo >= len(lines) {
			break
		}
		if hi > len(lines) {
			hi = len(lines)
		}
		wg.Add(1)
		go func(w, lo, hi int) {
			defer wg.Done()
			o, err := core.RunLean("C06", lines[lo:hi])
			if err != nil {
				errs[w] = err
				return
			}
			copy(outs[lo:hi], o)
		}(w, lo, hi)
	}
	wg.Wait()
	for _, e := range errs {
		if e != nil {
			return nil, e
		}
	}
	return outs, nil
}
