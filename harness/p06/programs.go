package p06

import (
	"fmt"

	"github.com/btcsuite/btcd/btcec/v2/schnorr"
	"github.com/btcsuite/btcd/txscript/v2"
	"verifharness/core"
)

const consensusAll = txscript.ScriptBip16 | txscript.ScriptVerifyDERSignatures | txscript.ScriptVerifyCheckLockTimeVerify |
	txscript.ScriptVerifyCheckSequenceVerify | txscript.ScriptVerifyWitness | txscript.ScriptStrictMultiSig | txscript.ScriptVerifyTaproot

// pickFlags draws a flag set the node can actually use: any combination of the independently activated
// consensus rule groups of blockchain.checkConnectBlock (P2SH by time; BIP66, BIP65 by height; CSV,
// segwit(+NULLDUMMY), taproot by deployment; segwit only together with P2SH), or the relay policy set.
func pickFlags(r *core.Rand) txscript.ScriptFlags {
	switch r.Intn(10) {
	case 0, 1, 2, 3:
		return txscript.StandardVerifyFlags
	case 4, 5:
		return consensusAll
	}
	var fl txscript.ScriptFlags
	if r.Bool() {
		fl |= txscript.ScriptVerifyDERSignatures
	}
	if r.Bool() {
		fl |= txscript.ScriptVerifyCheckLockTimeVerify
	}
	if r.Bool() {
		fl |= txscript.ScriptVerifyCheckSequenceVerify
	}
	if r.Chance(3, 4) {
		fl |= txscript.ScriptBip16
		if r.Chance(2, 3) {
			fl |= txscript.ScriptVerifyWitness | txscript.ScriptStrictMultiSig
		}
	}
	if r.Bool() {
		fl |= txscript.ScriptVerifyTaproot
	}
	return fl
}

// ---- opcode soup

var edgeNums = []int64{0, 1, -1, 2, 16, 17, 127, 128, 129, 255, 256, 32767, 32768, 65535, 8388607, 8388608,
	2147483646, 2147483647, 2147483648, -2147483647, -2147483648, 4294967295, 4294967296, 499999999, 500000000,
	4194304, 4194305, 65536, 1 << 31, 1<<31 | 5, 1099511627775}

type soup struct {
	r     *core.Rand
	b     []byte
	depth int
	tap   bool
	keys  []keyT
}

func (s *soup) add(b ...byte) { s.b = append(s.b, b...) }

func (s *soup) pushNumber(n int64) {
	s.add(pushNum(n)...)
	s.depth++
}

func (s *soup) pushAny() {
	r := s.r
	switch r.Intn(12) {
	case 0, 1, 2:
		s.add(byte(r.Pick(0x00, 0x4f, 0x51, 0x52, 0x53, 0x55, 0x60)))
	case 3, 4, 5:
		s.add(pushNum(edgeNums[r.Intn(len(edgeNums))] * r.Pick(1, 1, -1))...)
	case 6:
		// non-minimal number / data encodings
		d := scriptNumBytes(r.Range(-70000, 70000))
		switch r.Intn(4) {
		case 0:
			d = append(d, 0x00)
		case 1:
			d = append(d, 0x80)
		case 2:
			s.add(pushWith(byte(r.Pick(0x4c, 0x4d, 0x4e)), d)...)
			s.depth++
			return
		}
		s.add(pushBytes(d)...)
	case 7:
		d := []byte{byte(r.Pick(0, 1, 5, 16, 17, 0x80, 0x81, 0xff))}
		if r.Bool() {
			s.add(pushBytes(d)...) // possibly non-minimal direct push
		} else {
			s.add(pushMin(d)...)
		}
	default:
		n := int(r.Pick(1, 2, 3, 4, 5, 8, 20, 32, 33, 64, 65, 75, 76, 80, 255, 256, 300, 519, 520))
		if r.Chance(1, 60) {
			n = 521
		}
		d := r.Bytes(n)
		if r.Chance(1, 12) {
			s.add(pushWith(byte(r.Pick(0x4c, 0x4d, 0x4e)), d)...)
		} else {
			s.add(pushBytes(d)...)
		}
	}
	s.depth++
}

// arities of the plain stack / arithmetic / hash opcodes: (consumed, produced)
var opArity = map[byte][2]int{
	0x61: {0, 0}, 0x69: {1, 0}, 0x6b: {1, 0}, 0x6d: {2, 0}, 0x6e: {2, 4}, 0x6f: {3, 6}, 0x70: {4, 6}, 0x71: {6, 6},
	0x72: {4, 4}, 0x73: {1, 2}, 0x74: {0, 1}, 0x75: {1, 0}, 0x76: {1, 2}, 0x77: {2, 1}, 0x78: {2, 3}, 0x7b: {3, 3},
	0x7c: {2, 2}, 0x7d: {2, 3}, 0x82: {1, 2}, 0x87: {2, 1}, 0x88: {2, 0}, 0xa6: {1, 1}, 0xa7: {1, 1}, 0xa8: {1, 1},
	0xa9: {1, 1}, 0xaa: {1, 1},
}
var stackOps = []byte{0x61, 0x6b, 0x6d, 0x6e, 0x6f, 0x70, 0x71, 0x72, 0x73, 0x74, 0x75, 0x76, 0x77, 0x78, 0x7b, 0x7c, 0x7d,
	0x82, 0x87, 0xa6, 0xa7, 0xa8, 0xa9, 0xaa}
var unaryArith = []byte{0x8b, 0x8c, 0x8f, 0x90, 0x91, 0x92}
var binaryArith = []byte{0x93, 0x94, 0x9a, 0x9b, 0x9c, 0x9e, 0x9f, 0xa0, 0xa1, 0xa2, 0xa3, 0xa4}
var deadOnly = []byte{0x50, 0x62, 0x89, 0x8a, 0xbb, 0xc0, 0xfe, 0xff, 0xfa, 0xba}
var alwaysBad = []byte{0x65, 0x66, 0x7e, 0x7f, 0x80, 0x81, 0x83, 0x84, 0x85, 0x86, 0x8d, 0x8e, 0x95, 0x96, 0x97, 0x98, 0x99}

func (s *soup) stmt(level int) {
	r := s.r
	switch c := r.Intn(100); {
	case c < 22:
		s.pushAny()
	case c < 40:
		op := stackOps[r.Intn(len(stackOps))]
		ar := opArity[op]
		for s.depth < ar[0] && r.Chance(9, 10) {
			s.pushAny()
		}
		s.add(op)
		s.depth += ar[1] - ar[0]
	case c < 46:
		s.pushNumber(edgeNums[r.Intn(len(edgeNums))] * r.Pick(1, -1))
		s.add(unaryArith[r.Intn(len(unaryArith))])
	case c < 56:
		s.pushNumber(edgeNums[r.Intn(len(edgeNums))] * r.Pick(1, -1))
		s.pushNumber(edgeNums[r.Intn(len(edgeNums))] * r.Pick(1, -1))
		s.add(binaryArith[r.Intn(len(binaryArith))])
		s.depth--
	case c < 58:
		for i := 0; i < 3; i++ {
			s.pushNumber(r.Range(-5, 5) + r.Pick(0, 0, 2147483647, -2147483647))
		}
		s.add(0xa5) // WITHIN
		s.depth -= 2
	case c < 61:
		// PICK / ROLL
		s.pushNumber(r.Range(-1, int64(s.depth)+1))
		s.add(byte(r.Pick(0x79, 0x7a)))
	case c < 63:
		s.add(0x6b) // TOALTSTACK ... FROMALTSTACK
		if r.Chance(4, 5) {
			s.stmt(level + 1)
			s.add(0x6c)
		} else {
			s.depth--
		}
	case c < 75 && level < 4:
		// conditional
		switch r.Intn(8) {
		case 0, 1, 2:
			s.add(byte(r.Pick(0x00, 0x51, 0x51, 0x52, 0x4f)))
		case 3:
			s.add(pushBytes([]byte{byte(r.Pick(0, 1, 2, 0x80))})...)
		case 4:
			s.add(pushBytes([]byte{byte(r.Pick(0, 1)), byte(r.Pick(0, 0x80))})...)
		default:
			if s.depth == 0 || r.Chance(1, 3) {
				s.add(byte(r.Pick(0x00, 0x51)))
			} else {
				s.depth--
			}
		}
		s.add(byte(r.Pick(0x63, 0x63, 0x64)))
		d0 := s.depth
		n := r.Intn(4)
		for i := 0; i < n; i++ {
			s.stmtMaybeDead(level + 1)
		}
		if r.Chance(2, 3) {
			s.add(0x67)
			s.depth = d0
			n := r.Intn(4)
			for i := 0; i < n; i++ {
				s.stmtMaybeDead(level + 1)
			}
			if r.Chance(1, 25) {
				s.add(0x67) // second ELSE (allowed)
			}
		}
		if !r.Chance(1, 40) {
			s.add(0x68)
		}
		if r.Chance(1, 60) {
			s.add(byte(r.Pick(0x67, 0x68))) // stray ELSE / ENDIF
		}
	case c < 79:
		// NOPs, CLTV, CSV
		op := byte(r.Pick(0xb0, 0xb1, 0xb1, 0xb2, 0xb2, 0xb3, 0xb9))
		if op == 0xb1 || op == 0xb2 {
			switch r.Intn(7) {
			case 6:
				// non-minimal operand, 2..6 bytes (MINIMALDATA applies to the 5-byte numbers too)
				d := append(scriptNumBytes(r.Pick(1, 100, 1<<22|3, 1<<31, 1<<32-1)), byte(r.Pick(0x00, 0x00, 0x80)))
				s.add(pushBytes(d)...)
			case 0:
				s.add(pushBytes(scriptNumBytes(r.Pick(1<<31, 1<<32-1, 1<<39-1, 1<<22|3)))...)
			case 1:
				s.pushNumber(-1)
				s.depth--
			case 2:
				// nothing pushed
				s.depth++
			default:
				s.add(pushNum(r.Pick(0, 1, 5, 100, 65535, 4194304, 4194309, 499999999, 500000000, 1600000000))...)
			}
			s.add(op)
			if r.Chance(5, 6) {
				s.add(0x75)
			} else {
				s.depth++
			}
			s.depth--
		} else {
			s.add(op)
		}
	case c < 82:
		s.pushAny()
		s.add(byte(r.Pick(0x69, 0x69, 0x88, 0x9d)))
		s.depth--
	case c < 84:
		s.add(0xab) // CODESEPARATOR
	case c < 88:
		// signature opcodes on junk / key material without valid signatures
		k := s.keys[r.Intn(len(s.keys))]
		switch r.Intn(5) {
		case 0:
			s.add(0x00)
			s.add(pushBytes(k.comp)...)
			s.add(0xac)
		case 1:
			s.add(0x00)
			if s.tap {
				s.add(pushBytes(k.xonly)...)
			} else {
				s.add(pushBytes(k.uncomp)...)
			}
			s.add(0xac, 0x91)
		case 2:
			s.add(0x00, 0x00)
			s.add(pushBytes(k.comp)...)
			s.add(0x51, 0xae)
		case 3:
			s.add(0x00, 0x00, 0x00, 0xae)
		default:
			s.add(0x00, 0x00)
			s.add(pushBytes(k.xonly)...)
			s.add(0xba)
		}
		s.depth++
	case c < 90:
		s.add(byte(r.Pick(0x6a, 0x50, 0x62, 0x89, 0xbb, 0xff, 0xba)))
	default:
		s.pushAny()
	}
	if s.depth < 0 {
		s.depth = 0
	}
}

// stmtMaybeDead sometimes emits things that only matter in unexecuted branches.
func (s *soup) stmtMaybeDead(level int) {
	r := s.r
	switch r.Intn(14) {
	case 0:
		s.add(deadOnly[r.Intn(len(deadOnly))])
	case 1:
		if r.Chance(1, 3) {
			s.add(alwaysBad[r.Intn(len(alwaysBad))])
		} else {
			s.stmt(level)
		}
	case 2:
		n := int(r.Pick(520, 521))
		s.add(pushBytes(r.Bytes(n))...)
		s.add(0x75)
	default:
		s.stmt(level)
	}
}

// soupScript generates a self-contained program; the result usually leaves exactly one true element.
func soupScript(r *core.Rand, keys []keyT, tap bool, maxStmts int) []byte {
	s := &soup{r: r, tap: tap, keys: keys}
	n := 1 + r.Intn(maxStmts)
	for i := 0; i < n; i++ {
		s.stmt(0)
	}
	if r.Chance(4, 5) {
		for s.depth >= 2 && r.Chance(19, 20) {
			s.add(0x6d)
			s.depth -= 2
		}
		if s.depth == 1 {
			s.add(0x75)
		}
		s.add(byte(r.Pick(0x51, 0x51, 0x51, 0x52, 0x00, 0x4f)))
		if r.Chance(1, 30) {
			s.add(0x51)
		}
	}
	if r.Chance(1, 50) {
		// truncated push at the end
		s.add(byte(r.Pick(0x05, 0x4b, 0x4c, 0x4d, 0x4e)))
		s.add(r.Bytes(r.Intn(3))...)
	}
	return s.b
}

func tapFor(r *core.Rand, keys []keyT) *tapInfo {
	t := &tapInfo{internal: keys[0].priv.PubKey(), leafVer: 0xc0}
	if r.Chance(1, 25) {
		t.leafVer = byte(r.Pick(0xc2, 0x50, 0xfe, 0x66))
	}
	n := int(r.Pick(0, 0, 1, 1, 2, 5))
	for i := 0; i < n; i++ {
		t.path = append(t.path, r.Bytes(32))
	}
	if r.Chance(1, 8) {
		t.annex = append([]byte{0x50}, r.Bytes(r.Intn(20))...)
	}
	return t
}

func genSoup(g *core.Gen, r *core.Rand, keys []keyT, n int) []caseSpec {
	var out []caseSpec
	for i := 0; i < n; i++ {
		wrapper := r.Intn(nWrappers)
		script := soupScript(r, keys, wrapper == wTapscript, 14)
		var tap *tapInfo
		if wrapper == wTapscript {
			tap = tapFor(r, keys)
		}
		b := buildSpend(r, wrapper, script, randShape(r), pickFlags(r), tap)
		var items [][]byte
		for k := r.Intn(3); k > 0; k-- {
			items = append(items, r.Bytes(int(r.Pick(0, 1, 1, 2, 4, 32, 520))))
		}
		if len(items) > 0 && r.Chance(1, 40) {
			items[0] = r.Bytes(521)
		}
		var raw []byte
		if (wrapper == wBare || wrapper == wP2SH) && r.Chance(1, 12) {
			raw = soupScript(r, keys, false, 4) // non-push scriptSig
		}
		sp := b.finish(items, raw)
		out = append(out, caseSpec{class: "gen:soup:" + wrapperName[wrapper], sp: sp})
	}
	return out
}

// ---- limits: one below / at / one above every bound, in every wrapper

func genLimits(g *core.Gen, r *core.Rand, keys []keyT) []caseSpec {
	var out []caseSpec
	add := func(class string, wrapper int, script []byte, items [][]byte, flags txscript.ScriptFlags) {
		var tap *tapInfo
		if wrapper == wTapscript {
			tap = &tapInfo{internal: keys[0].priv.PubKey(), leafVer: 0xc0}
		}
		sh := randShape(r)
		b := buildSpend(r, wrapper, script, sh, flags, tap)
		out = append(out, caseSpec{class: "gen:limit:" + class + ":" + wrapperName[wrapper], sp: b.finish(items, nil)})
	}
	flagSets := []txscript.ScriptFlags{txscript.StandardVerifyFlags, consensusAll, txscript.ScriptBip16, 0}
	// per-script state: the op count and the altstack do not carry over from scriptSig to scriptPubKey
	// (bare spends with a non-push scriptSig; only without P2SH-form / SIGPUSHONLY)
	for _, fl := range flagSets {
		for _, n := range []int{100, 101, 102} {
			b := buildSpend(r, wBare, cat(rep(0x61, n+100), []byte{0x51}), randShape(r), fl, nil)
			out = append(out, caseSpec{class: "gen:limit:opcount-two-scripts:bare", sp: b.finish(nil, rep(0x61, n+99))})
			// the data stack does carry over: 500 pushes in the scriptSig + 499 / 500 / 501 in the scriptPubKey
			b = buildSpend(r, wBare, rep(0x51, 399+n), randShape(r), fl, nil)
			out = append(out, caseSpec{class: "gen:limit:stack-two-scripts:bare", sp: b.finish(nil, rep(0x51, 500))})
		}
		b := buildSpend(r, wBare, []byte{0x6c}, randShape(r), fl, nil) // FROMALTSTACK
		out = append(out, caseSpec{class: "gen:limit:altstack-two-scripts:bare", sp: b.finish(nil, []byte{0x51, 0x6b})})
		b = buildSpend(r, wBare, []byte{0x51, 0x6b, 0x51}, randShape(r), fl, nil) // leaves an item on the altstack
		out = append(out, caseSpec{class: "gen:limit:altstack-left:bare", sp: b.finish(nil, nil)})
		b = buildSpend(r, wBare, []byte{0x68, 0x51}, randShape(r), fl, nil) // IF in scriptSig, ENDIF in scriptPubKey
		out = append(out, caseSpec{class: "gen:limit:cond-two-scripts:bare", sp: b.finish(nil, []byte{0x51, 0x63})})
	}
	// every opcode above OP_16 counts towards the 201 limit even in an unexecuted branch (outside
	// tapscript), and no push opcode does: 0 IF <op> ENDIF NOP*k 1 at exactly 201 / 202 counted ops
	for op := 0; op < 256; op++ {
		if (op >= 0x63 && op <= 0x68) || (op >= 0x4c && op <= 0x4e) {
			continue
		}
		opb := []byte{byte(op)}
		counted := 3
		if op >= 1 && op <= 0x4b {
			opb = append(opb, rep(0x11, op)...)
		}
		if op <= 0x60 {
			counted = 2
		}
		for _, total := range []int{201, 202} {
			for _, w := range []int{wBare, wP2WSH, wTapscript} {
				if w != wBare && op%3 != total%3 {
					continue // thin out the non-bare wrappers
				}
				add("opcount-each-opcode", w, cat([]byte{0x00, 0x63}, opb, []byte{0x68}, rep(0x61, total-counted), []byte{0x51}), nil, consensusAll)
			}
		}
	}
	// CLTV / CSV operands: minimal and non-minimal encodings of 1..6 bytes against a transaction that
	// satisfies the lock (so that only the operand rules decide)
	for _, lockOp := range []byte{0xb1, 0xb2} {
		operands := [][]byte{{0x01}, {0x01, 0x00}, {0x00, 0x00, 0x00, 0x80, 0x00}, {0x00, 0x00, 0x00, 0x80, 0x00, 0x00},
			{0x0a, 0x00, 0x00, 0x80, 0x00}, {0x04}, {0x07}, {0x08}, {0x00, 0x65, 0xcd, 0x1d}, {0x01, 0x65, 0xcd, 0x1d}, {0xff, 0x64, 0xcd, 0x1d}, {0x07, 0x00, 0x40, 0x00}, {0x08, 0x00, 0x40, 0x00},
			{0xff, 0xff, 0x00}, {0x00, 0x00, 0x01}, {0x07, 0x00, 0x01}, {0x07, 0x00, 0x80, 0x00},
			{0x05, 0x00, 0x00, 0x80, 0x00}, {0x81}, {0x01, 0x00, 0x00, 0x00, 0x00}, {0xff, 0xff, 0xff, 0xff, 0x7f}, {}}
		for _, opnd := range operands {
			for _, fl := range []txscript.ScriptFlags{txscript.StandardVerifyFlags, consensusAll, txscript.ScriptBip16} {
				for _, w := range []int{wBare, wP2WSH, wTapscript} {
					sh := txShape{version: 2, lockTime: 1<<31 + 5, sequence: 7, nIn: 1, idx: 0, nOut: 1, amount: 5000}
					if len(opnd) < 4 {
						sh.lockTime = 3
					}
					var tap *tapInfo
					if w == wTapscript {
						tap = &tapInfo{internal: keys[0].priv.PubKey(), leafVer: 0xc0}
					}
					b := buildSpend(r, w, cat(pushBytes(opnd), []byte{lockOp, 0x75, 0x51}), sh, fl, tap)
					out = append(out, caseSpec{class: "gen:limit:locktime-operand:" + wrapperName[w], sp: b.finish(nil, nil)})
				}
			}
		}
	}
	// stack + altstack limit reached with uncounted pushes and nothing cleaned up (bare / P2SH, flag sets
	// without CLEANSTACK): 1000 elements succeed, 1001 fail
	for _, n := range []int{999, 1000, 1001} {
		for _, fl := range []txscript.ScriptFlags{consensusAll, txscript.ScriptBip16, 0} {
			for _, w := range []int{wBare, wP2SH} {
				if w == wP2SH {
					continue // a 1000-byte redeem script cannot be pushed
				}
				add("stack-leave", w, rep(0x51, n), nil, fl)
				add("stack-leave-alt", w, cat(rep(0x51, 900), rep(0x6b, 100), rep(0x51, n-900)), nil, fl)
				add("stack-leave-alt-only", w, cat(rep(0x51, 150), rep(0x6b, 150), rep(0x51, n-150)), nil, fl)
			}
		}
	}
	// CLTV / CSV look at the sequence of the input being verified, not of any other input
	for _, lockOp := range []byte{0xb1, 0xb2} {
		for _, mine := range []uint32{0xffffffff, 0xfffffffe, 5, 1 << 31} {
			for _, other := range []uint32{0xffffffff, 5, 1 << 31} {
				for _, idx := range []int{0, 1} {
					sh := txShape{version: 2, lockTime: 10, sequence: mine, nIn: 2, idx: idx, nOut: 1, amount: 900}
					b := buildSpend(r, wBare, cat([]byte{0x54, lockOp, 0x75, 0x51}), sh, consensusAll, nil)
					b.sp.tx.TxIn[1-idx].Sequence = other
					out = append(out, caseSpec{class: "gen:limit:locktime-other-input:bare", sp: b.finish(nil, nil)})
				}
			}
		}
	}
	// CLTV / CSV operands are 5-byte script numbers (up to 2^39-1) compared with 32-bit transaction fields:
	// operands whose low 32 bits alone would satisfy the lock (2^32+k against nLockTime >= k), with every
	// type / threshold / disable-bit pattern in the low and in the high part, against satisfied / unsatisfied
	// locks of both types and final / non-final sequences
	{
		const k = 100
		cltvOps := []int64{1<<32 - 1, 1 << 32, 1<<32 + k, 1<<32 + k + 1, 1<<32 + 500000000 + k, 1<<33 + k, 1<<32 + 1<<31 + k,
			1<<39 - 1, 1<<39 - 1<<32 + k, 0x55<<32 + k, 1<<32 + 499999999, 1<<31 + k, k, 500000000 + k, -1, -(1<<32 + k), -k}
		cltvLocks := []uint32{k, k - 1, 500000000 + k, 500000000 + k - 1, 0xffffffff, 1<<31 + k, 0}
		csvOps := []int64{1<<32 + k, 1<<32 + 1<<22 + k, 1<<32 + 1<<31 + k, 1<<39 - 1, 1<<33 + 5, 1<<32 + 0xffff, 0x55<<32 + 1<<22 + 5,
			1<<31 + k, 1<<22 + k, k, -(1<<32 + k)}
		csvSeqs := []uint32{k, 1<<22 | k, 0xffffffff, 1<<31 | k, 0xffff, 1<<22 | 0xffff, k - 1}
		emitWide := func(lockOp byte, n int64, sh txShape) {
			for _, fl := range []txscript.ScriptFlags{txscript.StandardVerifyFlags, consensusAll} {
				for _, w := range []int{wBare, wP2WSH, wTapscript} {
					if fl != consensusAll && w != wBare {
						continue
					}
					var tap *tapInfo
					if w == wTapscript {
						tap = &tapInfo{internal: keys[0].priv.PubKey(), leafVer: 0xc0}
					}
					b := buildSpend(r, w, cat(pushBytes(scriptNumBytes(n)), []byte{lockOp, 0x75, 0x51}), sh, fl, tap)
					out = append(out, caseSpec{class: "gen:limit:locktime-wide-operand:" + wrapperName[w], sp: b.finish(nil, nil)})
				}
			}
		}
		for _, n := range cltvOps {
			for _, lt := range cltvLocks {
				for _, seq := range []uint32{0xfffffffe, 0xffffffff} {
					if seq == 0xffffffff && lt != k && lt != 500000000+k {
						continue
					}
					emitWide(0xb1, n, txShape{version: 2, lockTime: lt, sequence: seq, nIn: 1, idx: 0, nOut: 1, amount: 5000})
				}
			}
		}
		for _, n := range csvOps {
			for _, seq := range csvSeqs {
				for _, ver := range []int32{2, 1} {
					if ver == 1 && seq != k {
						continue
					}
					emitWide(0xb2, n, txShape{version: ver, lockTime: 0, sequence: seq, nIn: 1, idx: 0, nOut: 1, amount: 5000})
				}
			}
		}
	}
	// CHECKMULTISIG key count 19 / 20 / 21 (PUBKEY_COUNT) and signature count nKeys / nKeys+1 (SIG_COUNT)
	for _, nk := range []int{0, 1, 19, 20, 21} {
		for _, ns := range []int{0, nk, nk + 1} {
			if ns > 0 && nk > 1 {
				continue
			}
			for _, w := range []int{wBare, wP2WSH} {
				for _, fl := range []txscript.ScriptFlags{txscript.StandardVerifyFlags, consensusAll} {
					var ks []byte
					for i := 0; i < nk; i++ {
						ks = append(ks, pushBytes(keys[i%3].comp)...)
					}
					sc := cat(pushNum(int64(ns)), ks, pushNum(int64(nk)), []byte{0xae})
					if ns > 0 {
						sc = append(sc, 0x91) // the signatures are empty: the check fails cleanly, NOT makes it true
					}
					items := [][]byte{{}}
					for i := 0; i < ns; i++ {
						items = append(items, []byte{})
					}
					add("multisig-counts", w, sc, items, fl)
				}
			}
		}
	}
	// initial (witness) stack of 999 / 1000 / 1001 elements: P2WSH has no limit before the first
	// opcode, tapscript checks the initial stack
	for _, n := range []int{999, 1000, 1001, 1002} {
		items := make([][]byte, n)
		for i := range items {
			items[i] = []byte{1}
		}
		for _, w := range []int{wP2WSH, wP2SHP2WSH, wTapscript} {
			for _, fl := range []txscript.ScriptFlags{txscript.StandardVerifyFlags, consensusAll} {
				add("stack-initial", w, cat(rep(0x6d, (n-1)/2), rep(0x75, (n-1)%2)), items, fl)
				add("stack-initial-nop-first", w, cat([]byte{0x61}, rep(0x6d, (n-1)/2), rep(0x75, (n-1)%2)), items, fl)
			}
		}
	}
	for _, fl := range flagSets {
		for w := 0; w < nWrappers; w++ {
			// operation count 200 / 201 / 202 (NOPs), and with CHECKMULTISIG key counts
			for _, n := range []int{200, 201, 202} {
				add("opcount", w, cat(rep(0x61, n), []byte{0x51}), nil, fl)
				// 0 0 <k keys> k CHECKMULTISIG counts 1 + k
				for _, k := range []int{1, 3, 20} {
					pad := n - 1 - k
					if pad < 0 {
						continue
					}
					var ks []byte
					for i := 0; i < k; i++ {
						ks = append(ks, pushBytes(keys[i%len(keys)].comp)...)
					}
					add("opcount-multisig", w, cat(rep(0x61, pad), []byte{0, 0}, ks, pushNum(int64(k)), []byte{0xae}), nil, fl)
				}
				// ops in an unexecuted branch count as well
				add("opcount-dead", w, cat([]byte{0x00, 0x63}, rep(0x61, n-2), []byte{0x68, 0x51}), nil, fl)
			}
			// combined stack + altstack 999 / 1000 / 1001
			for _, n := range []int{999, 1000, 1001} {
				add("stack", w, cat(rep(0x51, n), rep(0x6d, (n-1)/2), rep(0x75, (n-1)%2)), nil, fl)
				add("stack-alt", w, cat(rep(0x51, n-500), rep(0x6b, 400), rep(0x51, 500), rep(0x6d, (n-401)/2), rep(0x75, (n-401)%2)), nil, fl)
				// via 3DUP growth
				add("stack-dup", w, cat([]byte{0x51, 0x51, 0x51}, rep(0x6f, (n-3)/3), rep(0x51, (n-3)%3), rep(0x6d, (n-1)/2), rep(0x75, (n-1)%2)), nil, fl)
			}
			// element size 519 / 520 / 521: pushed, in a dead branch, as initial stack item, produced by no opcode
			for _, n := range []int{519, 520, 521} {
				add("elem-push", w, cat(pushBytes(rep(0x01, n)), []byte{0x75, 0x51}), nil, fl)
				add("elem-dead", w, cat([]byte{0x00, 0x63}, pushBytes(rep(0x01, n)), []byte{0x68, 0x51}), nil, fl)
				add("elem-initial", w, []byte{0x75, 0x51}, [][]byte{rep(0x02, n)}, fl)
				add("elem-pushdata4", w, cat(pushWith(0x4e, rep(0x01, n)), []byte{0x75, 0x51}), nil, fl)
			}
			// script size 9999 / 10000 / 10001 with few counted ops: 19 x (PUSHDATA2 520 bytes, DROP), one
			// shorter push, DROP, OP_1 (P2SH redeem scripts cannot exceed a 520 byte push)
			for _, n := range []int{9999, 10000, 10001} {
				var sc []byte
				for i := 0; i < 19; i++ {
					sc = append(sc, pushWith(0x4d, rep(0x07, 520))...)
					sc = append(sc, 0x75)
				}
				left := n - 1 - len(sc)
				sc = append(sc, pushBytes(rep(0x09, left-2))...)
				sc = append(sc, 0x75, 0x51)
				if len(sc) != n {
					panic("scriptsize builder")
				}
				add("scriptsize", w, sc, nil, fl)
			}
			for _, n := range []int{519, 520, 521} {
				add("redeemsize", w, cat(pushBytes(rep(0x07, n-5)), []byte{0x75, 0x51}), nil, fl)
			}
		}
	}
	return out
}

// ---- signature programs

type sigPlan struct {
	key      keyT
	ht       byte
	variant  int  // ecdsaVariant kind; tapscript: 0 valid, 7 flipped, 8 empty, 11 wrong length
	wrongKey bool // signed with another key
	wrongMsg bool // signs a different digest
}

func (b *builtSpend) ecdsaSig(p sigPlan, subscript []byte, keys []keyT) []byte {
	k := p.key
	if p.wrongKey {
		k = keys[len(keys)-1]
	}
	d := b.digest(subscript, p.ht, 0xffffffff)
	if p.wrongMsg {
		d = b.digest(append([]byte{0x61}, subscript...), p.ht, 0xffffffff)
	}
	r, s := signRS(k.priv, d)
	return ecdsaVariant(p.variant, r, s, p.ht)
}

func (b *builtSpend) schnorrSig(p sigPlan, codeSepPos uint32, keys []keyT) []byte {
	k := p.key
	if p.wrongKey {
		k = keys[len(keys)-1]
	}
	if p.variant == 8 {
		return nil
	}
	d := b.digest(nil, p.ht, codeSepPos)
	if p.wrongMsg {
		d[0] ^= 1
	}
	sig, err := schnorr.Sign(k.priv, d)
	if err != nil {
		panic(err)
	}
	out := sig.Serialize()
	if p.variant == 7 {
		out[40] ^= 4
	}
	if p.ht != 0 {
		out = append(out, p.ht)
	}
	if p.variant == 11 {
		out = append(out, 0x01, 0x01)
	}
	if p.variant == 12 {
		out = out[:63]
	}
	if p.variant == 13 {
		out = append(out[:64], 0x00) // explicit SIGHASH_DEFAULT byte
	}
	return out
}

func pickPlan(r *core.Rand, k keyT, tap bool) sigPlan {
	p := sigPlan{key: k}
	if tap {
		p.ht = byte(r.Pick(0, 0, 0, 1, 2, 3, 0x81, 0x82, 0x83))
		if r.Chance(1, 3) {
			p.variant = int(r.Pick(7, 8, 8, 11, 12, 13))
		}
	} else {
		p.ht = byte(r.Pick(1, 1, 1, 2, 3, 0x81, 0x82, 0x83, 0, 4, 0x50, 0x84, 0xff, 0x21, 0x41, 0x62, 0xc3, 0x61))
		if r.Chance(2, 5) {
			p.variant = int(r.Pick(1, 2, 3, 4, 5, 6, 7, 8, 8, 9, 10, 11, 12, 13))
		}
	}
	if r.Chance(1, 12) {
		p.wrongKey = true
	}
	if r.Chance(1, 12) {
		p.wrongMsg = true
	}
	return p
}

func pubVariant(r *core.Rand, k keyT, tap bool) []byte {
	if tap {
		switch r.Intn(12) {
		case 0:
			return nil
		case 1:
			return k.comp // unknown pubkey type (33 bytes)
		case 2:
			return append([]byte{}, k.xonly[:31]...)
		case 3:
			x := append([]byte{}, k.xonly...)
			x[5] ^= 0x40 // probably not on the curve / other key
			return x
		}
		return k.xonly
	}
	switch r.Intn(16) {
	case 14:
		return offCurveKey(k.comp)
	case 15:
		x := append([]byte{}, k.uncomp...)
		x[64] ^= 1 // uncompressed, y does not match x
		return x
	case 0:
		return k.uncomp
	case 1:
		return k.hybrid
	case 2:
		x := append([]byte{}, k.comp...)
		x[0] = 0x05
		return x
	case 3:
		return k.comp[:32]
	case 4:
		return nil
	case 5:
		x := append([]byte{}, k.uncomp...)
		x[0] ^= 0x02 // hybrid prefix with the wrong parity, or 0x05
		return x
	}
	return k.comp
}

func genSigs(g *core.Gen, r *core.Rand, keys []keyT, n int) []caseSpec {
	var out []caseSpec
	for i := 0; i < n; i++ {
		wrapper := r.Intn(nWrappers)
		tap := wrapper == wTapscript
		var tinfo *tapInfo
		if tap {
			tinfo = tapFor(r, keys)
			if r.Chance(9, 10) {
				tinfo.leafVer = 0xc0
			}
		}
		flags := pickFlags(r)
		sh := randShape(r)
		if r.Chance(2, 3) {
			sh.version, sh.lockTime, sh.sequence = 2, 0, 0xfffffffe
		}
		tmpl := r.Intn(9)
		class := ""
		var script []byte
		var mk func(b *builtSpend) [][]byte
		k0, k1, k2 := keys[r.Intn(3)], keys[r.Intn(3)], keys[r.Intn(3)]
		switch {
		case tmpl == 0: // P2PK, optionally negated
			class = "p2pk"
			pk := pubVariant(r, k0, tap)
			neg := r.Chance(1, 4)
			script = cat(pushBytes(pk), []byte{0xac})
			if neg {
				script = append(script, 0x91)
			}
			p := pickPlan(r, k0, tap)
			if neg && r.Chance(2, 3) {
				p.variant = 8
			}
			mk = func(b *builtSpend) [][]byte {
				if tap {
					return [][]byte{b.schnorrSig(p, 0xffffffff, keys)}
				}
				return [][]byte{b.ecdsaSig(p, script, keys)}
			}
		case tmpl == 1: // P2PKH
			class = "p2pkh"
			pk := pubVariant(r, k0, tap)
			script = cat([]byte{0x76, 0xa9}, pushBytes(hash160(pk)), []byte{0x88, 0xac})
			p := pickPlan(r, k0, tap)
			mk = func(b *builtSpend) [][]byte {
				if tap {
					return [][]byte{b.schnorrSig(p, 0xffffffff, keys), pk}
				}
				return [][]byte{b.ecdsaSig(p, script, keys), pk}
			}
		case tmpl == 2 || tmpl == 3: // m-of-n CHECKMULTISIG (tapscript: must fail) optionally NOT
			class = "multisig"
			nk := 1 + r.Intn(4)
			if r.Chance(1, 15) {
				nk = 20
			}
			m := 1 + r.Intn(nk)
			if r.Chance(1, 10) {
				m = 0
			}
			ks := make([]keyT, nk)
			var pkb []byte
			for j := range ks {
				ks[j] = keys[r.Intn(len(keys)-1)]
				pkb = append(pkb, pushBytes(pubVariant(r, ks[j], false))...)
			}
			script = cat(pushNum(int64(m)), pkb, pushNum(int64(nk)), []byte{byte(r.Pick(0xae, 0xae, 0xaf))})
			if script[len(script)-1] == 0xaf {
				script = append(script, 0x51)
			}
			neg := r.Chance(1, 5)
			if neg && script[len(script)-1] == 0xae {
				script = append(script, 0x91)
			}
			// choose which keys sign, in order (or deliberately out of order)
			var signers []int
			for j := 0; j < nk && len(signers) < m; j++ {
				if nk-j <= m-len(signers) || r.Bool() {
					signers = append(signers, j)
				}
			}
			if len(signers) > 1 && r.Chance(1, 8) {
				signers[0], signers[1] = signers[1], signers[0]
			}
			plans := make([]sigPlan, len(signers))
			for j, sidx := range signers {
				plans[j] = pickPlan(r, ks[sidx], false)
				if r.Chance(3, 4) {
					plans[j].variant, plans[j].wrongKey, plans[j].wrongMsg = 0, false, false
				}
				if neg && r.Chance(1, 2) {
					plans[j].variant = 8
				}
			}
			dummy := []byte{}
			if r.Chance(1, 8) {
				dummy = []byte{byte(r.Pick(0, 1, 0x80))}
			}
			mk = func(b *builtSpend) [][]byte {
				items := [][]byte{dummy}
				for _, p := range plans {
					items = append(items, b.ecdsaSig(p, script, keys))
				}
				return items
			}
		case tmpl == 4: // code separators
			class = "codesep"
			pk0, pk1 := pubVariant(r, k0, tap), pubVariant(r, k1, tap)
			if !tap {
				pk0, pk1 = k0.comp, k1.comp
			} else {
				pk0, pk1 = k0.xonly, k1.xonly
			}
			pre := rep(0x61, r.Intn(3))
			tail := cat(pushBytes(pk1), []byte{0xac})
			mid := cat(pushBytes(pk0), []byte{0xad, 0xab})
			script = cat(pre, []byte{0xab}, mid, tail)
			p0, p1 := pickPlan(r, k0, tap), pickPlan(r, k1, tap)
			if r.Chance(2, 3) {
				p0.variant, p0.wrongKey, p0.wrongMsg = 0, false, false
				p1.variant, p1.wrongKey, p1.wrongMsg = 0, false, false
			}
			wrongPos := r.Chance(1, 6)
			mk = func(b *builtSpend) [][]byte {
				if tap {
					pos0 := uint32(len(pre))
					pos1 := uint32(len(pre)) + 3
					if wrongPos {
						pos1 = 0xffffffff
					}
					return [][]byte{b.schnorrSig(p1, pos1, keys), b.schnorrSig(p0, pos0, keys)}
				}
				sub0 := cat(mid, tail)
				sub1 := tail
				if wrongPos {
					sub1 = script
				}
				return [][]byte{b.ecdsaSig(p1, sub1, keys), b.ecdsaSig(p0, sub0, keys)}
			}
		case tmpl == 5: // IF <k0> CHECKSIG ELSE <n> CLTV|CSV DROP <k1> CHECKSIG ENDIF
			class = "branch-locktime"
			pkA, pkB := k0.comp, k1.comp
			if tap {
				pkA, pkB = k0.xonly, k1.xonly
			}
			lockOp := byte(r.Pick(0xb1, 0xb2))
			lock := r.Pick(0, 1, 10, 100, 65535, 4194304, 4194314, 499999999, 500000000, 1500000000)
			script = cat([]byte{0x63}, pushBytes(pkA), []byte{0xac, 0x67}, pushNum(lock), []byte{lockOp, 0x75}, pushBytes(pkB), []byte{0xac, 0x68})
			sel := r.Bool()
			selB := []byte{}
			if sel {
				selB = []byte{1}
				if r.Chance(1, 6) {
					selB = []byte{byte(r.Pick(2, 0x81))} // MINIMALIF
				}
			} else if r.Chance(1, 8) {
				selB = []byte{0}
			}
			p := pickPlan(r, k0, tap)
			if !sel {
				p = pickPlan(r, k1, tap)
			}
			if r.Chance(3, 4) {
				p.variant, p.wrongKey, p.wrongMsg = 0, false, false
			}
			if r.Chance(1, 2) {
				sh.lockTime = uint32(r.Pick(0, 10, 100, 65535, 499999999, 500000000, 1500000000, 1600000000))
				sh.sequence = uint32(r.Pick(0, 10, 100, 65535, 4194304, 4194314, 4194414, 0xfffffffe, 0xffffffff, 1<<31|10))
				sh.version = int32(r.Pick(1, 2, 2, 3))
			}
			mk = func(b *builtSpend) [][]byte {
				if tap {
					return [][]byte{b.schnorrSig(p, 0xffffffff, keys), selB}
				}
				return [][]byte{b.ecdsaSig(p, script, keys), selB}
			}
		case tmpl == 6: // CHECKSIGADD k-of-3 (tapscript); elsewhere it is an invalid opcode
			class = "checksigadd"
			ks := []keyT{k0, k1, k2}
			script = cat(pushBytes(pubVariant(r, k0, true)), []byte{0xac}, pushBytes(pubVariant(r, k1, true)), []byte{0xba},
				pushBytes(pubVariant(r, k2, true)), []byte{0xba}, pushNum(r.Pick(1, 2, 2, 3)), []byte{byte(r.Pick(0x9c, 0x9c, 0xa2))})
			plans := make([]sigPlan, 3)
			for j := range plans {
				plans[j] = pickPlan(r, ks[j], true)
				if r.Chance(1, 2) {
					plans[j].variant = 8
				} else if r.Chance(3, 4) {
					plans[j].variant, plans[j].wrongKey, plans[j].wrongMsg = 0, false, false
				}
			}
			mk = func(b *builtSpend) [][]byte {
				if !tap {
					return [][]byte{{}, {}, {}}
				}
				return [][]byte{b.schnorrSig(plans[2], 0xffffffff, keys), b.schnorrSig(plans[1], 0xffffffff, keys), b.schnorrSig(plans[0], 0xffffffff, keys)}
			}
		case tmpl == 7: // sigops budget: <pk> (2DUP CHECKSIGVERIFY)*k 2DROP 1 — each check costs 50 weight units,
			// the witness (one signature, optional padding, script, control block) is all the budget there is
			class = "sigops-budget"
			kcount := int(r.Pick(1, 2, 3, 3, 4, 4, 5, 6, 8, 12))
			pk := k0.xonly
			if !tap {
				pk = k0.comp
			}
			script = pushBytes(pk)
			for j := 0; j < kcount; j++ {
				script = append(script, 0x6e, 0xad)
			}
			script = append(script, 0x6d, 0x51)
			p := sigPlan{key: k0, ht: byte(r.Pick(0, 1))}
			if !tap {
				p.ht = 1
			}
			padLen := int(r.Pick(0, 0, 0, 1, 10, 40, 45, 49, 50, 51, 100, 150, 200))
			if padLen > 0 {
				script = cat([]byte{0x7c, 0x75}, script) // SWAP DROP: drops the padding below the signature
			}
			mk = func(b *builtSpend) [][]byte {
				var sig []byte
				if tap {
					sig = b.schnorrSig(p, 0xffffffff, keys)
				} else {
					sig = b.ecdsaSig(p, script, keys)
				}
				if padLen > 0 {
					return [][]byte{rep(0, padLen), sig}
				}
				return [][]byte{sig}
			}
		default: // FindAndDelete: the signature itself (or OP_0 for an empty one) occurs in the script
			class = "findanddelete"
			pk := k0.comp
			if tap {
				pk = k0.xonly
			}
			p := pickPlan(r, k0, tap)
			if r.Chance(1, 2) {
				p.variant = 8
			}
			embed := r.Intn(3)
			mk = func(b *builtSpend) [][]byte {
				if tap {
					return [][]byte{b.schnorrSig(p, 0xffffffff, keys)}
				}
				return [][]byte{b.ecdsaSig(p, script, keys)}
			}
			switch embed {
			case 0:
				script = cat([]byte{0x00, 0x75}, pushBytes(pk), []byte{0xac})
			case 1:
				script = cat(pushBytes(pk), []byte{0xac, 0x91, 0x00, 0x91, 0x9a}) // CHECKSIG NOT 0 NOT BOOLAND
			default:
				script = cat(pushBytes(rep(0x30, 9)), []byte{0x75}, pushBytes(pk), []byte{0xac})
			}
			if r.Chance(1, 2) {
				script = append(script, 0x91)
			}
		}
		b := buildSpend(r, wrapper, script, sh, flags, tinfo)
		items := mk(b)
		out = append(out, caseSpec{class: fmt.Sprintf("gen:sig:%s:%s", class, wrapperName[wrapper]), sp: b.finish(items, nil)})
	}
	return out
}
