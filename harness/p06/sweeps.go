package p06

import (
	"encoding/hex"

	"github.com/btcsuite/btcd/btcec/v2"
	"github.com/btcsuite/btcd/btcec/v2/schnorr"
	"github.com/btcsuite/btcd/txscript/v2"
	"github.com/btcsuite/btcd/wire/v2"
	"verifharness/core"
)

// shortRSig signs with the nonce k = 1/2, whose R = G/2 has an x coordinate with 11 leading zero bytes: the
// DER integer for r is 21 bytes long (a "stripped" encoding that ordinary signing never produces).
func shortRSig(priv *btcec.PrivateKey, digest []byte) (r, s []byte) {
	rb, _ := hex.DecodeString("00000000000000000000003b78ce563f89a0ed9414f5aa28ad0d96d6795f9c63")
	var rs, z, sc btcec.ModNScalar
	rs.SetByteSlice(rb)
	z.SetByteSlice(digest)
	sc.Mul2(&rs, &priv.Key).Add(&z) // r*d + z
	var two btcec.ModNScalar
	two.SetInt(2)
	sc.Mul(&two) // k^-1 = 2
	if sc.IsOverHalfOrder() {
		sc.Negate()
	}
	sb := sc.Bytes()
	return rb, sb[:]
}

// zeroXKey grinds a key whose compressed encoding starts 02/03 00 (leading zero byte in x).
func zeroXKey(r *core.Rand) keyT {
	for {
		k := makeKeys(r, 1)[0]
		if k.comp[1] == 0 {
			return k
		}
	}
}

// genSweeps: every value of every one-byte discriminator, the violating element at the first / a middle / the
// last position, and representation corner cases built directly. thin > 1 keeps one case in thin (quick tier).
func genSweeps(g *core.Gen, r *core.Rand, keys []keyT, thin int) []caseSpec {
	var out []caseSpec
	n := 0
	rot := int(g.Seed % uint64(thin))
	keep := func() bool {
		n++
		return thin <= 1 || (n+rot)%thin == 0
	}
	// thinning never drops a byte value next to a meaningful one (±1 or one bit flipped): a comparison or a
	// mask that is off by one bit shows only there
	near := func(b int, specials ...int) bool {
		for _, s := range specials {
			d := b ^ s
			if b == s || b == s+1 || b == s-1 || d&(d-1) == 0 {
				return true
			}
		}
		return false
	}
	hashTypes := []int{0, 1, 2, 3, 0x81, 0x82, 0x83}
	sh := txShape{version: 2, lockTime: 0, sequence: 0xfffffffe, nIn: 1, idx: 0, nOut: 2, amount: 50000}
	flagSets := []txscript.ScriptFlags{txscript.StandardVerifyFlags, consensusAll}
	add := func(class string, w int, fl txscript.ScriptFlags, script []byte, mk func(b *builtSpend) [][]byte) {
		var tap *tapInfo
		if w == wTapscript {
			tap = &tapInfo{internal: keys[0].priv.PubKey(), leafVer: 0xc0}
		}
		b := buildSpend(r, w, script, sh, fl, tap)
		out = append(out, caseSpec{class: "gen:sweep:" + class, sp: b.finish(mk(b), nil)})
	}
	k := keys[1]

	// (a) all 256 ECDSA hash type bytes, correctly signed for that byte
	p2pk := cat(pushBytes(k.comp), []byte{0xac})
	for ht := 0; ht < 256; ht++ {
		for _, w := range []int{wBare, wP2WSH} {
			for _, fl := range flagSets {
				if !keep() && !near(ht, hashTypes...) {
					continue
				}
				ht := byte(ht)
				add("ecdsa-hashtype", w, fl, p2pk, func(b *builtSpend) [][]byte {
					return [][]byte{b.ecdsaSig(sigPlan{key: k, ht: ht}, p2pk, keys)}
				})
			}
		}
	}
	// (b) all 256 values of the 65th byte of a schnorr signature (tapscript and key path)
	tsc := cat(pushBytes(k.xonly), []byte{0xac})
	for ht := 0; ht < 256; ht++ {
		for _, fl := range flagSets {
			if !keep() && !near(ht, hashTypes...) {
				continue
			}
			ht := byte(ht)
			add("schnorr-hashtype", wTapscript, fl, tsc, func(b *builtSpend) [][]byte {
				sig := b.schnorrSig(sigPlan{key: k, ht: ht}, 0xffffffff, keys)
				if ht == 0 {
					sig = append(sig[:64], 0) // explicit zero byte
				}
				return [][]byte{sig}
			})
			q := txscript.ComputeTaprootOutputKey(k.priv.PubKey(), nil)
			tw := txscript.TweakTaprootPrivKey(*k.priv, nil)
			out = append(out, caseSpec{class: "gen:sweep:keypath-hashtype", sp: rawSpend(r, sh, fl, cat([]byte{0x51, 0x20}, schnorr.SerializePubKey(q)),
				func(tx *wire.MsgTx, idx int, f *txscript.MultiPrevOutFetcher, _ []*wire.TxOut) ([]byte, wire.TxWitness) {
					d, err := txscript.VerifTaprootKeySpendSigHashC06(txscript.NewTxSigHashes(tx, f), txscript.SigHashType(ht), tx, idx, f, nil)
					if err != nil {
						d = make([]byte, 32)
					}
					sg, _ := schnorr.Sign(tw, d)
					return nil, wire.TxWitness{append(sg.Serialize(), ht)}
				})})
		}
	}
	// (c) all 256 first bytes of a 33-byte and of a 65-byte public key
	for b0 := 0; b0 < 256; b0++ {
		for _, long := range []bool{false, true} {
			for _, w := range []int{wBare, wP2WSH} {
				for _, fl := range flagSets {
					if !keep() && !near(b0, 2, 3, 4, 6, 7) {
						continue
					}
					pk := append([]byte{}, k.comp...)
					if long {
						pk = append([]byte{}, k.uncomp...)
					}
					pk[0] = byte(b0)
					sc := cat(pushBytes(pk), []byte{0xac})
					add("pubkey-first-byte", w, fl, sc, func(b *builtSpend) [][]byte {
						return [][]byte{b.ecdsaSig(sigPlan{key: k, ht: 1}, sc, keys)}
					})
				}
			}
		}
	}
	// (d) first byte of the last witness element of a two-element taproot witness (only 0x50 is an annex; any
	//     other byte makes it a 3-byte control block, which fails)
	for b0 := 0; b0 < 256; b0++ {
		if !keep() && !near(b0, 0x50) {
			continue
		}
		b0 := byte(b0)
		q := txscript.ComputeTaprootOutputKey(k.priv.PubKey(), nil)
		tw := txscript.TweakTaprootPrivKey(*k.priv, nil)
		out = append(out, caseSpec{class: "gen:sweep:annex-tag", sp: rawSpend(r, sh, consensusAll, cat([]byte{0x51, 0x20}, schnorr.SerializePubKey(q)),
			func(tx *wire.MsgTx, idx int, f *txscript.MultiPrevOutFetcher, _ []*wire.TxOut) ([]byte, wire.TxWitness) {
				// signed as if the element were an annex whatever its first byte: an implementation that
				// takes a neighbour of 0x50 for the tag accepts exactly this spend
				last := []byte{b0, 0x01, 0x02}
				annex := last
				tx.TxIn[idx].Witness = wire.TxWitness{make([]byte, 64), last}
				d, _ := txscript.VerifTaprootKeySpendSigHashC06(txscript.NewTxSigHashes(tx, f), 0, tx, idx, f, annex)
				sg, _ := schnorr.Sign(tw, d)
				return nil, wire.TxWitness{sg.Serialize(), last}
			})})
	}
	// (e) all 256 values of the version byte in front of a 32- and a 20-byte push
	for v := 0; v < 256; v++ {
		for _, plen := range []int{32, 20} {
			for _, fl := range flagSets {
				if !keep() && !near(v, 0x00, 0x4f, 0x51, 0x60) {
					continue
				}
				pk := cat([]byte{byte(v), byte(plen)}, rep(0x33, plen))
				out = append(out, caseSpec{class: "gen:sweep:version-byte", sp: rawSpend(r, sh, fl, pk,
					func(*wire.MsgTx, int, *txscript.MultiPrevOutFetcher, []*wire.TxOut) ([]byte, wire.TxWitness) {
						return nil, nil
					})})
			}
		}
	}
	// (f) the violating element first / middle / last: 3-of-5 CHECKMULTISIG with one wrong signature, and with
	//     one badly encoded key
	ks5 := []keyT{keys[0], keys[1], keys[2], keys[3], keys[0]}
	for _, pos := range []int{-1, 0, 1, 2} {
		for _, badKey := range []int{-1, 0, 2, 4} {
			for _, w := range []int{wBare, wP2WSH} {
				for _, fl := range flagSets {
					var pkb []byte
					for j, kk := range ks5 {
						e := append([]byte{}, kk.comp...)
						if j == badKey {
							e[0] = 0x05
						}
						pkb = append(pkb, pushBytes(e)...)
					}
					sc := cat([]byte{0x53}, pkb, []byte{0x55, 0xae})
					pos := pos
					add("multisig-position", w, fl, sc, func(b *builtSpend) [][]byte {
						items := [][]byte{{}}
						for j, kk := range []keyT{ks5[1], ks5[2], ks5[3]} {
							items = append(items, b.ecdsaSig(sigPlan{key: kk, ht: byte([]int{1, 0x82, 3}[j]), wrongMsg: j == pos}, sc, keys))
						}
						return items
					})
				}
			}
		}
	}
	// (g) representation corner cases
	zk := zeroXKey(r)
	for _, w := range []int{wBare, wP2SH, wP2WSH} {
		for _, fl := range flagSets {
			// 21-byte r (nonce 1/2), also in its high-S form
			for _, hi := range []bool{false, true} {
				hi := hi
				add("short-r", w, fl, p2pk, func(b *builtSpend) [][]byte {
					rr, ss := shortRSig(k.priv, b.digest(p2pk, 1, 0))
					if hi {
						ss = negS(ss)
					}
					return [][]byte{append(derSig(rr, ss), 1)}
				})
			}
			// public key whose x coordinate starts with a zero byte
			zsc := cat(pushBytes(zk.comp), []byte{0xac})
			add("zero-x-key", w, fl, zsc, func(b *builtSpend) [][]byte {
				return [][]byte{b.ecdsaSig(sigPlan{key: zk, ht: 1}, zsc, keys)}
			})
		}
	}
	for _, fl := range flagSets {
		zt := cat(pushBytes(zk.xonly), []byte{0xac})
		add("zero-x-key-tapscript", wTapscript, fl, zt, func(b *builtSpend) [][]byte {
			return [][]byte{b.schnorrSig(sigPlan{key: zk}, 0xffffffff, keys)}
		})
		// conditionals nested 100 / 101 deep (200 / 202 counted ops), 1500 deep in tapscript
		for _, depth := range []int{100, 101} {
			add("nested-if", wBare, fl, cat(rep2([]byte{0x51, 0x63}, depth), rep(0x68, depth), []byte{0x51}), func(*builtSpend) [][]byte { return nil })
			add("nested-if", wP2WSH, fl, cat(rep2([]byte{0x51, 0x63}, depth), rep(0x68, depth), []byte{0x51}), func(*builtSpend) [][]byte { return nil })
		}
		add("nested-if", wTapscript, fl, cat(rep2([]byte{0x51, 0x63}, 1500), rep(0x68, 1500), []byte{0x51}), func(*builtSpend) [][]byte { return nil })
	}
	return out
}

func rep2(b []byte, n int) []byte {
	var out []byte
	for i := 0; i < n; i++ {
		out = append(out, b...)
	}
	return out
}
