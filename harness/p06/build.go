package p06

import (
	"bytes"
	"crypto/sha256"
	"encoding/binary"

	"github.com/btcsuite/btcd/btcec/v2"
	"github.com/btcsuite/btcd/btcec/v2/ecdsa"
	"github.com/btcsuite/btcd/btcec/v2/schnorr"
	"github.com/btcsuite/btcd/chainhash/v2"
	"github.com/btcsuite/btcd/txscript/v2"
	"github.com/btcsuite/btcd/wire/v2"
	"golang.org/x/crypto/ripemd160"
	"verifharness/core"
)

// ---- keys

type keyT struct {
	priv                        *btcec.PrivateKey
	comp, uncomp, hybrid, xonly []byte
}

func makeKeys(r *core.Rand, n int) []keyT {
	ks := make([]keyT, n)
	for i := range ks {
		b := r.Bytes(32)
		b[0] &= 0x7f
		b[31] |= 1
		priv, pub := btcec.PrivKeyFromBytes(b)
		k := keyT{priv: priv, comp: pub.SerializeCompressed(), uncomp: pub.SerializeUncompressed()}
		k.hybrid = append([]byte{}, k.uncomp...)
		k.hybrid[0] = 0x06 | (k.comp[0] & 1)
		k.xonly = schnorr.SerializePubKey(pub)
		ks[i] = k
	}
	return ks
}

func hash160(b []byte) []byte {
	h := sha256.Sum256(b)
	r := ripemd160.New()
	r.Write(h[:])
	return r.Sum(nil)
}

// ---- script assembly

// pushMin is the minimal push of a byte string (OP_0, OP_1..16, OP_1NEGATE, direct, PUSHDATA1/2).
func pushMin(d []byte) []byte {
	switch {
	case len(d) == 0:
		return []byte{0}
	case len(d) == 1 && d[0] >= 1 && d[0] <= 16:
		return []byte{0x50 + d[0]}
	case len(d) == 1 && d[0] == 0x81:
		return []byte{0x4f}
	}
	return pushBytes(d)
}

// pushWith pushes d with an explicit push opcode (0x4c/0x4d/0x4e), minimal or not.
func pushWith(op byte, d []byte) []byte {
	n := len(d)
	switch op {
	case 0x4c:
		return append([]byte{0x4c, byte(n)}, d...)
	case 0x4d:
		return append([]byte{0x4d, byte(n), byte(n >> 8)}, d...)
	default:
		return append([]byte{0x4e, byte(n), byte(n >> 8), byte(n >> 16), byte(n >> 24)}, d...)
	}
}

func cat(parts ...[]byte) []byte {
	var out []byte
	for _, p := range parts {
		out = append(out, p...)
	}
	return out
}

func rep(b byte, n int) []byte { return bytes.Repeat([]byte{b}, n) }

// ---- signatures

func derInt(b []byte) []byte {
	for len(b) > 1 && b[0] == 0 {
		b = b[1:]
	}
	if len(b) == 0 {
		b = []byte{0}
	}
	if b[0]&0x80 != 0 {
		b = append([]byte{0}, b...)
	}
	return b
}

func derSig(r, s []byte) []byte {
	rb, sb := derInt(r), derInt(s)
	out := []byte{0x30, byte(4 + len(rb) + len(sb)), 0x02, byte(len(rb))}
	out = append(out, rb...)
	out = append(out, 0x02, byte(len(sb)))
	return append(out, sb...)
}

func signRS(priv *btcec.PrivateKey, digest []byte) (r, s []byte) {
	sig := ecdsa.Sign(priv, digest)
	rr, ss := sig.R(), sig.S()
	rb, sb := rr.Bytes(), ss.Bytes()
	return rb[:], sb[:]
}

func negS(s []byte) []byte {
	var sc btcec.ModNScalar
	sc.SetByteSlice(s)
	sc.Negate()
	b := sc.Bytes()
	return b[:]
}

// ecdsaVariant encodes (r,s) in one of several ways; kind 0 = canonical low-S DER.
//
//	1 high-S   2 padded R (extra 00)  3 long-form length  4 bad sequence length  5 trailing garbage
//	6 negative R encoding (no 00 pad although top bit set; only when applicable)  7 flipped bit  8 empty
//	9 hashtype byte only  10 truncated  11 r = 0  12 s = 0  13 s = group order
func ecdsaVariant(kind int, r, s []byte, ht byte) []byte {
	switch kind {
	case 1:
		return append(derSig(r, negS(s)), ht)
	case 2:
		rb, sb := append([]byte{0}, derInt(r)...), derInt(s)
		out := []byte{0x30, byte(4 + len(rb) + len(sb)), 0x02, byte(len(rb))}
		out = append(append(out, rb...), 0x02, byte(len(sb)))
		return append(append(out, sb...), ht)
	case 3:
		rb, sb := derInt(r), derInt(s)
		out := []byte{0x30, 0x81, byte(5 + len(rb) + len(sb)), 0x02, 0x81, byte(len(rb))}
		out = append(append(out, rb...), 0x02, byte(len(sb)))
		return append(append(out, sb...), ht)
	case 4:
		d := derSig(r, s)
		d[1] += 3
		return append(d, ht)
	case 5:
		return append(append(derSig(r, s), 0xde, 0xad), ht)
	case 6:
		rb, sb := bytes.TrimLeft(r, "\x00"), derInt(s)
		if len(rb) == 0 {
			rb = []byte{0}
		}
		out := []byte{0x30, byte(4 + len(rb) + len(sb)), 0x02, byte(len(rb))}
		out = append(append(out, rb...), 0x02, byte(len(sb)))
		return append(append(out, sb...), ht)
	case 7:
		d := derSig(r, s)
		d[len(d)-3] ^= 0x10
		return append(d, ht)
	case 8:
		return nil
	case 9:
		return []byte{ht}
	case 10:
		d := derSig(r, s)
		return append(d[:len(d)-2], ht)
	case 11:
		return append(derSig([]byte{0}, s), ht) // r = 0
	case 12:
		return append(derSig(r, []byte{0}), ht) // s = 0
	case 13:
		return append(derSig(r, btcec.S256().N.Bytes()), ht) // s = group order
	}
	return append(derSig(r, s), ht)
}

// ---- spend construction

const (
	wBare = iota
	wP2SH
	wP2WSH
	wP2SHP2WSH
	wTapscript
	nWrappers
)

var wrapperName = []string{"bare", "p2sh", "p2wsh", "p2sh-p2wsh", "tapscript"}

type txShape struct {
	version  int32
	lockTime uint32
	sequence uint32
	nIn      int
	idx      int
	nOut     int
	amount   int64
}

func randShape(r *core.Rand) txShape {
	sh := txShape{
		version:  int32(r.Pick(1, 2, 2, 2, 3, -1, 0)),
		lockTime: uint32(r.Pick(0, 0, 1, 100, 499999999, 500000000, 500000001, 1600000000, 0xffffffff)),
		sequence: uint32(r.Pick(0xffffffff, 0xffffffff, 0xfffffffe, 0, 1, 100, 0xffff, 1<<22, 1<<22|5, 1<<31, 1<<31|7, 0x10000)),
		nIn:      1 + r.Intn(3),
		nOut:     r.Intn(4),
		amount:   r.Pick(0, 1, 546, 100000, 2100000000000000),
	}
	sh.idx = r.Intn(sh.nIn)
	return sh
}

// taptree describes where the leaf sits: sibling hashes from the leaf up.
type tapInfo struct {
	internal *btcec.PublicKey
	leafVer  byte
	path     [][]byte
	annex    []byte
}

type builtSpend struct {
	sp       *spend
	wrapper  int
	script   []byte
	tap      *tapInfo
	leafHash chainhash.Hash
	fetcher  *txscript.MultiPrevOutFetcher
	hashes   *txscript.TxSigHashes
}

func tapBranch(a, b []byte) []byte {
	if bytes.Compare(a, b) > 0 {
		a, b = b, a
	}
	h := chainhash.TaggedHash(chainhash.TagTapBranch, a, b)
	return h[:]
}

// buildSpend creates the transaction and the spent output for `script` under `wrapper`; the unlocking
// data is filled in later by finish (signatures need the transaction).
func buildSpend(r *core.Rand, wrapper int, script []byte, sh txShape, flags txscript.ScriptFlags, tap *tapInfo) *builtSpend {
	tx := wire.NewMsgTx(sh.version)
	tx.LockTime = sh.lockTime
	var spent []*wire.TxOut
	for i := 0; i < sh.nIn; i++ {
		var h chainhash.Hash
		copy(h[:], r.Bytes(32))
		in := wire.NewTxIn(wire.NewOutPoint(&h, uint32(r.Intn(4))), nil, nil)
		in.Sequence = uint32(r.Pick(0xffffffff, 0xfffffffe, 0, 5))
		tx.AddTxIn(in)
		spent = append(spent, &wire.TxOut{Value: int64(r.Intn(1000000)), PkScript: cat([]byte{0x76, 0xa9, 0x14}, r.Bytes(20), []byte{0x88, 0xac})})
	}
	tx.TxIn[sh.idx].Sequence = sh.sequence
	for i := 0; i < sh.nOut; i++ {
		tx.AddTxOut(wire.NewTxOut(int64(r.Intn(100000)), cat([]byte{0, 0x14}, r.Bytes(20))))
	}
	b := &builtSpend{wrapper: wrapper, script: script, tap: tap}
	var pk []byte
	switch wrapper {
	case wBare:
		pk = script
	case wP2SH:
		pk = cat([]byte{0xa9, 0x14}, hash160(script), []byte{0x87})
	case wP2WSH:
		h := sha256.Sum256(script)
		pk = cat([]byte{0, 0x20}, h[:])
	case wP2SHP2WSH:
		h := sha256.Sum256(script)
		pk = cat([]byte{0xa9, 0x14}, hash160(cat([]byte{0, 0x20}, h[:])), []byte{0x87})
	case wTapscript:
		leaf := txscript.NewTapLeaf(txscript.TapscriptLeafVersion(tap.leafVer), script)
		b.leafHash = leaf.TapHash()
		root := b.leafHash[:]
		for _, sib := range tap.path {
			root = tapBranch(root, sib)
		}
		q := txscript.ComputeTaprootOutputKey(tap.internal, root)
		pk = cat([]byte{0x51, 0x20}, schnorr.SerializePubKey(q))
	}
	spent[sh.idx] = &wire.TxOut{Value: sh.amount, PkScript: pk}
	m := map[wire.OutPoint]*wire.TxOut{}
	for i, in := range tx.TxIn {
		m[in.PreviousOutPoint] = spent[i]
	}
	b.fetcher = txscript.NewMultiPrevOutFetcher(m)
	b.sp = &spend{flags: flags, tx: tx, idx: sh.idx, spent: spent}
	return b
}

func (b *builtSpend) sigHashes() *txscript.TxSigHashes {
	if b.fetcher == nil {
		m := map[wire.OutPoint]*wire.TxOut{}
		for i, in := range b.sp.tx.TxIn {
			m[in.PreviousOutPoint] = b.sp.spent[i]
		}
		b.fetcher = txscript.NewMultiPrevOutFetcher(m)
	}
	if b.hashes == nil {
		b.hashes = txscript.NewTxSigHashes(b.sp.tx, b.fetcher)
	}
	return b.hashes
}

// buildInto places `script` under `wrapper` as the output spent by input idx of an existing transaction
// (multi-input transactions whose inputs differ in every respect); sign only after all inputs are placed.
func buildInto(tx *wire.MsgTx, spent []*wire.TxOut, idx int, wrapper int, script []byte, amount int64,
	flags txscript.ScriptFlags, tap *tapInfo) *builtSpend {

	b := &builtSpend{wrapper: wrapper, script: script, tap: tap}
	b.sp = &spend{flags: flags, tx: tx, idx: idx, spent: spent}
	spent[idx] = &wire.TxOut{Value: amount, PkScript: b.lockingScript()}
	return b
}

// lockingScript computes the scriptPubKey for the wrapper (and the tapleaf hash).
func (b *builtSpend) lockingScript() []byte {
	script := b.script
	switch b.wrapper {
	case wBare:
		return script
	case wP2SH:
		return cat([]byte{0xa9, 0x14}, hash160(script), []byte{0x87})
	case wP2WSH:
		h := sha256.Sum256(script)
		return cat([]byte{0, 0x20}, h[:])
	case wP2SHP2WSH:
		h := sha256.Sum256(script)
		return cat([]byte{0xa9, 0x14}, hash160(cat([]byte{0, 0x20}, h[:])), []byte{0x87})
	default:
		leaf := txscript.NewTapLeaf(txscript.TapscriptLeafVersion(b.tap.leafVer), script)
		b.leafHash = leaf.TapHash()
		root := b.leafHash[:]
		for _, sib := range b.tap.path {
			root = tapBranch(root, sib)
		}
		q := txscript.ComputeTaprootOutputKey(b.tap.internal, root)
		return cat([]byte{0x51, 0x20}, schnorr.SerializePubKey(q))
	}
}

// digest computes the message a signature in this spend has to sign, with btcd's sighash functions.
// subscript: script code (legacy / segwit v0); codeSepPos: tapscript only.
func (b *builtSpend) digest(subscript []byte, ht byte, codeSepPos uint32) []byte {
	switch b.wrapper {
	case wBare, wP2SH:
		return txscript.VerifLegacySigHashC06(subscript, txscript.SigHashType(ht), b.sp.tx, b.sp.idx)
	case wP2WSH, wP2SHP2WSH:
		h, err := txscript.VerifWitnessSigHashC06(subscript, txscript.SigHashType(ht), b.sp.tx, b.sp.idx, b.sp.spent[b.sp.idx].Value)
		if err != nil {
			return make([]byte, 32)
		}
		return h
	default:
		opts := []txscript.TaprootSigHashOption{txscript.WithBaseTapscriptVersion(codeSepPos, b.leafHash[:])}
		if b.tap.annex != nil {
			opts = append(opts, txscript.WithAnnex(b.tap.annex))
		}
		leaf := txscript.NewTapLeaf(txscript.TapscriptLeafVersion(b.tap.leafVer), b.script)
		hs := b.sigHashes()
		h, err := txscript.CalcTapscriptSignaturehash(hs, txscript.SigHashType(ht), b.sp.tx, b.sp.idx, b.fetcher, leaf, opts...)
		if err != nil {
			return make([]byte, 32)
		}
		return h
	}
}

// finish installs the unlocking data: `items` are the initial stack, bottom first.
func (b *builtSpend) finish(items [][]byte, rawScriptSig []byte) *spend {
	in := b.sp.tx.TxIn[b.sp.idx]
	pushAll := func(extra ...[]byte) []byte {
		var out []byte
		for _, it := range append(append([][]byte{}, items...), extra...) {
			out = append(out, pushMin(it)...)
		}
		return out
	}
	switch b.wrapper {
	case wBare:
		in.SignatureScript = pushAll()
		if rawScriptSig != nil {
			in.SignatureScript = rawScriptSig
		}
	case wP2SH:
		in.SignatureScript = cat(pushAll(), pushBytes(b.script))
		if rawScriptSig != nil {
			in.SignatureScript = cat(rawScriptSig, pushBytes(b.script))
		}
	case wP2WSH:
		in.Witness = append(append(wire.TxWitness{}, items...), b.script)
	case wP2SHP2WSH:
		h := sha256.Sum256(b.script)
		in.SignatureScript = pushBytes(cat([]byte{0, 0x20}, h[:]))
		in.Witness = append(append(wire.TxWitness{}, items...), b.script)
	case wTapscript:
		q := b.sp.spent[b.sp.idx].PkScript[2:]
		// parity of the output key: recompute from internal key and root
		root := b.leafHash[:]
		for _, sib := range b.tap.path {
			root = tapBranch(root, sib)
		}
		qk := txscript.ComputeTaprootOutputKey(b.tap.internal, root)
		_ = q
		ctrl := []byte{b.tap.leafVer | (qk.SerializeCompressed()[0] & 1)}
		ctrl = append(ctrl, schnorr.SerializePubKey(b.tap.internal)...)
		for _, sib := range b.tap.path {
			ctrl = append(ctrl, sib...)
		}
		w := append(append(wire.TxWitness{}, items...), b.script, ctrl)
		if b.tap.annex != nil {
			w = append(w, b.tap.annex)
		}
		in.Witness = w
	}
	return b.sp
}

var _ = binary.LittleEndian
