package p06

import (
	"crypto/sha256"

	"github.com/btcsuite/btcd/btcec/v2/schnorr"
	"github.com/btcsuite/btcd/chainhash/v2"
	"github.com/btcsuite/btcd/txscript/v2"
	"github.com/btcsuite/btcd/wire/v2"
	"verifharness/core"
)

// rawSpend builds a spend of an arbitrary scriptPubKey; unlock fills scriptSig / witness once the
// transaction exists (signatures).
func rawSpend(r *core.Rand, sh txShape, flags txscript.ScriptFlags, pk []byte,
	unlock func(tx *wire.MsgTx, idx int, fetcher *txscript.MultiPrevOutFetcher, spent []*wire.TxOut) ([]byte, wire.TxWitness)) *spend {

	tx := wire.NewMsgTx(sh.version)
	tx.LockTime = sh.lockTime
	var spent []*wire.TxOut
	for i := 0; i < sh.nIn; i++ {
		var h chainhash.Hash
		copy(h[:], r.Bytes(32))
		in := wire.NewTxIn(wire.NewOutPoint(&h, uint32(r.Intn(4))), nil, nil)
		in.Sequence = uint32(r.Pick(0xffffffff, 0xfffffffe, 0, 5))
		tx.AddTxIn(in)
		spent = append(spent, &wire.TxOut{Value: int64(r.Intn(1000000)), PkScript: cat([]byte{0, 0x14}, r.Bytes(20))})
	}
	tx.TxIn[sh.idx].Sequence = sh.sequence
	for i := 0; i < sh.nOut; i++ {
		tx.AddTxOut(wire.NewTxOut(int64(r.Intn(100000)), cat([]byte{0x51, 0x20}, r.Bytes(32))))
	}
	spent[sh.idx] = &wire.TxOut{Value: sh.amount, PkScript: pk}
	m := map[wire.OutPoint]*wire.TxOut{}
	for i, in := range tx.TxIn {
		m[in.PreviousOutPoint] = spent[i]
	}
	fetcher := txscript.NewMultiPrevOutFetcher(m)
	ss, wit := unlock(tx, sh.idx, fetcher, spent)
	tx.TxIn[sh.idx].SignatureScript = ss
	tx.TxIn[sh.idx].Witness = wit
	return &spend{flags: flags, tx: tx, idx: sh.idx, spent: spent}
}

func genWitnessMisc(g *core.Gen, r *core.Rand, keys []keyT, n int) []caseSpec {
	var out []caseSpec
	for i := 0; i < n; i++ {
		flags := pickFlags(r)
		sh := randShape(r)
		k := keys[r.Intn(3)]
		class := ""
		var sp *spend
		switch t := r.Intn(10); {
		case t <= 2: // P2WPKH, native or nested
			class = "p2wpkh"
			nested := r.Chance(1, 3)
			if nested {
				class = "p2sh-p2wpkh"
			}
			pub := k.comp
			if r.Chance(1, 6) {
				pub = k.uncomp
			}
			prog := cat([]byte{0, 0x14}, hash160(pub))
			if r.Chance(1, 15) {
				prog[5] ^= 1
			}
			pk := prog
			if nested {
				pk = cat([]byte{0xa9, 0x14}, hash160(prog), []byte{0x87})
			}
			p := pickPlan(r, k, false)
			if r.Chance(2, 3) {
				p.variant, p.wrongKey, p.wrongMsg = 0, false, false
			}
			wn := int(r.Pick(2, 2, 2, 2, 2, 1, 3, 0))
			mal := r.Intn(12)
			sp = rawSpend(r, sh, flags, pk, func(tx *wire.MsgTx, idx int, _ *txscript.MultiPrevOutFetcher, spent []*wire.TxOut) ([]byte, wire.TxWitness) {
				code := cat([]byte{0x76, 0xa9, 0x14}, prog[2:], []byte{0x88, 0xac})
				d, _ := txscript.VerifWitnessSigHashC06(code, txscript.SigHashType(p.ht), tx, idx, spent[idx].Value)
				kk := p.key
				if p.wrongKey {
					kk = keys[len(keys)-1]
				}
				if p.wrongMsg {
					d[3] ^= 8
				}
				rr, ss := signRS(kk.priv, d)
				sig := ecdsaVariant(p.variant, rr, ss, p.ht)
				wit := wire.TxWitness{sig, pub}
				switch wn {
				case 0:
					wit = nil
				case 1:
					wit = wit[:1]
				case 3:
					wit = append(wire.TxWitness{{}}, wit...)
				}
				var scriptSig []byte
				if nested {
					scriptSig = pushBytes(prog)
				}
				switch mal {
				case 0: // malleated scriptSig
					if nested {
						scriptSig = cat([]byte{0x51}, pushBytes(prog))
					} else {
						scriptSig = []byte{0x51}
					}
				case 1:
					if nested {
						scriptSig = pushWith(0x4c, prog)
					} else {
						scriptSig = []byte{0x00}
					}
				}
				return scriptSig, wit
			})
		case t <= 5: // taproot key path
			class = "keypath"
			internal := k.priv.PubKey()
			var root []byte
			if r.Bool() {
				root = r.Bytes(32)
			}
			q := txscript.ComputeTaprootOutputKey(internal, root)
			tweaked := txscript.TweakTaprootPrivKey(*k.priv, root)
			prog := schnorr.SerializePubKey(q)
			if r.Chance(1, 15) {
				prog[7] ^= 2
			}
			pk := cat([]byte{0x51, 0x20}, prog)
			nested := r.Chance(1, 12)
			if nested {
				class = "keypath-nested"
				pk = cat([]byte{0xa9, 0x14}, hash160(cat([]byte{0x51, 0x20}, prog)), []byte{0x87})
			}
			ht := byte(r.Pick(0, 0, 0, 1, 2, 3, 0x81, 0x82, 0x83, 4, 0x80, 0x84))
			var annex []byte
			if r.Chance(1, 5) {
				annex = append([]byte{0x50}, r.Bytes(r.Intn(8))...)
			}
			variant := int(r.Pick(0, 0, 0, 0, 0, 7, 8, 11, 12, 13, 14))
			sp = rawSpend(r, sh, flags, pk, func(tx *wire.MsgTx, idx int, f *txscript.MultiPrevOutFetcher, spent []*wire.TxOut) ([]byte, wire.TxWitness) {
				hs := txscript.NewTxSigHashes(tx, f)
				d, err := txscript.VerifTaprootKeySpendSigHashC06(hs, txscript.SigHashType(ht), tx, idx, f, annex)
				if err != nil {
					d = make([]byte, 32)
				}
				sg, err := schnorr.Sign(tweaked, d)
				if err != nil {
					panic(err)
				}
				sig := sg.Serialize()
				if ht != 0 {
					sig = append(sig, ht)
				}
				switch variant {
				case 7:
					sig[10] ^= 1
				case 8:
					sig = nil
				case 11:
					sig = append(sig, 1, 1)
				case 12:
					sig = sig[:63]
				case 13:
					sig = append(sig[:64], 0)
				}
				wit := wire.TxWitness{sig}
				if variant == 14 {
					wit = wire.TxWitness{} // empty witness
				}
				if annex != nil {
					wit = append(wit, annex)
				}
				var scriptSig []byte
				if nested {
					scriptSig = pushBytes(cat([]byte{0x51, 0x20}, prog))
				} else if r.Chance(1, 25) {
					scriptSig = []byte{0x51}
				}
				return scriptSig, wit
			})
		case t <= 7: // other witness versions / lengths, pay-to-anchor
			class = "witprog-other"
			ver := byte(r.Pick(0, 0x51, 0x51, 0x52, 0x53, 0x60, 0x4f, 0x50))
			plen := int(r.Pick(1, 2, 2, 3, 19, 20, 21, 31, 32, 33, 40, 41))
			prog := r.Bytes(plen)
			if r.Chance(1, 3) {
				ver, prog = 0x51, []byte{0x4e, 0x73} // P2A
				if r.Chance(1, 4) {
					ver = byte(r.Pick(0x00, 0x52, 0x53, 0x60)) // the anchor bytes under another version
				}
			}
			if r.Chance(1, 10) {
				prog = make([]byte, plen) // all-zero program: false as a plain script
			}
			wp := cat([]byte{ver}, pushBytes(prog))
			pk := wp
			nested := r.Chance(1, 3)
			if nested {
				pk = cat([]byte{0xa9, 0x14}, hash160(wp), []byte{0x87})
			}
			sp = rawSpend(r, sh, flags, pk, func(*wire.MsgTx, int, *txscript.MultiPrevOutFetcher, []*wire.TxOut) ([]byte, wire.TxWitness) {
				var wit wire.TxWitness
				for j := r.Intn(3); j > 0; j-- {
					wit = append(wit, r.Bytes(r.Intn(40)))
				}
				var scriptSig []byte
				if nested {
					scriptSig = pushBytes(wp)
					if r.Chance(1, 8) {
						scriptSig = cat([]byte{0x00}, scriptSig)
					}
				} else if r.Chance(1, 8) {
					scriptSig = []byte{0x51}
				}
				return scriptSig, wit
			})
		case t == 8: // P2WSH edge cases: wrong hash, empty witness, trivial scripts
			class = "p2wsh-edge"
			script := []byte{byte(r.Pick(0x51, 0x00, 0x61, 0x52))}
			if r.Bool() {
				script = nil
			}
			h := sha256.Sum256(script)
			if r.Chance(1, 6) {
				h[0] ^= 1
			}
			pk := cat([]byte{0, 0x20}, h[:])
			sp = rawSpend(r, sh, flags, pk, func(*wire.MsgTx, int, *txscript.MultiPrevOutFetcher, []*wire.TxOut) ([]byte, wire.TxWitness) {
				wit := wire.TxWitness{script}
				switch r.Intn(5) {
				case 0:
					wit = nil
				case 1:
					wit = wire.TxWitness{{1}, script}
				}
				return nil, wit
			})
		default: // witness data on a non-witness spend
			class = "witness-unexpected"
			pk := []byte{0x51}
			if r.Bool() {
				pk = cat([]byte{0xa9, 0x14}, hash160([]byte{0x51}), []byte{0x87})
			}
			sp = rawSpend(r, sh, flags, pk, func(*wire.MsgTx, int, *txscript.MultiPrevOutFetcher, []*wire.TxOut) ([]byte, wire.TxWitness) {
				var ss []byte
				if len(pk) > 1 {
					ss = pushBytes([]byte{0x51})
				}
				var wit wire.TxWitness
				if r.Chance(2, 3) {
					wit = wire.TxWitness{r.Bytes(r.Intn(3))}
				}
				return ss, wit
			})
		}
		out = append(out, caseSpec{class: "gen:wit:" + class, sp: sp})
	}
	return out
}
