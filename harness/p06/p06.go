// Package p06: correspondence for C06 (script verification agrees with Bitcoin's script semantics).
//
// The Lean side is an independent interpreter written from Bitcoin Core's semantics. Every spend is
// shipped as one self-contained protocol line (flags, full transaction, input index, spent outputs,
// oracle table for the curve equations). `run` lines compare btcd's Engine with the Lean model;
// `core`/`coretx` lines compare the Lean model with the result Bitcoin Core recorded in its own test
// vectors (the Go side just echoes the recorded expectation), which validates the oracle.
package p06

import (
	"bytes"
	"crypto/sha1"
	"crypto/sha256"
	"encoding/hex"
	"fmt"
	"os"
	"strconv"
	"strings"

	"github.com/btcsuite/btcd/txscript/v2"
	"github.com/btcsuite/btcd/wire/v2"
	"golang.org/x/crypto/ripemd160"
	"verifharness/core"
)

type P struct{}

func (P) ID() string { return "C06" }

func repoDir() string {
	if d := os.Getenv("VERIF_REPO"); d != "" {
		return d
	}
	return "/repo"
}

// ---------------------------------------------------------------- facts (T2)

func (P) Facts() []core.Fact {
	// encoded length of every opcode as the exported tokenizer sees it: bytes consumed by the opcode when it is
	// followed by zero bytes (1 = bare opcode, n+1 = direct push of n bytes, 2/3/5 = PUSHDATA1/2/4 with length 0)
	var lengths []int64
	for op := 0; op < 256; op++ {
		t := txscript.MakeScriptTokenizer(0, append([]byte{byte(op)}, make([]byte, 80)...))
		if !t.Next() {
			lengths = append(lengths, -1)
			continue
		}
		lengths = append(lengths, int64(t.ByteIndex()))
	}
	fs := []core.Fact{
		{Name: "opConsumed", Value: lengths},
		{Name: "maxStackSize", Value: int64(txscript.MaxStackSize)},
		{Name: "maxScriptSize", Value: int64(txscript.MaxScriptSize)},
		{Name: "maxOpsPerScript", Value: int64(txscript.MaxOpsPerScript)},
		{Name: "maxPubKeysPerMultiSig", Value: int64(txscript.MaxPubKeysPerMultiSig)},
		{Name: "maxScriptElementSize", Value: int64(txscript.MaxScriptElementSize)},
		{Name: "lockTimeThreshold", Value: int64(txscript.LockTimeThreshold)},
		{Name: "standardVerifyFlags", Value: int64(toProto(txscript.StandardVerifyFlags))},
		{Name: "taprootAnnexTag", Value: int64(txscript.TaprootAnnexTag)},
		{Name: "taprootLeafMask", Value: int64(txscript.TaprootLeafMask)},
		{Name: "baseLeafVersion", Value: int64(txscript.BaseLeafVersion)},
		{Name: "controlBlockBaseSize", Value: int64(txscript.ControlBlockBaseSize)},
		{Name: "controlBlockNodeSize", Value: int64(txscript.ControlBlockNodeSize)},
		{Name: "controlBlockMaxNodeCount", Value: int64(txscript.ControlBlockMaxNodeCount)},
		{Name: "sequenceLockTimeDisabled", Value: int64(wire.SequenceLockTimeDisabled)},
		{Name: "sequenceLockTimeIsSeconds", Value: int64(wire.SequenceLockTimeIsSeconds)},
		{Name: "sequenceLockTimeMask", Value: int64(wire.SequenceLockTimeMask)},
		{Name: "maxTxInSequenceNum", Value: int64(wire.MaxTxInSequenceNum)},
	}
	// disabled opcodes: fail with the disabled-opcode error in an unexecuted branch; OP_SUCCESSx: reported by the
	// exported scanner
	var disabled, success []int64
	for op := 0; op < 256; op++ {
		if op >= 0x4f || op == 0 {
			sp := &spend{flags: 0}
			tx, prev := creditSpend(nil, []byte{0x00, 0x63, byte(op), 0x68, 0x51}, nil, 0)
			sp.tx, sp.idx, sp.spent = tx, 0, []*wire.TxOut{prev}
			vm, err := txscript.NewEngine(prev.PkScript, tx, 0, 0, nil, nil, 0, sp.fetcher())
			if err == nil {
				err = vm.Execute()
			}
			if txscript.IsErrorCode(err, txscript.ErrDisabledOpcode) {
				disabled = append(disabled, int64(op))
			}
		}
		if txscript.ScriptHasOpSuccess([]byte{byte(op)}) {
			success = append(success, int64(op))
		}
	}
	fs = append(fs, core.Fact{Name: "disabledOpcodes", Value: disabled}, core.Fact{Name: "successOpcodes", Value: success})
	return fs
}

var flagTable = []struct {
	name string
	core string
	flag txscript.ScriptFlags
}{
	{"ScriptBip16", "P2SH", txscript.ScriptBip16},
	{"ScriptStrictMultiSig", "NULLDUMMY", txscript.ScriptStrictMultiSig},
	{"ScriptDiscourageUpgradableNops", "DISCOURAGE_UPGRADABLE_NOPS", txscript.ScriptDiscourageUpgradableNops},
	{"ScriptVerifyCheckLockTimeVerify", "CHECKLOCKTIMEVERIFY", txscript.ScriptVerifyCheckLockTimeVerify},
	{"ScriptVerifyCheckSequenceVerify", "CHECKSEQUENCEVERIFY", txscript.ScriptVerifyCheckSequenceVerify},
	{"ScriptVerifyCleanStack", "CLEANSTACK", txscript.ScriptVerifyCleanStack},
	{"ScriptVerifyDERSignatures", "DERSIG", txscript.ScriptVerifyDERSignatures},
	{"ScriptVerifyLowS", "LOW_S", txscript.ScriptVerifyLowS},
	{"ScriptVerifyMinimalData", "MINIMALDATA", txscript.ScriptVerifyMinimalData},
	{"ScriptVerifyNullFail", "NULLFAIL", txscript.ScriptVerifyNullFail},
	{"ScriptVerifySigPushOnly", "SIGPUSHONLY", txscript.ScriptVerifySigPushOnly},
	{"ScriptVerifyStrictEncoding", "STRICTENC", txscript.ScriptVerifyStrictEncoding},
	{"ScriptVerifyWitness", "WITNESS", txscript.ScriptVerifyWitness},
	{"ScriptVerifyDiscourageUpgradeableWitnessProgram", "DISCOURAGE_UPGRADABLE_WITNESS_PROGRAM", txscript.ScriptVerifyDiscourageUpgradeableWitnessProgram},
	{"ScriptVerifyMinimalIf", "MINIMALIF", txscript.ScriptVerifyMinimalIf},
	{"ScriptVerifyWitnessPubKeyType", "WITNESS_PUBKEYTYPE", txscript.ScriptVerifyWitnessPubKeyType},
	{"ScriptVerifyTaproot", "TAPROOT", txscript.ScriptVerifyTaproot},
	{"ScriptVerifyDiscourageUpgradeableTaprootVersion", "DISCOURAGE_UPGRADABLE_TAPROOT_VERSION", txscript.ScriptVerifyDiscourageUpgradeableTaprootVersion},
	{"ScriptVerifyDiscourageOpSuccess", "DISCOURAGE_OP_SUCCESS", txscript.ScriptVerifyDiscourageOpSuccess},
	{"ScriptVerifyDiscourageUpgradeablePubkeyType", "DISCOURAGE_UPGRADABLE_PUBKEYTYPE", txscript.ScriptVerifyDiscourageUpgradeablePubkeyType},
	{"ScriptVerifyConstScriptCode", "CONST_SCRIPTCODE", txscript.ScriptVerifyConstScriptCode},
}

// allFlags is the union of every named flag.
var allFlags = func() txscript.ScriptFlags {
	var f txscript.ScriptFlags
	for _, t := range flagTable {
		f |= t.flag
	}
	return f
}()

// The protocol line carries flags in the protocol's own numbering (bit i = i-th entry of flagTable, the order
// of the Lean `Flags.ofNat`), never btcd's in-memory bit values.
func toProto(fl txscript.ScriptFlags) uint32 {
	var n uint32
	for i, t := range flagTable {
		if fl&t.flag != 0 {
			n |= 1 << uint(i)
		}
	}
	return n
}

func fromProto(n uint32) txscript.ScriptFlags {
	var fl txscript.ScriptFlags
	for i, t := range flagTable {
		if n&(1<<uint(i)) != 0 {
			fl |= t.flag
		}
	}
	return fl
}

func parseCoreFlags(s string) (txscript.ScriptFlags, error) {
	var fl txscript.ScriptFlags
outer:
	for _, t := range strings.Split(s, ",") {
		if t == "" || t == "NONE" {
			continue
		}
		for _, f := range flagTable {
			if f.core == t {
				fl |= f.flag
				continue outer
			}
		}
		return 0, fmt.Errorf("unknown flag %q", t)
	}
	return fl, nil
}

// ---------------------------------------------------------------- spend <-> line

type spend struct {
	flags txscript.ScriptFlags
	tx    *wire.MsgTx
	idx   int
	spent []*wire.TxOut // one per input
}

func hexTok(b []byte) string {
	if len(b) == 0 {
		return "-"
	}
	return hex.EncodeToString(b)
}

func unhexTok(s string) []byte {
	if s == "-" || s == "" {
		return nil
	}
	b, err := hex.DecodeString(s)
	if err != nil {
		panic("bad hex")
	}
	return b
}

func (s *spend) base() string {
	var buf bytes.Buffer
	if err := s.tx.Serialize(&buf); err != nil {
		panic(err)
	}
	parts := make([]string, len(s.spent))
	for i, o := range s.spent {
		parts[i] = fmt.Sprintf("%d:%s", uint64(o.Value), hex.EncodeToString(o.PkScript))
	}
	sp := strings.Join(parts, ",")
	if sp == "" {
		sp = "-"
	}
	return fmt.Sprintf("%d %s %d %s", toProto(s.flags), hex.EncodeToString(buf.Bytes()), s.idx, sp)
}

func parseSpend(f []string) *spend {
	// f = flags tx idx spent [oracle]
	fl, err := strconv.ParseUint(f[0], 10, 32)
	if err != nil {
		panic(err)
	}
	var tx wire.MsgTx
	if err := tx.Deserialize(bytes.NewReader(unhexTok(f[1]))); err != nil {
		panic(err)
	}
	idx, err := strconv.Atoi(f[2])
	if err != nil {
		panic(err)
	}
	s := &spend{flags: fromProto(uint32(fl)), tx: &tx, idx: idx}
	if f[3] != "-" {
		for _, e := range strings.Split(f[3], ",") {
			p := strings.SplitN(e, ":", 2)
			v, err := strconv.ParseUint(p[0], 10, 64)
			if err != nil {
				panic(err)
			}
			s.spent = append(s.spent, &wire.TxOut{Value: int64(v), PkScript: unhexTok(p[1])})
		}
	}
	return s
}

// runBtcd executes the real engine on input idx.
func (s *spend) runBtcd() string {
	if s.idx >= len(s.tx.TxIn) || len(s.spent) != len(s.tx.TxIn) {
		return "bad-op"
	}
	m := make(map[wire.OutPoint]*wire.TxOut)
	for i, in := range s.tx.TxIn {
		m[in.PreviousOutPoint] = s.spent[i]
	}
	fetcher := txscript.NewMultiPrevOutFetcher(m)
	// the spent output of this input wins when outpoints are duplicated
	fetcher.AddPrevOut(s.tx.TxIn[s.idx].PreviousOutPoint, s.spent[s.idx])
	hc := txscript.NewTxSigHashes(s.tx, fetcher)
	prev := s.spent[s.idx]
	vm, err := txscript.NewEngine(prev.PkScript, s.tx, s.idx, s.flags, nil, hc, prev.Value, fetcher)
	if err != nil {
		return "err"
	}
	if err := vm.Execute(); err != nil {
		return "err"
	}
	return "ok"
}

// ---------------------------------------------------------------- exec (real code)

func (P) Exec(line string) string {
	f := strings.Fields(line)
	if len(f) < 2 || f[0] != "C06" {
		return "bad-op"
	}
	return exec(f[1:])
}

func exec(f []string) string {
	switch f[0] {
	case "expect":
		if len(f) < 3 {
			return "bad-op"
		}
		return f[1]
	case "run":
		if len(f) != 6 {
			return "bad-op"
		}
		return parseSpend(f[1:]).runBtcd()
	case "runv":
		if len(f) != 7 {
			return "bad-op"
		}
		v, err := strconv.Atoi(f[1])
		if err != nil {
			return "bad-op"
		}
		return parseSpend(f[2:]).runVariant(v)
	case "valtx":
		if len(f) != 6 {
			return "bad-op"
		}
		return parseSpend(f[1:]).validateTx()
	case "multi":
		if len(f) != 6 {
			return "bad-op"
		}
		return parseSpend(f[1:]).runMulti()
	case "par":
		if len(f) != 6 {
			return "bad-op"
		}
		return parseSpend(f[1:]).runPar()
	case "classify":
		if len(f) != 2 {
			return "bad-op"
		}
		return classify(unhexTok(f[1]))
	case "core", "coretx":
		// Bitcoin Core's recorded result; the Lean model has to reproduce it.
		if len(f) != 7 {
			return "bad-op"
		}
		switch f[1] {
		case "OK":
			return "ok"
		case "FAIL":
			return "err"
		}
		return "err:" + f[1]
	case "runtx":
		if len(f) != 6 {
			return "bad-op"
		}
		s := parseSpend(f[1:])
		for i := range s.tx.TxIn {
			s.idx = i
			if r := s.runBtcd(); r != "ok" {
				return r
			}
		}
		return "ok"
	case "sha1":
		h := sha1.Sum(unhexTok(f[1]))
		return hex.EncodeToString(h[:])
	case "sha256":
		h := sha256.Sum256(unhexTok(f[1]))
		return hex.EncodeToString(h[:])
	case "ripemd160":
		h := ripemd160.New()
		h.Write(unhexTok(f[1]))
		return hex.EncodeToString(h.Sum(nil))
	case "hash160":
		h1 := sha256.Sum256(unhexTok(f[1]))
		h := ripemd160.New()
		h.Write(h1[:])
		return hex.EncodeToString(h.Sum(nil))
	case "num":
		ml, _ := strconv.Atoi(f[3])
		v, err := txscript.MakeScriptNum(unhexTok(f[1]), f[2] == "1", ml)
		if err != nil {
			return "err"
		}
		return strconv.FormatInt(int64(v), 10)
	case "numenc":
		n, err := strconv.ParseInt(f[1], 10, 64)
		if err != nil {
			return "bad-op"
		}
		return hexTok(builderNumBytes(n))
	case "tok":
		script := unhexTok(f[1])
		t := txscript.MakeScriptTokenizer(0, script)
		var parts []string
		for t.Next() {
			parts = append(parts, fmt.Sprintf("%d:%d", t.Opcode(), len(t.Data())))
		}
		if t.Err() != nil {
			return "err"
		}
		if len(parts) == 0 {
			return "-"
		}
		return strings.Join(parts, ",")
	case "sighash":
		return execSighash(f[1:])
	}
	return "bad-op"
}

func execSighash(f []string) string {
	if len(f) < 5 {
		return "bad-op"
	}
	var tx wire.MsgTx
	if err := tx.Deserialize(bytes.NewReader(unhexTok(f[1]))); err != nil {
		return "bad-op"
	}
	idx, _ := strconv.Atoi(f[2])
	switch f[0] {
	case "legacy":
		ht, _ := strconv.ParseUint(f[4], 10, 32)
		return hex.EncodeToString(txscript.VerifLegacySigHashC06(unhexTok(f[3]), txscript.SigHashType(ht), &tx, idx))
	case "v0":
		ht, _ := strconv.ParseUint(f[4], 10, 32)
		amt, _ := strconv.ParseUint(f[5], 10, 64)
		h, err := txscript.VerifWitnessSigHashC06(unhexTok(f[3]), txscript.SigHashType(ht), &tx, idx, int64(amt))
		if err != nil {
			return "none"
		}
		return hex.EncodeToString(h)
	}
	return "bad-op"
}

// builderNumBytes is the script-number encoding of n as the exported ScriptBuilder pushes it.
func builderNumBytes(n int64) []byte {
	sc, err := txscript.NewScriptBuilder().AddInt64(n).Script()
	if err != nil {
		panic(err)
	}
	switch {
	case n == 0:
		return nil
	case n == -1:
		return []byte{0x81}
	case n >= 1 && n <= 16:
		return []byte{byte(n)}
	}
	t := txscript.MakeScriptTokenizer(0, sc)
	if !t.Next() {
		panic("builder script does not parse")
	}
	return append([]byte{}, t.Data()...)
}
