package p06

import (
	"bytes"
	"fmt"
	"strings"
	"sync"

	"github.com/btcsuite/btcd/blockchain"
	"github.com/btcsuite/btcd/btcec/v2/ecdsa"
	"github.com/btcsuite/btcd/btcutil/v2"
	"github.com/btcsuite/btcd/txscript/v2"
	"github.com/btcsuite/btcd/wire/v2"
)

// API variants of the one observation "does input idx verify": every way a caller can drive the exported
// Engine must give the verdict of NewEngine(...).Execute() with fresh arguments.
const nVariants = 13

func verdict(err error) string {
	if err != nil {
		return "err"
	}
	return "ok"
}

func (s *spend) fetcher() *txscript.MultiPrevOutFetcher {
	m := make(map[wire.OutPoint]*wire.TxOut)
	for i, in := range s.tx.TxIn {
		m[in.PreviousOutPoint] = s.spent[i]
	}
	f := txscript.NewMultiPrevOutFetcher(m)
	f.AddPrevOut(s.tx.TxIn[s.idx].PreviousOutPoint, s.spent[s.idx])
	return f
}

func txBytes(tx *wire.MsgTx) []byte {
	var b bytes.Buffer
	_ = tx.Serialize(&b)
	return b.Bytes()
}

// runVariant drives the engine in the requested way; "incons:<what>" reports a disagreement between two ways
// of asking on the same input (which no Lean answer equals).
func (s *spend) runVariant(v int) string {
	if s.idx >= len(s.tx.TxIn) || len(s.spent) != len(s.tx.TxIn) {
		return "bad-op"
	}
	prev := s.spent[s.idx]
	f := s.fetcher()
	base := s.runBtcd()
	mk := func(sc *txscript.SigCache, hc *txscript.TxSigHashes, pf txscript.PrevOutputFetcher) (*txscript.Engine, error) {
		return txscript.NewEngine(prev.PkScript, s.tx, s.idx, s.flags, sc, hc, prev.Value, pf)
	}
	exec := func(vm *txscript.Engine, err error) string {
		if err != nil {
			return "err"
		}
		return verdict(vm.Execute())
	}
	check := func(what, got string) string {
		if got != base {
			return "incons:" + what + ":" + got + "/" + base
		}
		return got
	}
	switch v {
	case 0: // shared signature cache, executed twice (second run answers from the cache)
		sc := txscript.NewSigCache(50)
		a := exec(mk(sc, txscript.NewTxSigHashes(s.tx, f), f))
		b := exec(mk(sc, txscript.NewTxSigHashes(s.tx, f), f))
		if a != b {
			return "incons:sigcache:" + a + "/" + b
		}
		return check("sigcache", a)
	case 1: // no hash cache
		return check("nohashcache", exec(mk(nil, nil, f)))
	case 2: // Step loop + CheckErrorCondition instead of Execute
		vm, err := mk(nil, txscript.NewTxSigHashes(s.tx, f), f)
		if err != nil {
			return check("step", "err")
		}
		for i := 0; i < 1<<20; i++ {
			done, err := vm.Step()
			if err != nil {
				return check("step", "err")
			}
			if done {
				break
			}
		}
		return check("step", verdict(vm.CheckErrorCondition(true)))
	case 3: // debug engine with a step callback that reads the stacks
		seen := 0
		vm, err := txscript.NewDebugEngine(prev.PkScript, s.tx, s.idx, s.flags, nil, txscript.NewTxSigHashes(s.tx, f),
			prev.Value, f, func(si *txscript.StepInfo) error {
				seen += len(si.Stack) + len(si.AltStack)
				return nil
			})
		return check("debug", exec(vm, err))
	case 4: // canned previous-output fetcher (single-input transactions), hash cache built from it
		if len(s.tx.TxIn) != 1 {
			return base
		}
		cf := txscript.NewCannedPrevOutputFetcher(prev.PkScript, prev.Value)
		return check("canned", exec(mk(nil, txscript.NewTxSigHashes(s.tx, cf), cf)))
	case 5: // zero-sized signature cache
		return check("sigcache0", exec(mk(txscript.NewSigCache(0), txscript.NewTxSigHashes(s.tx, f), f)))
	case 6: // accessors between steps must not disturb execution
		vm, err := mk(nil, txscript.NewTxSigHashes(s.tx, f), f)
		if err != nil {
			return check("accessors", "err")
		}
		for i := 0; i < 1<<20; i++ {
			_, _ = vm.DisasmPC()
			_, _ = vm.DisasmScript(0)
			st := vm.GetStack()
			vm.SetStack(st)
			al := vm.GetAltStack()
			vm.SetAltStack(al)
			done, err := vm.Step()
			if err != nil {
				return check("accessors", "err")
			}
			if done {
				break
			}
		}
		return check("accessors", verdict(vm.CheckErrorCondition(true)))
	case 7: // the transaction and the spent outputs are inputs, not scratch space
		before := txBytes(s.tx)
		pk := append([]byte{}, prev.PkScript...)
		r := exec(mk(txscript.NewSigCache(10), txscript.NewTxSigHashes(s.tx, f), f))
		if !bytes.Equal(before, txBytes(s.tx)) || !bytes.Equal(pk, prev.PkScript) {
			return "incons:mutated-input"
		}
		return check("value", r)
	case 9: // a signature cached for this transaction must not validate a different transaction
		sc := txscript.NewSigCache(50)
		r := exec(mk(sc, txscript.NewTxSigHashes(s.tx, f), f))
		// many other transactions carrying the same scripts: none may be answered from the cache
		for k := 1; k <= 48; k++ {
			t2 := s.tx.Copy()
			t2.LockTime ^= uint32(k)
			if len(t2.TxOut) > 0 {
				t2.TxOut[0].Value ^= int64(k) << 3
			}
			s2 := &spend{flags: s.flags, tx: t2, idx: s.idx, spent: s.spent}
			f2 := s2.fetcher()
			fresh := s2.runBtcd()
			vm, err := txscript.NewEngine(prev.PkScript, t2, s.idx, s.flags, sc, txscript.NewTxSigHashes(t2, f2), prev.Value, f2)
			if got := exec(vm, err); got != fresh {
				return "incons:cache-poison:" + got + "/" + fresh
			}
			if fresh == "ok" && r == "ok" && k > 4 {
				break // the verdict does not depend on the transaction: nothing to learn from more copies
			}
		}
		return check("cache-other-tx", r)
	case 12: // nil and empty-but-non-nil slices are the same input
		t2 := s.tx.Copy()
		in := t2.TxIn[s.idx]
		flipB := func(b []byte) []byte {
			if b == nil {
				return []byte{}
			}
			if len(b) == 0 {
				return nil
			}
			return b
		}
		in.SignatureScript = flipB(in.SignatureScript)
		if in.Witness == nil {
			in.Witness = wire.TxWitness{}
		} else if len(in.Witness) == 0 {
			in.Witness = nil
		} else {
			w := make(wire.TxWitness, len(in.Witness))
			for i, e := range in.Witness {
				w[i] = flipB(e)
			}
			in.Witness = w
		}
		sp2 := make([]*wire.TxOut, len(s.spent))
		for i, o := range s.spent {
			sp2[i] = &wire.TxOut{Value: o.Value, PkScript: flipB(o.PkScript)}
		}
		s2 := &spend{flags: s.flags, tx: t2, idx: s.idx, spent: sp2}
		return check("nil-vs-empty", s2.runBtcd())
	case 10, 11: // the exported taproot helpers agree with the engine on native P2TR spends
		in := s.tx.TxIn[s.idx]
		pk := prev.PkScript
		need := txscript.ScriptVerifyWitness | txscript.ScriptVerifyTaproot | txscript.ScriptBip16
		if !(len(pk) == 34 && pk[0] == 0x51 && pk[1] == 0x20) || len(in.SignatureScript) != 0 || s.flags&need != need ||
			len(in.Witness) == 0 {
			return base
		}
		wit := in.Witness
		if len(wit) >= 2 && len(wit[len(wit)-1]) > 0 && wit[len(wit)-1][0] == txscript.TaprootAnnexTag {
			wit = wit[:len(wit)-1]
		}
		if len(wit) == 1 {
			var hc *txscript.TxSigHashes
			if v == 10 {
				hc = txscript.NewTxSigHashes(s.tx, f)
			}
			err := txscript.VerifyTaprootKeySpend(pk[2:], wit[0], s.tx, s.idx, f, hc, nil)
			return check("keyspend-helper", verdict(err))
		}
		cb, err := txscript.ParseControlBlock(wit[len(wit)-1])
		if err == nil {
			err = txscript.VerifyTaprootLeafCommitment(cb, pk[2:], wit[len(wit)-2])
		}
		if err != nil && base == "ok" {
			return "incons:leaf-commitment-helper"
		}
		if err == nil {
			// round trip of the parsed control block
			if b, e2 := cb.ToBytes(); e2 != nil || !bytes.Equal(b, wit[len(wit)-1]) {
				return "incons:control-block-roundtrip"
			}
		}
		return base
	default: // nil hash cache and nil signature cache with the engine executed twice from scratch
		a := exec(mk(nil, nil, f))
		b := exec(mk(nil, nil, f))
		if a != b {
			return "incons:repeat:" + a + "/" + b
		}
		return check("repeat", a)
	}
}

// validateTx is the node's own entry point: blockchain.ValidateTransactionScripts over a utxo view.
func (s *spend) validateTx() string {
	view := blockchain.NewUtxoViewpoint()
	for i, in := range s.tx.TxIn {
		view.Entries()[in.PreviousOutPoint] = blockchain.NewUtxoEntry(s.spent[i], 100, false)
	}
	err := blockchain.ValidateTransactionScripts(btcutil.NewTx(s.tx), view, s.flags, txscript.NewSigCache(100),
		txscript.NewHashCache(10))
	return verdict(err)
}

// ---- concurrency: engines are independent; shared caches are the only shared state

var (
	parMu   sync.Mutex
	parRing []parItem
)

type parItem struct {
	s    *spend
	want string
}

// highSTwin returns a copy of the spend in which the first strictly DER-encoded signature found in the
// scriptSig pushes / witness items is replaced by its high-S form (same r, s' = n - s), or nil.
func highSTwin(s *spend) *spend {
	flip := func(d []byte) []byte {
		if len(d) < 9 {
			return nil
		}
		sig, err := ecdsa.ParseDERSignature(d[:len(d)-1])
		if err != nil {
			return nil
		}
		rr, ss := sig.R(), sig.S()
		rb, sb := rr.Bytes(), ss.Bytes()
		return append(derSig(rb[:], negS(sb[:])), d[len(d)-1])
	}
	tx := s.tx.Copy()
	in := tx.TxIn[s.idx]
	for i, w := range in.Witness {
		if f := flip(w); f != nil {
			nw := make(wire.TxWitness, len(in.Witness))
			copy(nw, in.Witness)
			nw[i] = f
			in.Witness = nw
			return &spend{flags: s.flags, tx: tx, idx: s.idx, spent: s.spent}
		}
	}
	t := txscript.MakeScriptTokenizer(0, in.SignatureScript)
	prevOff := int32(0)
	for t.Next() {
		if t.Opcode() <= txscript.OP_PUSHDATA4 {
			if f := flip(t.Data()); f != nil {
				ns := cat(in.SignatureScript[:prevOff], pushBytes(f), in.SignatureScript[t.ByteIndex():])
				in.SignatureScript = ns
				return &spend{flags: s.flags, tx: tx, idx: s.idx, spent: s.spent}
			}
		}
		prevOff = t.ByteIndex()
	}
	return nil
}

// runPar executes this spend in 4 goroutines while 4 more re-execute recently seen other spends, all sharing
// one signature cache; every goroutine must reproduce the sequential verdict of its spend.
func (s *spend) runPar() string {
	want := s.runBtcd()
	parMu.Lock()
	others := append([]parItem{}, parRing...)
	parRing = append(parRing, parItem{s, want})
	if len(parRing) > 8 {
		parRing = parRing[len(parRing)-8:]
	}
	parMu.Unlock()
	// with LOW_S a twin spend carrying the high-S form of the same signature hammers the signature
	// encoding check while the original verifies (shared scratch state would mix the two up)
	reps := 12
	if s.flags&txscript.ScriptVerifyLowS != 0 {
		if tw := highSTwin(s); tw != nil {
			others = []parItem{{tw, tw.runBtcd()}}
			reps = 600
		}
	}
	sc := txscript.NewSigCache(16)
	f := s.fetcher()
	shared := txscript.NewTxSigHashes(s.tx, f)
	var wg sync.WaitGroup
	bad := make(chan string, 16)
	for g := 0; g < 8; g++ {
		wg.Add(1)
		go func(g int) {
			defer wg.Done()
			defer func() {
				if r := recover(); r != nil {
					bad <- fmt.Sprintf("panic:%d", g)
				}
			}()
			it := parItem{s, want}
			hc, pf := shared, txscript.PrevOutputFetcher(f)
			if g >= 4 && len(others) > 0 {
				it = others[(g*7)%len(others)]
				of := it.s.fetcher()
				hc, pf = txscript.NewTxSigHashes(it.s.tx, of), of
			}
			n := 12
			if reps > 12 {
				n = 40
			}
			if g >= 4 {
				n = reps
			}
			for rep := 0; rep < n; rep++ {
				prev := it.s.spent[it.s.idx]
				vm, err := txscript.NewEngine(prev.PkScript, it.s.tx, it.s.idx, it.s.flags, sc, hc, prev.Value, pf)
				got := "err"
				if err == nil {
					got = verdict(vm.Execute())
				}
				if got != it.want {
					bad <- fmt.Sprintf("race:%d:%s/%s", g, got, it.want)
					return
				}
			}
		}(g)
	}
	wg.Wait()
	close(bad)
	for b := range bad {
		return b
	}
	return want
}

// classify: the exported script classifiers the engine's sequencing relies on.
func classify(script []byte) string {
	b := func(x bool) string {
		if x {
			return "1"
		}
		return "0"
	}
	wp := "-"
	if txscript.IsWitnessProgram(script) {
		ver, prog, err := txscript.ExtractWitnessProgramInfo(script)
		if err == nil {
			wp = fmt.Sprintf("%d:%x", ver, prog)
		}
	}
	var parts []string
	parts = append(parts, "po="+b(txscript.IsPushOnlyScript(script)), "wp="+wp, "p2sh="+b(txscript.IsPayToScriptHash(script)),
		"succ="+b(txscript.ScriptHasOpSuccess(script)), "p2a="+b(txscript.IsPayToAnchorScript(script)),
		"p2tr="+b(txscript.IsPayToTaproot(script)), "p2wpkh="+b(txscript.IsPayToWitnessPubKeyHash(script)),
		"p2wsh="+b(txscript.IsPayToWitnessScriptHash(script)))
	return strings.Join(parts, " ")
}
