package p06

import (
	"github.com/btcsuite/btcd/btcec/v2"
	"github.com/btcsuite/btcd/txscript/v2"
	"github.com/btcsuite/btcd/wire/v2"
	"verifharness/core"
)

// genRegress builds the minimal trigger of every finding of this property (fixed or known) with a fixed
// PRNG stream, so that they run on every check independently of the seed. The same lines are kept in
// corpus/C06/findings.txt.
func genRegress() []caseSpec {
	r := core.NewRand(606)
	keys := makeKeys(r, 5)
	sh := txShape{version: 2, lockTime: 0, sequence: 0xfffffffe, nIn: 1, idx: 0, nOut: 1, amount: 100000}
	std := txscript.StandardVerifyFlags
	var out []caseSpec
	add := func(class string, wrapper int, flags txscript.ScriptFlags, script []byte, mk func(b *builtSpend) [][]byte) {
		var tap *tapInfo
		if wrapper == wTapscript {
			tap = &tapInfo{internal: keys[0].priv.PubKey(), leafVer: 0xc0}
		}
		b := buildSpend(r, wrapper, script, sh, flags, tap)
		out = append(out, caseSpec{class: "gen:regress:" + class, sp: b.finish(mk(b), nil)})
	}
	empty2 := func(*builtSpend) [][]byte { return [][]byte{{}, {}} }
	empty1 := func(*builtSpend) [][]byte { return [][]byte{{}} }
	bad := append([]byte{}, keys[1].comp...)
	bad[0] = 0x05

	// F-C06-a: CHECKMULTISIG with an empty signature and a key that fails the encoding rules
	ms := func(pk []byte) []byte { return cat([]byte{0x51}, pushBytes(pk), []byte{0x51, 0xae, 0x91}) }
	add("F-C06-a:prefix05", wBare, std, ms(bad), empty2)
	add("F-C06-a:prefix05-strictenc-only", wBare, txscript.ScriptVerifyStrictEncoding, ms(bad), empty2)
	add("F-C06-a:hybrid", wP2SH, std, ms(keys[1].hybrid), empty2)
	add("F-C06-a:uncompressed-witness", wP2WSH, std, ms(keys[1].uncomp), empty2)
	add("F-C06-a:good-key", wBare, std, ms(keys[1].comp), empty2)

	// F-C06-c: tapscript, empty signature, public key of unknown type
	add("F-C06-c:checksig", wTapscript, std, cat(pushBytes(keys[1].comp), []byte{0xac, 0x91}), empty1)
	add("F-C06-c:checksigadd", wTapscript, std, cat([]byte{0x00}, pushBytes(keys[1].comp), []byte{0xba, 0x91}), empty1)
	// seed C06-g: the same with a key SHORTER than 32 bytes (also an unknown type: neither 0 nor 32 bytes)
	short31 := append([]byte{}, keys[1].comp[1:32]...)
	add("short-key:checksigadd-31", wTapscript, std, cat([]byte{0x00}, pushBytes(short31), []byte{0xba, 0x91}), empty1)
	add("short-key:checksigadd-1", wTapscript, std, cat([]byte{0x00}, pushBytes([]byte{0x42}), []byte{0xba, 0x91}), empty1)
	add("short-key:checksig-31", wTapscript, std, cat(pushBytes(short31), []byte{0xac, 0x91}), empty1)
	add("short-key:checksigadd-31-consensus", wTapscript, consensusAll, cat([]byte{0x00}, pushBytes(short31), []byte{0xba, 0x91}), empty1)
	add("F-C06-c:checksig-consensus", wTapscript, consensusAll, cat(pushBytes(keys[1].comp), []byte{0xac, 0x91}), empty1)

	// F-C06-b (fixed): empty signature, OP_0 in a legacy script: CONST_SCRIPTCODE, and the script code of the
	// other signatures of a CHECKMULTISIG
	fd := cat([]byte{0x00, 0x75}, pushBytes(keys[1].comp), []byte{0xac, 0x91})
	add("F-C06-b:bare", wBare, std, fd, empty1)
	add("F-C06-b:p2sh", wP2SH, std, fd, empty1)
	add("F-C06-b:p2wsh-not-affected", wP2WSH, std, fd, empty1)
	add("F-C06-b:consensus-flags", wBare, consensusAll, fd, empty1)

	// 3-of-4 CHECKMULTISIG NOT whose script contains an empty key push (OP_0); signatures, first evaluated
	// first: s1 by the last key, s2 not DER (an error under DERSIG, but only if s1 verified), s3 empty (its
	// push is OP_0, so the script code of s1 loses the OP_0). s1 is made over the script code with or
	// without the OP_0: exactly one of the two verifies.
	for _, strip := range []bool{false, true} {
		strip := strip
		for _, fl := range []txscript.ScriptFlags{consensusAll, txscript.ScriptBip16 | txscript.ScriptVerifyDERSignatures} {
			ms3 := cat([]byte{0x53}, pushBytes(keys[1].comp), pushBytes(keys[2].comp), []byte{0x00}, pushBytes(keys[0].comp), []byte{0x54, 0xae, 0x91})
			add("F-C06-b:multisig-sighash", wBare, fl, ms3, func(b *builtSpend) [][]byte {
				code := ms3
				if strip {
					code = cat([]byte{0x53}, pushBytes(keys[1].comp), pushBytes(keys[2].comp), pushBytes(keys[0].comp), []byte{0x54, 0xae, 0x91})
				}
				s1 := b.ecdsaSig(sigPlan{key: keys[0], ht: 1}, code, keys)
				s2 := b.ecdsaSig(sigPlan{key: keys[2], ht: 1, variant: 3}, code, keys)
				return [][]byte{{}, {}, s2, s1}
			})
		}
	}

	// F-C06-e (fixed): NULLFAIL with a public key / signature that btcec cannot parse
	offCurve := offCurveKey(keys[1].comp)
	for _, w := range []int{wBare, wP2SH, wP2WSH} {
		w := w
		for _, fl := range []txscript.ScriptFlags{std, consensusAll} {
			sc := cat(pushBytes(offCurve), []byte{0xac, 0x91})
			add("F-C06-e:offcurve-key", w, fl, sc, func(b *builtSpend) [][]byte {
				return [][]byte{b.ecdsaSig(sigPlan{key: keys[1], ht: 1}, sc, keys)}
			})
			sc2 := cat(pushBytes(keys[1].comp), []byte{0xac, 0x91})
			add("F-C06-e:zero-r", w, fl, sc2, func(b *builtSpend) [][]byte {
				return [][]byte{{0x30, 0x06, 0x02, 0x01, 0x00, 0x02, 0x01, 0x01, 0x01}}
			})
		}
	}

	// F-C06-d: signature encodings accepted by Core's lax parser only (no DERSIG)
	p2pk := cat(pushBytes(keys[1].comp), []byte{0xac})
	for _, v := range []int{3, 4, 2, 5, 6, 1} {
		v := v
		for _, fl := range []txscript.ScriptFlags{txscript.ScriptBip16, txscript.ScriptBip16 | txscript.ScriptVerifyDERSignatures} {
			add("F-C06-d:variant", wBare, fl, p2pk, func(b *builtSpend) [][]byte {
				return [][]byte{b.ecdsaSig(sigPlan{key: keys[1], ht: 1, variant: v}, p2pk, keys)}
			})
		}
	}
	p2pkNot := cat(pushBytes(keys[1].comp), []byte{0xac, 0x91})
	for _, v := range []int{3, 4} {
		v := v
		add("F-C06-d:not", wP2SH, txscript.ScriptBip16, p2pkNot, func(b *builtSpend) [][]byte {
			return [][]byte{b.ecdsaSig(sigPlan{key: keys[1], ht: 1, variant: v}, p2pkNot, keys)}
		})
	}

	// seeded change C06-d (caught in round 2; kept here so that it does not depend on the seed): a version-1
	// witness program of 32 bytes nested in P2SH is NOT taproot; any witness spends it unless
	// DISCOURAGE_UPGRADABLE_WITNESS_PROGRAM is set. Also the neighbouring shapes (lengths 31/33, version 2).
	for _, shape := range []struct {
		ver  byte
		plen int
	}{{0x51, 32}, {0x51, 31}, {0x51, 33}, {0x52, 32}} {
		for _, fl := range []txscript.ScriptFlags{consensusAll, std, consensusAll &^ txscript.ScriptVerifyTaproot} {
			for witN := 0; witN <= 2; witN++ {
				witN := witN
				wp := cat([]byte{shape.ver}, pushBytes(rep(0x42, shape.plen)))
				pk := cat([]byte{0xa9, 0x14}, hash160(wp), []byte{0x87})
				out = append(out, caseSpec{class: "gen:regress:nested-v1-program", sp: rawSpend(r, sh, fl, pk,
					func(*wire.MsgTx, int, *txscript.MultiPrevOutFetcher, []*wire.TxOut) ([]byte, wire.TxWitness) {
						var wit wire.TxWitness
						for j := 0; j < witN; j++ {
							wit = append(wit, rep(byte(0x60+j), 1+j*63))
						}
						return pushBytes(wp), wit
					})})
			}
		}
	}
	return out
}

// offCurveKey turns a compressed key into a correctly formatted 33-byte key whose x coordinate has no
// point on the curve.
func offCurveKey(comp []byte) []byte {
	k := append([]byte{}, comp...)
	for i := 0; i < 256; i++ {
		k[32] = byte(i)
		if _, err := btcec.ParsePubKey(k); err != nil {
			return k
		}
	}
	panic("no off-curve key found")
}
