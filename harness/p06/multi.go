package p06

import (
	"bytes"
	"fmt"
	"sync"

	"github.com/btcsuite/btcd/btcec/v2"
	"github.com/btcsuite/btcd/btcec/v2/schnorr"
	"github.com/btcsuite/btcd/chainhash/v2"
	"github.com/btcsuite/btcd/txscript/v2"
	"github.com/btcsuite/btcd/wire/v2"
	"verifharness/core"
)

// genMultiInput builds transactions whose inputs differ in every respect (script class, wrapper / signature
// version, key, key encoding, hash type, amount, sequence), all signed against the one shared transaction.
// One input may be deliberately wrong, at the first, a middle or the last position.
func genMultiInput(g *core.Gen, r *core.Rand, keys []keyT, n int) []caseSpec {
	var out []caseSpec
	for c := 0; c < n; c++ {
		nIn := 2 + r.Intn(4)
		tx := wire.NewMsgTx(int32(r.Pick(1, 2, 2)))
		tx.LockTime = uint32(r.Pick(0, 0, 5))
		spent := make([]*wire.TxOut, nIn)
		for i := 0; i < nIn; i++ {
			var h chainhash.Hash
			copy(h[:], r.Bytes(32))
			in := wire.NewTxIn(wire.NewOutPoint(&h, uint32(r.Intn(3))), nil, nil)
			in.Sequence = uint32(r.Pick(0xffffffff, 0xfffffffe, 0, 7))
			tx.AddTxIn(in)
		}
		for i := r.Intn(nIn + 2); i > 0; i-- {
			tx.AddTxOut(wire.NewTxOut(int64(r.Intn(90000)), cat([]byte{0, 0x14}, r.Bytes(20))))
		}
		flags := pickFlags(r)
		bad := -1
		if r.Chance(1, 3) {
			bad = int(r.Pick(0, int64(nIn/2), int64(nIn-1)))
		}
		swap := r.Chance(1, 8) // the same key twice: signatures of two inputs exchanged
		type placed struct {
			b    *builtSpend
			kind int
			key  keyT
			ht   byte
			pk   []byte
		}
		ps := make([]placed, nIn)
		for i := 0; i < nIn; i++ {
			k := keys[r.Intn(3)]
			if swap && i < 2 {
				k = keys[0]
			}
			kind := r.Intn(6)
			if swap && i < 2 {
				kind = 0
			}
			amount := r.Pick(0, 1, 600, 123456, 2099999997690000)
			p := placed{kind: kind, key: k}
			switch kind {
			case 0, 1, 2, 3: // <pk> CHECKSIG under bare / P2SH / P2WSH / P2SH-P2WSH
				p.pk = k.comp
				if r.Chance(1, 4) && kind < 2 {
					p.pk = k.uncomp
				}
				p.ht = byte(r.Pick(1, 2, 3, 0x81, 0x82, 0x83))
				p.b = buildInto(tx, spent, i, kind, cat(pushBytes(p.pk), []byte{0xac}), amount, flags, nil)
			case 4: // tapscript <xonly> CHECKSIG
				p.ht = byte(r.Pick(0, 1, 2, 3, 0x81, 0x82, 0x83))
				tap := &tapInfo{internal: keys[(i+1)%3].priv.PubKey(), leafVer: 0xc0}
				if r.Bool() {
					tap.path = [][]byte{r.Bytes(32)}
				}
				p.b = buildInto(tx, spent, i, wTapscript, cat(pushBytes(k.xonly), []byte{0xac}), amount, flags, tap)
			default: // taproot key path
				p.ht = byte(r.Pick(0, 1, 3, 0x81, 0x83))
				q := txscript.ComputeTaprootOutputKey(k.priv.PubKey(), nil)
				spent[i] = &wire.TxOut{Value: amount, PkScript: cat([]byte{0x51, 0x20}, schnorr.SerializePubKey(q))}
			}
			ps[i] = p
		}
		// sign (every spent output is known now)
		fetchMap := map[wire.OutPoint]*wire.TxOut{}
		for i, in := range tx.TxIn {
			fetchMap[in.PreviousOutPoint] = spent[i]
		}
		fetcher := txscript.NewMultiPrevOutFetcher(fetchMap)
		sigs := make([][]byte, nIn)
		for i, p := range ps {
			plan := sigPlan{key: p.key, ht: p.ht}
			if i == bad {
				plan.wrongMsg = true
			}
			switch {
			case p.kind <= 3:
				sigs[i] = p.b.ecdsaSig(plan, p.b.script, keys)
			case p.kind == 4:
				sigs[i] = p.b.schnorrSig(plan, 0xffffffff, keys)
			default:
				hs := txscript.NewTxSigHashes(tx, fetcher)
				d, err := txscript.VerifTaprootKeySpendSigHashC06(hs, txscript.SigHashType(p.ht), tx, i, fetcher, nil)
				if err != nil {
					d = make([]byte, 32)
				}
				if i == bad {
					d[0] ^= 1
				}
				tw := txscript.TweakTaprootPrivKey(*p.key.priv, nil)
				sg, err := schnorr.Sign(tw, d)
				if err != nil {
					panic(err)
				}
				sigs[i] = sg.Serialize()
				if p.ht != 0 {
					sigs[i] = append(sigs[i], p.ht)
				}
			}
		}
		if swap {
			sigs[0], sigs[1] = sigs[1], sigs[0]
		}
		for i, p := range ps {
			if p.kind <= 4 {
				p.b.finish([][]byte{sigs[i]}, nil)
			} else {
				tx.TxIn[i].Witness = wire.TxWitness{sigs[i]}
			}
		}
		sp := &spend{flags: flags, tx: tx, idx: 0, spent: spent}
		out = append(out, caseSpec{class: "gen:multi-input", sp: sp, whole: true, multi: true})
		for i := range tx.TxIn {
			out = append(out, caseSpec{class: "gen:multi-input:input", sp: &spend{flags: flags, tx: tx, idx: i, spent: spent}})
		}
	}
	return out
}

// runMulti: one SigCache, one TxSigHashes, one fetcher, one transaction object and one flags value are created
// once and used for every input, three times sequentially and then from one goroutine per input, three times
// each. Every call must give the verdict of a fresh engine on that input, and the caller's objects must be
// unchanged afterwards.
func (s *spend) runMulti() string {
	n := len(s.tx.TxIn)
	if len(s.spent) != n {
		return "bad-op"
	}
	want := make([]string, n)
	all := "ok"
	for i := 0; i < n; i++ {
		si := &spend{flags: s.flags, tx: s.tx, idx: i, spent: s.spent}
		want[i] = si.runBtcd()
		if want[i] != "ok" && all == "ok" {
			all = want[i]
		}
	}
	before := txBytes(s.tx)
	pks := make([][]byte, n)
	for i, o := range s.spent {
		pks[i] = append([]byte{}, o.PkScript...)
	}
	f := s.fetcher()
	sc := txscript.NewSigCache(64)
	hc := txscript.NewTxSigHashes(s.tx, f)
	one := func(i int) string {
		vm, err := txscript.NewEngine(s.spent[i].PkScript, s.tx, i, s.flags, sc, hc, s.spent[i].Value, f)
		if err != nil {
			return "err"
		}
		return verdict(vm.Execute())
	}
	for rep := 0; rep < 3; rep++ {
		for i := 0; i < n; i++ {
			if got := one(i); got != want[i] {
				return fmt.Sprintf("incons:shared-seq:%d:%s/%s", i, got, want[i])
			}
		}
	}
	var wg sync.WaitGroup
	bad := make(chan string, n*3+1)
	for i := 0; i < n; i++ {
		wg.Add(1)
		go func(i int) {
			defer wg.Done()
			defer func() {
				if recover() != nil {
					bad <- "panic"
				}
			}()
			for rep := 0; rep < 3; rep++ {
				if got := one(i); got != want[i] {
					bad <- fmt.Sprintf("race:shared:%d:%s/%s", i, got, want[i])
					return
				}
			}
		}(i)
	}
	wg.Wait()
	close(bad)
	for b := range bad {
		return b
	}
	if !bytes.Equal(before, txBytes(s.tx)) {
		return "incons:tx-mutated"
	}
	for i, o := range s.spent {
		if !bytes.Equal(pks[i], o.PkScript) {
			return "incons:pkscript-mutated"
		}
	}
	return all
}

var _ = btcec.S256
