package p06

import (
	"strings"

	"github.com/btcsuite/btcd/btcec/v2/ecdsa"
	"github.com/btcsuite/btcd/txscript/v2"
)

// laxDerParses reports whether Bitcoin Core's ecdsa_signature_parse_der_lax accepts the byte string
// (structure only; the values do not matter here).
func laxDerParses(in []byte) bool {
	pos := 0
	n := len(in)
	if pos == n || in[pos] != 0x30 {
		return false
	}
	pos++
	if pos == n {
		return false
	}
	lb := int(in[pos])
	pos++
	if lb&0x80 != 0 {
		lb -= 0x80
		if lb > n-pos {
			return false
		}
		pos += lb
	}
	readInt := func() bool {
		if pos == n || in[pos] != 0x02 {
			return false
		}
		pos++
		if pos == n {
			return false
		}
		lb := int(in[pos])
		pos++
		l := 0
		if lb&0x80 != 0 {
			lb -= 0x80
			if lb > n-pos {
				return false
			}
			for lb > 0 && in[pos] == 0 {
				pos++
				lb--
			}
			if lb >= 4 {
				return false
			}
			for lb > 0 {
				l = l<<8 + int(in[pos])
				pos++
				lb--
			}
		} else {
			l = lb
		}
		if l > n-pos {
			return false
		}
		pos += l
		return true
	}
	return readInt() && readInt()
}

// spendData lists every data element a signature could come from: pushes of the scriptSig, the witness
// items of the input, and pushes of the locking / redeem script.
func spendData(s *spend) [][]byte {
	var out [][]byte
	in := s.tx.TxIn[s.idx]
	t := txscript.MakeScriptTokenizer(0, in.SignatureScript)
	for t.Next() {
		if t.Opcode() <= txscript.OP_PUSHDATA4 {
			out = append(out, t.Data())
		}
	}
	for _, w := range in.Witness {
		out = append(out, w)
	}
	// data pushed by the locking script / a P2SH redeem script itself
	scripts := [][]byte{s.spent[s.idx].PkScript}
	if len(out) > 0 && txscript.IsPayToScriptHash(s.spent[s.idx].PkScript) {
		scripts = append(scripts, out[len(out)-len(in.Witness)-1])
	}
	for _, sc := range scripts {
		t := txscript.MakeScriptTokenizer(0, sc)
		for t.Next() {
			if t.Opcode() <= txscript.OP_PUSHDATA4 {
				out = append(out, t.Data())
			}
		}
	}
	return out
}

// ClassifyMismatch attributes a disagreement to a known finding only when the trigger of that finding
// is present in the spend and the direction of the disagreement is the one the finding explains.
func (P) ClassifyMismatch(line, goOut, leanOut string) string {
	f := strings.Fields(line)
	if len(f) < 3 {
		return ""
	}
	off, whole := 0, false
	switch f[1] {
	case "run", "par":
		off = 2
	case "runv":
		off = 3
	case "runtx", "valtx", "multi":
		off, whole = 2, true
	default:
		return ""
	}
	if len(f) != off+5 {
		return ""
	}
	var s *spend
	func() {
		defer func() { recover() }()
		s = parseSpend(f[off:])
	}()
	if s == nil || s.idx >= len(s.tx.TxIn) || len(s.spent) != len(s.tx.TxIn) {
		return ""
	}
	if goOut == leanOut || (goOut != "ok" && goOut != "err") || (leanOut != "ok" && leanOut != "err") {
		return ""
	}
	// F-C06-d: without DERSIG, Core parses signatures with its lax DER parser; btcd's BER parser
	// rejects some encodings that parser accepts (long-form lengths, wrong sequence length). The
	// signature check then gives false instead of true, which a following OP_NOT can turn either way.
	if s.flags&(txscript.ScriptVerifyDERSignatures|txscript.ScriptVerifyStrictEncoding|txscript.ScriptVerifyLowS) != 0 {
		return ""
	}
	idxs := []int{s.idx}
	if whole {
		idxs = nil
		for i := range s.tx.TxIn {
			idxs = append(idxs, i)
		}
	}
	for _, i := range idxs {
		s.idx = i
		for _, d := range spendData(s) {
			if len(d) < 2 {
				continue
			}
			body := d[:len(d)-1]
			if _, err := ecdsa.ParseSignature(body); err != nil && laxDerParses(body) {
				return "F-C06-d"
			}
		}
	}
	return ""
}
