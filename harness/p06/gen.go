package p06

import (
	"encoding/hex"
	"fmt"
	"os"
	"strings"
	"time"

	"github.com/btcsuite/btcd/txscript/v2"

	"verifharness/core"
)

var dbgLines []string

// emit records a case; with C06_DEBUG set, every line is also kept for debugAll.
func emit(g *core.Gen, class string, nontrivial bool, line string) {
	g.Case(class, nontrivial, line)
	if os.Getenv("C06_DEBUG") != "" {
		dbgLines = append(dbgLines, class+"\t"+line)
	}
}

// debugAll prints every Go/Lean disagreement (development aid; C06_DEBUG=1).
func debugAll() {
	if os.Getenv("C06_DEBUG") == "" {
		return
	}
	lines := make([]string, len(dbgLines))
	for i, l := range dbgLines {
		lines[i] = strings.SplitN(l, "\t", 2)[1]
	}
	outs, err := core.RunLean("C06", lines)
	if err != nil {
		fmt.Fprintln(os.Stderr, "debugAll:", err)
	}
	n := 0
	for i, l := range lines {
		if i >= len(outs) {
			break
		}
		goOut := func() (o string) {
			defer func() {
				if recover() != nil {
					o = "panic"
				}
			}()
			return P{}.Exec(l)
		}()
		if goOut != outs[i] {
			n++
			fmt.Fprintf(os.Stderr, "MISMATCH %s go=%s lean=%s\n  %s\n", strings.SplitN(dbgLines[i], "\t", 2)[0], goOut, outs[i], dbgShow(l))
		}
	}
	fmt.Fprintf(os.Stderr, "debugAll: %d mismatches of %d\n", n, len(lines))
	if p := os.Getenv("C06_DUMP_ALL"); p != "" {
		os.WriteFile(p, []byte(strings.Join(dbgLines, "\n")+"\n"), 0o644)
	}
	if p := os.Getenv("C06_DUMP_REGRESS"); p != "" {
		var b strings.Builder
		for i, l := range lines {
			if strings.HasPrefix(dbgLines[i], "gen:regress:") {
				b.WriteString("# " + strings.SplitN(dbgLines[i], "\t", 2)[0] + "\n" + l + "\n")
			}
		}
		os.WriteFile(p, []byte(b.String()), 0o644)
	}
}

func (P) Generate(g *core.Gen) {
	defer debugAll()
	// primitives: hashes, script numbers, tokenizer
	r := g.R
	for i := 0; i < g.N(150, 1500); i++ {
		n := int(r.Pick(0, 1, 20, 32, 55, 56, 57, 63, 64, 65, 119, 120, 128, 520, int64(r.Intn(700))))
		b := hexTok(r.Bytes(n))
		for _, op := range []string{"sha1", "ripemd160", "sha256", "hash160"} {
			emit(g, "prim:"+op, n > 0, "C06 "+op+" "+b)
		}
	}
	for i := 0; i < g.N(400, 4000); i++ {
		n := int(r.Pick(0, 1, 2, 3, 4, 4, 5, 5, 6, 8, 9))
		b := r.Bytes(n)
		if n > 0 && r.Chance(1, 2) {
			b[n-1] = byte(r.Pick(0, 0x80, 0x7f, 0xff, 1, 0x81))
		}
		if n > 1 && r.Chance(1, 3) {
			b[n-2] = byte(r.Pick(0, 0x80, 0x7f, 0xff))
		}
		emit(g, "prim:num", n > 0, fmt.Sprintf("C06 num %s %d %d", hexTok(b), r.Intn(2), r.Pick(4, 5)))
	}
	edges := []int64{0, 1, -1, 16, 17, 127, 128, -127, -128, 255, 256, 32767, 32768, -32768, 8388607, 8388608,
		2147483647, -2147483647, 2147483648, -2147483648, 4294967295, 4294967296, 549755813887, -549755813888}
	for _, e := range edges {
		emit(g, "prim:numenc", true, fmt.Sprintf("C06 numenc %d", e))
	}
	for i := 0; i < g.N(200, 2000); i++ {
		emit(g, "prim:numenc", true, fmt.Sprintf("C06 numenc %d", r.Range(-1<<40, 1<<40)))
	}
	for i := 0; i < g.N(300, 3000); i++ {
		s := r.Bytes(r.Intn(40))
		emit(g, "prim:tok", len(s) > 0, "C06 tok "+hexTok(s))
	}
	for _, l := range []string{"4e00000000", "4e01000000aa", "4effffff7f", "4e00000080", "4effffffff", "4e000000ff00", "4dffff", "4d0100", "4cff",
		"4e0000008000000000", "4effffffff" + "00000000", "4e02000000aa"} {
		g.Case("prim:tok", true, "C06 tok "+l)
		g.Case("prim:classify", true, "C06 classify "+l)
	}
	_ = hex.EncodeToString
	// script classifiers
	ckeys := makeKeys(r.Fork(), 3)
	for i := 0; i < g.N(600, 6000); i++ {
		var sc []byte
		switch r.Intn(6) {
		case 0:
			sc = soupScript(r, ckeys, r.Bool(), 4)
		case 1: // witness-program shaped
			ver := byte(r.Pick(0, 0x4f, 0x50, 0x51, 0x52, 0x60, 0x61))
			n := int(r.Pick(0, 1, 2, 3, 20, 32, 39, 40, 41, 42))
			sc = cat([]byte{ver, byte(n)}, r.Bytes(n))
			if r.Chance(1, 6) {
				sc = cat([]byte{ver}, pushWith(0x4c, r.Bytes(n)))
			}
			if r.Chance(1, 8) {
				sc = append(sc, byte(r.Intn(256)))
			}
			if r.Chance(1, 6) {
				sc = []byte{0x51, 0x02, 0x4e, byte(r.Pick(0x73, 0x74))}
			}
		case 2: // P2SH shaped
			sc = cat([]byte{0xa9, byte(r.Pick(0x14, 0x14, 0x13, 0x15))}, r.Bytes(20), []byte{byte(r.Pick(0x87, 0x87, 0x88))})
		case 3: // push-only with every push encoding, sometimes truncated
			for k := r.Intn(5); k >= 0; k-- {
				d := r.Bytes(int(r.Pick(0, 1, 75, 76, 255, 256, 300)))
				switch r.Intn(4) {
				case 0:
					sc = append(sc, pushMin(d)...)
				case 1:
					sc = append(sc, pushWith(byte(r.Pick(0x4c, 0x4d, 0x4e)), d)...)
				case 2:
					sc = append(sc, byte(r.Pick(0x4f, 0x50, 0x51, 0x60, 0x61)))
				default:
					sc = append(sc, pushBytes(d)...)
				}
			}
			if r.Chance(1, 5) && len(sc) > 0 {
				sc = sc[:len(sc)-1]
			}
		case 4: // OP_SUCCESS candidates: as opcode, inside push data, after a truncated push
			op := byte(r.Pick(0x50, 0x62, 0x7e, 0x89, 0x8d, 0x95, 0xbb, 0xfe, 0xff, 0xba, 0x4f))
			switch r.Intn(4) {
			case 0:
				sc = cat(pushBytes([]byte{op, op}), []byte{0x51})
			case 1:
				sc = cat([]byte{0x51}, []byte{op})
			case 2:
				sc = cat([]byte{0x4c, 0x05, op}, []byte{op})
			default:
				sc = cat([]byte{op, 0x4d, 0xff})
			}
		default:
			sc = r.Bytes(r.Intn(45))
		}
		g.Case("prim:classify", len(sc) > 0, "C06 classify "+hexTok(sc))
	}

	// Bitcoin Core's own vectors
	var cs []caseSpec
	cs = append(cs, scriptTestCases()...)
	cs = append(cs, txTestCases("tx_valid.json", true)...)
	cs = append(cs, txTestCases("tx_invalid.json", false)...)
	every := g.N(10, 1)
	cs = append(cs, taprootRefCases(every, int(g.Seed%uint64(every)))...)
	cs = append(cs, mutateVectors(r.Fork(), cs, g.N(1, 6))...)
	// generated programs
	t0 := time.Now()
	tick := func(what string) {
		if os.Getenv("C06_TIMING") != "" {
			fmt.Fprintf(os.Stderr, "timing: %s %.1fs\n", what, time.Since(t0).Seconds())
		}
	}
	tick("vectors loaded")
	keys := makeKeys(r, 5)
	cs = append(cs, genRegress()...)
	cs = append(cs, genLimits(g, r, keys)...)
	cs = append(cs, genTaprootCoverage(g, r.Fork(), keys, g.N(5, 1))...)
	cs = append(cs, genSoup(g, r, keys, g.N(6000, 300000))...)
	cs = append(cs, genSigs(g, r, keys, g.N(4000, 180000))...)
	cs = append(cs, genWitnessMisc(g, r, keys, g.N(2000, 90000))...)
	cs = append(cs, genSweeps(g, r.Fork(), keys, g.N(7, 1))...)
	cs = append(cs, genMultiInput(g, r.Fork(), keys, g.N(300, 12000))...)
	tick("spends built")
	emitSpends(g, cs)
	tick("oracles resolved")
	sighashCases(g)
}

// dbgShow renders a spend line readably: flags, scriptSig, pkScript, witness.
func dbgShow(l string) string {
	f := strings.Fields(l)
	k := -1
	switch f[1] {
	case "run", "runtx":
		k = 2
	case "core", "coretx":
		k = 3
	}
	if k < 0 || len(f) < k+4 {
		if len(l) > 300 {
			return l[:300]
		}
		return l
	}
	defer func() { recover() }()
	s := parseSpend(f[k:])
	var fl []string
	for _, t := range flagTable {
		if s.flags&t.flag != 0 {
			fl = append(fl, t.core)
		}
	}
	dis := func(b []byte) string {
		d, _ := txscript.DisasmString(b)
		if len(d) > 400 {
			d = d[:400] + "..."
		}
		return d
	}
	var w []string
	for _, e := range s.tx.TxIn[s.idx].Witness {
		x := hex.EncodeToString(e)
		if len(x) > 80 {
			x = x[:80] + fmt.Sprintf("..(%d)", len(e))
		}
		w = append(w, x)
	}
	return fmt.Sprintf("[%s] idx=%d sig={%s} pk={%s} wit=%v nOracle=%d", strings.Join(fl, ","), s.idx,
		dis(s.tx.TxIn[s.idx].SignatureScript), dis(s.spent[s.idx].PkScript), w, strings.Count(f[len(f)-1], "="))
}
