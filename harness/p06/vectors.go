package p06

import (
	"bytes"
	"encoding/binary"
	"encoding/hex"
	"encoding/json"
	"fmt"
	"os"
	"path/filepath"
	"sort"
	"strconv"
	"strings"

	"github.com/btcsuite/btcd/chainhash/v2"
	"github.com/btcsuite/btcd/txscript/v2"
	"github.com/btcsuite/btcd/wire/v2"
	"verifharness/core"
)

// caseSpec is one spend to be emitted as a `run` line (btcd vs Lean) and, when Bitcoin Core's own result
// is known, a `core` line (Core vs Lean).
type caseSpec struct {
	class    string
	sp       *spend
	expected string // "", "OK", "FAIL" or a Core error class
	whole    bool   // all inputs of the transaction (runtx / coretx)
	multi    bool   // additionally the shared-objects op
}

// ---- short-form script syntax of Core's JSON vectors

func pushNum(n int64) []byte {
	switch {
	case n == 0:
		return []byte{0}
	case n == -1 || (n >= 1 && n <= 16):
		return []byte{byte(0x50 + n)}
	}
	return pushBytes(scriptNumBytes(n))
}

func scriptNumBytes(n int64) []byte {
	if n == 0 {
		return nil
	}
	neg := n < 0
	u := uint64(n)
	if neg {
		u = uint64(-n)
	}
	var out []byte
	for u > 0 {
		out = append(out, byte(u))
		u >>= 8
	}
	if out[len(out)-1]&0x80 != 0 {
		if neg {
			out = append(out, 0x80)
		} else {
			out = append(out, 0)
		}
	} else if neg {
		out[len(out)-1] |= 0x80
	}
	return out
}

// pushBytes is `CScript() << vector`: size-directed push, never OP_N.
func pushBytes(d []byte) []byte {
	n := len(d)
	var out []byte
	switch {
	case n < 0x4c:
		out = []byte{byte(n)}
	case n <= 0xff:
		out = []byte{0x4c, byte(n)}
	case n <= 0xffff:
		out = []byte{0x4d, byte(n), byte(n >> 8)}
	default:
		out = []byte{0x4e, byte(n), byte(n >> 8), byte(n >> 16), byte(n >> 24)}
	}
	return append(out, d...)
}

var shortOps map[string]byte

func parseShortForm(script string) ([]byte, error) {
	if shortOps == nil {
		shortOps = map[string]byte{}
		for i, name := range coreOpNames {
			if name == "" {
				continue
			}
			val := byte(0x4c + i)
			shortOps["OP_"+name] = val
			if val < 0x51 || val > 0x60 {
				shortOps[name] = val
			}
		}
		shortOps["OP_0"], shortOps["OP_FALSE"], shortOps["FALSE"] = 0, 0, 0
		shortOps["OP_TRUE"], shortOps["TRUE"] = 0x51, 0x51
		shortOps["OP_NOP2"], shortOps["NOP2"], shortOps["OP_NOP3"], shortOps["NOP3"] = 0xb1, 0xb1, 0xb2, 0xb2
	}
	script = strings.NewReplacer("\n", " ", "\t", " ").Replace(script)
	var out []byte
	for _, tok := range strings.Split(script, " ") {
		if tok == "" {
			continue
		}
		if n, err := strconv.ParseInt(tok, 10, 64); err == nil {
			out = append(out, pushNum(n)...)
		} else if strings.HasPrefix(tok, "0x") {
			b, err := hex.DecodeString(tok[2:])
			if err != nil {
				return nil, fmt.Errorf("bad hex token %q", tok)
			}
			out = append(out, b...)
		} else if len(tok) >= 2 && tok[0] == '\'' && tok[len(tok)-1] == '\'' {
			out = append(out, pushBytes([]byte(tok[1:len(tok)-1]))...)
		} else if op, ok := shortOps[tok]; ok {
			out = append(out, op)
		} else {
			return nil, fmt.Errorf("bad token %q", tok)
		}
	}
	return out, nil
}

// creditSpend builds Core's script_tests transaction pair (BuildCreditingTransaction / BuildSpendingTransaction).
func creditSpend(scriptSig, pkScript []byte, witness [][]byte, amount int64) (*wire.MsgTx, *wire.TxOut) {
	credit := wire.NewMsgTx(1)
	credit.AddTxIn(wire.NewTxIn(wire.NewOutPoint(&chainhash.Hash{}, ^uint32(0)), []byte{0, 0}, nil))
	credit.AddTxOut(wire.NewTxOut(amount, pkScript))
	h := credit.TxHash()
	sp := wire.NewMsgTx(1)
	sp.AddTxIn(wire.NewTxIn(wire.NewOutPoint(&h, 0), scriptSig, witness))
	sp.AddTxOut(wire.NewTxOut(amount, nil))
	return sp, credit.TxOut[0]
}

func dataPath(name string) string { return filepath.Join(repoDir(), "txscript", "data", name) }

func scriptTestCases() []caseSpec {
	raw, err := os.ReadFile(dataPath("script_tests.json"))
	if err != nil {
		panic(err)
	}
	var tests [][]interface{}
	if err := json.Unmarshal(raw, &tests); err != nil {
		panic(err)
	}
	var out []caseSpec
	for _, t := range tests {
		if len(t) < 4 {
			continue
		}
		var witness [][]byte
		var amount int64
		off := 0
		placeholder := false
		if w, ok := t[0].([]interface{}); ok {
			off = 1
			for _, e := range w[:len(w)-1] {
				s := e.(string)
				if strings.Contains(s, "#") {
					placeholder = true
					break
				}
				b, err := hex.DecodeString(s)
				if err != nil {
					panic(err)
				}
				witness = append(witness, b)
			}
			f := w[len(w)-1].(float64)
			amount = int64(f*1e8 + 0.5)
		}
		sigS, pkS, flagS, exp := t[off].(string), t[off+1].(string), t[off+2].(string), t[off+3].(string)
		if placeholder || strings.Contains(sigS, "#") || strings.Contains(pkS, "#") {
			continue // Core-internal taproot placeholder macros; covered by taproot-ref
		}
		sig, err := parseShortForm(sigS)
		if err != nil {
			panic(err)
		}
		pk, err := parseShortForm(pkS)
		if err != nil {
			panic(err)
		}
		fl, err := parseCoreFlags(flagS)
		if err != nil {
			panic(err)
		}
		tx, prev := creditSpend(sig, pk, witness, amount)
		out = append(out, caseSpec{class: "vec:script_tests", expected: exp,
			sp: &spend{flags: fl, tx: tx, idx: 0, spent: []*wire.TxOut{prev}}})
	}
	return out
}

func txTestCases(file string, valid bool) []caseSpec {
	raw, err := os.ReadFile(dataPath(file))
	if err != nil {
		panic(err)
	}
	var tests [][]interface{}
	if err := json.Unmarshal(raw, &tests); err != nil {
		panic(err)
	}
	var out []caseSpec
	for _, t := range tests {
		inputs, ok := t[0].([]interface{})
		if !ok || len(t) != 3 {
			continue
		}
		txb, err := hex.DecodeString(t[1].(string))
		if err != nil {
			panic(err)
		}
		var tx wire.MsgTx
		if err := tx.Deserialize(bytes.NewReader(txb)); err != nil {
			continue
		}
		flagS := t[2].(string)
		if strings.Contains(flagS, "BADTX") {
			continue // context-free transaction sanity, not script semantics
		}
		fl, err := parseCoreFlags(flagS)
		if err != nil {
			panic(err)
		}
		if valid {
			fl = allFlags &^ fl
		}
		prevs := map[wire.OutPoint]*wire.TxOut{}
		for _, in := range inputs {
			e := in.([]interface{})
			h, err := chainhash.NewHashFromStr(e[0].(string))
			if err != nil {
				panic(err)
			}
			idx := uint32(int32(e[1].(float64)))
			sc, err := parseShortForm(e[2].(string))
			if err != nil {
				panic(err)
			}
			var amt int64
			if len(e) >= 4 {
				amt = int64(e[3].(float64))
			}
			prevs[wire.OutPoint{Hash: *h, Index: idx}] = &wire.TxOut{Value: amt, PkScript: sc}
		}
		var spent []*wire.TxOut
		okAll := true
		for _, in := range tx.TxIn {
			p, ok := prevs[in.PreviousOutPoint]
			if !ok {
				okAll = false
				break
			}
			spent = append(spent, p)
		}
		if !okAll || len(tx.TxIn) == 0 {
			continue
		}
		txc := tx
		exp := "FAIL"
		if valid {
			exp = "OK"
		}
		out = append(out, caseSpec{class: "vec:" + strings.TrimSuffix(file, ".json"), expected: exp, whole: true,
			sp: &spend{flags: fl, tx: &txc, idx: 0, spent: spent}})
		for i := range tx.TxIn {
			e := ""
			if valid {
				e = "OK"
			}
			out = append(out, caseSpec{class: "vec:" + strings.TrimSuffix(file, ".json") + ":input", expected: e,
				sp: &spend{flags: fl, tx: &txc, idx: i, spent: spent}})
		}
	}
	return out
}

type taprootVec struct {
	Tx       string   `json:"tx"`
	Prevouts []string `json:"prevouts"`
	Index    int      `json:"index"`
	Flags    string   `json:"flags"`
	Comment  string   `json:"comment"`
	Success  *struct {
		ScriptSig string   `json:"scriptSig"`
		Witness   []string `json:"witness"`
	} `json:"success"`
	Failure *struct {
		ScriptSig string   `json:"scriptSig"`
		Witness   []string `json:"witness"`
	} `json:"failure"`
}

// taprootRefCases loads data/taproot-ref; `every` selects one file in `every` (by sorted order, offset by seed).
func taprootRefCases(every int, offset int) []caseSpec {
	dir := dataPath("taproot-ref")
	ents, err := os.ReadDir(dir)
	if err != nil {
		panic(err)
	}
	names := []string{}
	for _, e := range ents {
		if !e.IsDir() {
			names = append(names, e.Name())
		}
	}
	sort.Strings(names)
	var out []caseSpec
	for k, n := range names {
		if every > 1 && (k+offset)%every != 0 {
			continue
		}
		raw, err := os.ReadFile(filepath.Join(dir, n))
		if err != nil {
			panic(err)
		}
		raw = bytes.TrimSuffix(bytes.TrimSpace(raw), []byte(","))
		var v taprootVec
		if err := json.Unmarshal(raw, &v); err != nil {
			panic(fmt.Sprintf("%s: %v", n, err))
		}
		txb, _ := hex.DecodeString(v.Tx)
		var tx wire.MsgTx
		if err := tx.Deserialize(bytes.NewReader(txb)); err != nil {
			panic(err)
		}
		var spent []*wire.TxOut
		for _, p := range v.Prevouts {
			pb, _ := hex.DecodeString(p)
			var o wire.TxOut
			if err := wire.ReadTxOut(bytes.NewReader(pb), 0, 0, &o); err != nil {
				panic(err)
			}
			oc := o
			spent = append(spent, &oc)
		}
		fl, err := parseCoreFlags(v.Flags)
		if err != nil {
			panic(err)
		}
		mk := func(ss string, wit []string, exp string) {
			txc := tx.Copy()
			txc.TxIn[v.Index].SignatureScript, _ = hex.DecodeString(ss)
			var w [][]byte
			for _, e := range wit {
				b, _ := hex.DecodeString(e)
				w = append(w, b)
			}
			txc.TxIn[v.Index].Witness = w
			cls := "vec:taproot-ref:" + strings.SplitN(v.Comment, "/", 2)[0]
			out = append(out, caseSpec{class: cls, expected: exp,
				sp: &spend{flags: fl, tx: txc, idx: v.Index, spent: spent}})
		}
		if v.Success != nil {
			mk(v.Success.ScriptSig, v.Success.Witness, "OK")
		}
		if v.Failure != nil {
			mk(v.Failure.ScriptSig, v.Failure.Witness, "FAIL")
		}
	}
	return out
}

// emitSpends resolves the oracle tables of all spends in one batch and records the protocol lines.
func emitSpends(g *core.Gen, cs []caseSpec) {
	bases := make([]string, len(cs))
	whole := make([]bool, len(cs))
	for i, c := range cs {
		bases[i] = c.sp.base()
		whole[i] = c.whole
	}
	oracles := resolveOracles(bases, whole)
	for i, c := range cs {
		runOp, coreOp := "run", "core"
		if c.whole {
			runOp, coreOp = "runtx", "coretx"
		}
		nontrivial := len(c.sp.tx.TxIn[c.sp.idx].SignatureScript)+len(c.sp.spent[c.sp.idx].PkScript) > 0
		emit(g, c.class, nontrivial, fmt.Sprintf("C06 %s %s %s", runOp, bases[i], oracles[i]))
		// other ways of driving the exported API on the same input
		if c.whole {
			skip := false
			for _, in := range c.sp.tx.TxIn {
				if in.PreviousOutPoint.Index == ^uint32(0) {
					skip = true // ValidateTransactionScripts treats such inputs as coinbase inputs
				}
			}
			if !skip {
				emit(g, "api:validate-tx", nontrivial, fmt.Sprintf("C06 valtx %s %s", bases[i], oracles[i]))
			}
			if c.multi {
				emit(g, "api:shared-objects", nontrivial, fmt.Sprintf("C06 multi %s %s", bases[i], oracles[i]))
			}
		} else {
			if i%12 == 0 {
				emit(g, "api:variant", nontrivial, fmt.Sprintf("C06 runv %d %s %s", (i/12)%nVariants, bases[i], oracles[i]))
			}
			if pk := c.sp.spent[c.sp.idx].PkScript; len(pk) == 34 && pk[0] == 0x51 && pk[1] == 0x20 && i%12 == 1 {
				emit(g, "api:taproot-helpers", nontrivial, fmt.Sprintf("C06 runv %d %s %s", []int{10, 11, 4}[(i/12)%3], bases[i], oracles[i]))
			}
			if strings.HasPrefix(c.class, "gen:sig:") && i%12 == 2 {
				emit(g, "api:sigcache-other-tx", nontrivial, fmt.Sprintf("C06 runv 9 %s %s", bases[i], oracles[i]))
			}
			if strings.HasPrefix(c.class, "gen:sig:") && c.sp.flags == txscript.StandardVerifyFlags && i%12 == 3 {
				emit(g, "api:parallel-lows", nontrivial, fmt.Sprintf("C06 par %s %s", bases[i], oracles[i]))
			}
			if i%48 == 5 {
				emit(g, "api:parallel", nontrivial, fmt.Sprintf("C06 par %s %s", bases[i], oracles[i]))
			}
		}
		if c.expected != "" {
			emit(g, c.class+":core", nontrivial, fmt.Sprintf("C06 %s %s %s %s", coreOp, c.expected, bases[i], oracles[i]))
		}
	}
}

func sighashCases(g *core.Gen) {
	raw, err := os.ReadFile(dataPath("sighash.json"))
	if err != nil {
		panic(err)
	}
	var tests [][]interface{}
	if err := json.Unmarshal(raw, &tests); err != nil {
		panic(err)
	}
	for _, t := range tests {
		if len(t) != 5 {
			continue
		}
		ht := uint32(int32(t[3].(float64)))
		exp, _ := hex.DecodeString(t[4].(string))
		for i, j := 0, len(exp)-1; i < j; i, j = i+1, j-1 {
			exp[i], exp[j] = exp[j], exp[i]
		}
		sc := t[1].(string)
		if sc == "" {
			sc = "-"
		}
		args := fmt.Sprintf("sighash legacy %s %d %s %d", t[0].(string), int(t[2].(float64)), sc, ht)
		emit(g, "vec:sighash", true, "C06 "+args)
		emit(g, "vec:sighash:core", true, "C06 expect "+hex.EncodeToString(exp)+" "+args)
	}
}

// mutateVectors derives new spends from Core's vectors: the same scripts under another reachable flag set,
// and scripts / witness items with one byte substituted, inserted or deleted. Core recorded no result for
// these, so they only compare btcd with the Lean model in the neighbourhood of Core's hand-picked cases.
func mutateVectors(r *core.Rand, base []caseSpec, perCase int) []caseSpec {
	var out []caseSpec
	mutBytes := func(b []byte) []byte {
		c := append([]byte{}, b...)
		if len(c) == 0 {
			return []byte{byte(r.Intn(256))}
		}
		i := r.Intn(len(c))
		switch r.Intn(4) {
		case 0:
			c[i] ^= byte(1 << uint(r.Intn(8)))
		case 1:
			c[i] = byte(r.Pick(0x00, 0x51, 0x61, 0x63, 0x64, 0x67, 0x68, 0x69, 0x6a, 0x75, 0x76, 0x87, 0x91, 0xac, 0xad, 0xae, 0xba, int64(r.Intn(256))))
		case 2:
			c = append(c[:i], c[i+1:]...)
		default:
			c = append(c[:i], append([]byte{byte(r.Pick(0x00, 0x51, 0x61, 0x75, 0x76, 0x91, int64(r.Intn(256))))}, c[i:]...)...)
		}
		return c
	}
	for _, c := range base {
		if c.whole || c.sp.idx >= len(c.sp.tx.TxIn) {
			continue
		}
		for k := 0; k < perCase; k++ {
			tx := c.sp.tx.Copy()
			spent := make([]*wire.TxOut, len(c.sp.spent))
			for i, o := range c.sp.spent {
				oc := *o
				spent[i] = &oc
			}
			fl := c.sp.flags
			in := tx.TxIn[c.sp.idx]
			what := r.Intn(5)
			switch {
			case what == 0:
				fl = pickFlags(r)
			case what == 1:
				in.SignatureScript = mutBytes(in.SignatureScript)
			case what == 2:
				spent[c.sp.idx].PkScript = mutBytes(spent[c.sp.idx].PkScript)
			case what == 3 && len(in.Witness) > 0:
				w := make(wire.TxWitness, len(in.Witness))
				copy(w, in.Witness)
				j := r.Intn(len(w))
				w[j] = mutBytes(w[j])
				in.Witness = w
			default:
				fl = pickFlags(r)
				in.SignatureScript = mutBytes(in.SignatureScript)
			}
			// keep to flag sets the node can use
			if !reachableFlags(fl) {
				fl = pickFlags(r)
			}
			out = append(out, caseSpec{class: strings.Replace(c.class, "vec:", "mut:", 1),
				sp: &spend{flags: fl, tx: tx, idx: c.sp.idx, spent: spent}})
		}
	}
	return out
}

// reachableFlags: a combination of the consensus groups (WITNESS with NULLDUMMY and only with P2SH) or the
// standard policy set.
func reachableFlags(fl txscript.ScriptFlags) bool {
	if fl == txscript.StandardVerifyFlags {
		return true
	}
	if fl&^consensusAll != 0 {
		return false
	}
	w := fl&txscript.ScriptVerifyWitness != 0
	nd := fl&txscript.ScriptStrictMultiSig != 0
	if w != nd {
		return false
	}
	if w && fl&txscript.ScriptBip16 == 0 {
		return false
	}
	return true
}

var _ = binary.LittleEndian

// coreOpNames: Bitcoin Core's opcode names (script.cpp GetOpName) from OP_PUSHDATA1 (0x4c) upwards; the vectors'
// short form is Core's, so the table is the harness's own and not read from btcd.
var coreOpNames = strings.Fields(`PUSHDATA1 PUSHDATA2 PUSHDATA4 1NEGATE RESERVED 1 2 3 4 5 6 7 8 9 10 11 12 13 14 15 16
NOP VER IF NOTIF VERIF VERNOTIF ELSE ENDIF VERIFY RETURN TOALTSTACK FROMALTSTACK 2DROP 2DUP 3DUP 2OVER 2ROT 2SWAP
IFDUP DEPTH DROP DUP NIP OVER PICK ROLL ROT SWAP TUCK CAT SUBSTR LEFT RIGHT SIZE INVERT AND OR XOR EQUAL EQUALVERIFY
RESERVED1 RESERVED2 1ADD 1SUB 2MUL 2DIV NEGATE ABS NOT 0NOTEQUAL ADD SUB MUL DIV MOD LSHIFT RSHIFT BOOLAND BOOLOR
NUMEQUAL NUMEQUALVERIFY NUMNOTEQUAL LESSTHAN GREATERTHAN LESSTHANOREQUAL GREATERTHANOREQUAL MIN MAX WITHIN RIPEMD160
SHA1 SHA256 HASH160 HASH256 CODESEPARATOR CHECKSIG CHECKSIGVERIFY CHECKMULTISIG CHECKMULTISIGVERIFY NOP1
CHECKLOCKTIMEVERIFY CHECKSEQUENCEVERIFY NOP4 NOP5 NOP6 NOP7 NOP8 NOP9 NOP10 CHECKSIGADD`)
