#!/usr/bin/env python3
"""Regenerates MANIFEST.json from meta/Cxx.json (one file per property) so that the manifest is always valid.
A property is claimed iff meta/Cxx.json exists and has "claimed": true; every other property of properties.jsonl
is listed under not_applicable with its reason (meta "not_claimed_reason", else 'not built yet')."""
import json, os, subprocess
V = os.path.dirname(os.path.abspath(__file__))
props = [json.loads(l) for l in open(os.path.join(V, "properties.jsonl"))]
hooks = subprocess.run(["git", "-C", "/repo", "log", "--format=%H %s"], stdout=subprocess.PIPE, text=True).stdout.splitlines()
hook_commits = [l.split()[0] for l in hooks if " verif hooks:" in " " + l.split(" ", 1)[1] or l.split(" ", 1)[1].startswith("verif hooks")]
baseline = json.load(open("/root/.vp/BASELINE.json"))["cmd"]
checks, na = [], []
for p in props:
    pid = p["id"]
    mp = os.path.join(V, "meta", pid + ".json")
    meta = json.load(open(mp)) if os.path.exists(mp) else {}
    if not meta.get("claimed"):
        na.append({"property_id": pid, "reason": meta.get("not_claimed_reason", "not claimed yet: the Lean model/theorems and correspondence for this property are still being built (see DESIGN.md section 6)")})
        continue
    checks.append({
        "property_id": pid,
        "quick_cmd": f"./check {pid} --tier quick",
        "thorough_cmd": f"./check {pid} --tier thorough",
        "evidence_file": f"/verif/evidence/{pid}.json",
        "replay_cmd_template": f"./check {pid} --replay {{path}}",
        "engine": "lean4+correspondence",
        "level_claimed": {"category": "proof", "text": meta["level_text"], "design_ref": meta.get("design_ref", "DESIGN.md section 6, " + pid)},
        "level_note": meta["level_note"],
        "technique": meta.get("technique", "Lean 4 theorems about a hand-written model + differential correspondence of the model's executable definitions against the Go code, regenerated constants pinned by theorems"),
    })
man = {
    "version": 1,
    "setup_cmd": "./setup.sh",
    "hooks": {"guard": "verif", "enable": "go build -tags verif (harness module replaces all btcd modules with /repo)",
              "baseline_off_cmd": baseline, "source_commits": hook_commits, "add_only": True},
    "engines": [{"name": "lean4+correspondence", "path": "/verif/check",
                 "serves_properties": [c["property_id"] for c in checks],
                 "kind_free_text": "Lean 4 (core + single Mathlib modules) theorems in lean/BV/Cxx/Props.lean over executable models; Go harness (harness/pXX) runs the real code and the compiled Lean driver (bvdrv) on the same protocol lines and diffs; constants regenerated from the tree into lean/BV/Generated and pinned by theorems"}],
    "checks": checks,
    "notes": "See DESIGN.md. known_findings.json lists recorded findings; replays/ receives replay files.",
    "not_applicable": na,
}
json.dump(man, open(os.path.join(V, "MANIFEST.json"), "w"), indent=1)
print(f"{len(checks)} claimed, {len(na)} not claimed")
