#!/bin/bash
# runs every claimed check (quick by default) sequentially and prints a summary table
cd /verif
TIER=${1:-quick}
for p in $(python3 -c "import json;print(' '.join(c['property_id'] for c in json.load(open('MANIFEST.json'))['checks']))"); do
  s=$(date +%s)
  out=$(./check $p --tier $TIER 2>/tmp/runall.$p.err); rc=$?
  e=$(date +%s)
  v=$(echo "$out" | grep -c '^VIOLATION'); k=$(echo "$out" | grep -c '^KNOWN-FINDING')
  echo "$p rc=$rc viol=$v known=$k wall=$((e-s))s $(tail -1 /tmp/runall.$p.err | cut -c1-120)"
done
