#!/usr/bin/env python3
"""Re-runs every seeded change under /verif/seeded against the current checks (scratch worktree of /repo HEAD +
patch.diff, VERIF_REPO) and records the outcome in seeded/<id>/meta.json under "recheck". Usage: recheck_seeds.py [ids…]"""
import glob, json, os, subprocess, sys, time
V = "/verif"
ids = sys.argv[1:] or sorted(os.path.basename(os.path.dirname(p)) for p in glob.glob(V + "/seeded/*/meta.json"))
def sh(cmd, cwd=None, env=None):
    p = subprocess.run(cmd, shell=True, cwd=cwd, env=env, stdout=subprocess.PIPE, stderr=subprocess.STDOUT, text=True)
    return p.returncode, p.stdout
vhead = sh("git -C /verif rev-parse --short HEAD")[1].strip()
rhead = sh("git -C /repo rev-parse --short HEAD")[1].strip()
for sid in ids:
    d = f"{V}/seeded/{sid}"
    meta = json.load(open(d + "/meta.json"))
    wt = "/tmp/recheck-" + sid.lower()
    sh(f"git -C /repo worktree remove --force {wt}")
    sh(f"git -C /repo worktree add -q {wt} HEAD")
    rc, out = sh(f"git apply {d}/patch.diff", cwd=wt)
    rec = {"verif_head": vhead, "repo_head": rhead, "at": time.strftime("%Y-%m-%dT%H:%M:%SZ", time.gmtime())}
    if rc != 0:
        rec["patch_applies"] = False
        rec["note"] = out[-300:]
    else:
        rec["patch_applies"] = True
        props = [meta.get("property", sid.split("-")[0])]
        if meta.get("detected_by_other_property"):
            props.append(meta["detected_by_other_property"])
        rec["checks"] = {}
        for p in props:
            rc, out = sh(f"./check {p}", cwd=V, env=dict(os.environ, VERIF_REPO=wt))
            rec["checks"][p] = {"exit": rc, "violation_lines": len([l for l in out.splitlines() if l.startswith("VIOLATION")])}
        rec["detected"] = any(c["exit"] == 1 and c["violation_lines"] > 0 for c in rec["checks"].values())
    meta["recheck"] = rec
    json.dump(meta, open(d + "/meta.json", "w"), indent=1)
    sh(f"git -C /repo worktree remove --force {wt}")
    print(sid, rec.get("detected"), rec.get("checks", rec.get("note")), flush=True)
