#!/usr/bin/env python3
"""mkseed.py <Cxx> <variant a|b|c...>  -> creates scratch worktree /tmp/seed-cxx-v and prompt /tmp/seedprompts/seed-cxx-v.md"""
import json, os, subprocess, sys
pid, var = sys.argv[1].upper(), sys.argv[2]
props = {json.loads(l)["id"]: json.loads(l) for l in open("/verif/properties.jsonl")}
p = props[pid]
name = f"seed-{pid.lower()}-{var}"
wt = f"/tmp/{name}"
if not os.path.exists(wt):
    subprocess.run(["git", "-C", "/repo", "worktree", "add", "-q", wt, "HEAD"], check=True)
stateful = pid in ("C01", "C02", "C03", "C04", "C05", "C10", "C12", "C18", "C19")
focus = {
 ("s", "a"): "a particular MULTI-STEP history (several operations in a specific order, e.g. a reorganisation back and forth, a re-delivery, a replacement after an orphan, a rekey boundary crossed twice) or an unusual configuration value",
 ("s", "b"): "a crash / I/O fault / disconnect at one particular point, a particular interleaving of concurrent callers, or TWO cooperating code sites that each look fine alone (e.g. a flag set in one place and consumed in another)",
 ("p", "a"): "a particular boundary value or unusual input (a limit hit exactly, an odd count, an extreme integer, a rarely seen encoding), not the common path",
 ("p", "b"): "a rarely used code path or configuration (an alternative construction path, an old protocol version, an optional field, a secondary API that should agree with the primary one), or TWO cooperating code sites that each look fine alone",
}[("s" if stateful else "p", "a" if var in "ace" else "b")]
t = open("/verif/agent_prompts/SEED_TEMPLATE.md").read()
t = (t.replace("{WT}", wt).replace("{STATEMENT}", p["statement"]).replace("{QUANT}", p["quantifier"]["text"])
      .replace("{FILES}", ", ".join(p["anchors"]["files"])).replace("{FOCUS}", focus).replace("{PID}", pid))
open(f"/tmp/seedprompts/{name}.md", "w").write(t)
print(name)
