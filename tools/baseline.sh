#!/bin/bash
# Runs btcd's pinned baseline suite (guard OFF) exactly as /root/.vp/BASELINE.json prescribes and compares with stable_pass.
export GOPROXY=off
OUT=${1:-/tmp/baseline.gotest.json}
: > $OUT
for m in $(cat /w/out/gomods.txt); do MF=$(cd /repo/$m && . /w/out/goenv.sh && gomodflag); (cd /repo/$m && go test $MF -json -vet=off -count=1 -timeout 25m ./...) >> $OUT 2>/dev/null; done
python3 - "$OUT" <<'PY'
import json,sys
base=json.load(open('/root/.vp/BASELINE.json'))
want=set(base['stable_pass'])
got={}
for l in open(sys.argv[1]):
    try: e=json.loads(l)
    except: continue
    if e.get('Test') and e.get('Action') in('pass','fail','skip'):
        got[e['Package']+'::'+e['Test']]=e['Action']
passed={k for k,v in got.items() if v=='pass'}
missing=sorted(want-passed)
print('stable_pass',len(want),'passed now',len(passed),'missing',len(missing))
for m in missing[:60]: print('  MISSING',m,got.get(m))
PY
