#!/usr/bin/env python3
"""
confirm_seed.py <scratch-worktree> <Cxx> <name>

Confirms a seeded breaking change delivered by an independent sub-agent in its scratch worktree
(patch applied, demo files present, meta.json with demo_cmd/test_cmd), then runs ./check Cxx against
that tree (VERIF_REPO) and files everything under /verif/seeded/<name>/.

Confirmation = builds with the patch; test_cmd passes with the patch; demo_cmd fails with the patch and
passes without it.
"""
import json, os, shutil, subprocess, sys, time

wt, pid, name = sys.argv[1], sys.argv[2].upper(), sys.argv[3]
V = "/verif"
env = dict(os.environ, GOFLAGS="-mod=mod", GOPROXY="off", GOSUMDB="off", GOTOOLCHAIN="local")

def sh(cmd, cwd=wt, timeout=3600, extra=None):
    e = dict(env, **(extra or {}))
    p = subprocess.run(cmd, shell=True, cwd=cwd, env=e, stdout=subprocess.PIPE, stderr=subprocess.STDOUT, text=True, timeout=timeout)
    return p.returncode, p.stdout

meta = json.load(open(os.path.join(wt, "meta.json")))
demo_cmd, test_cmd = meta["demo_cmd"], meta.get("test_cmd", "")
res = {}
# patch.diff is the truth: normalise the scratch tree to "pristine + patch" (never use git stash: refs/stash is
# shared by all worktrees of /repo)
patch = open(os.path.join(wt, "patch.diff")).read()
shutil.copy(os.path.join(wt, "patch.diff"), "/tmp/.confirm_seed.patch")
sh("git checkout -- .")
rc, out = sh("git apply /tmp/.confirm_seed.patch")
res["patch_applies"] = rc == 0
rc, out = sh("git ls-files --others --exclude-standard")
demos = [f for f in out.split() if f not in ("patch.diff", "meta.json")]
rc, out = sh("go1.26 build ./...")
res["build_with_patch"] = rc == 0
rc, out = sh(demo_cmd); res["demo_with_patch_fails"] = rc != 0; res["demo_with_patch_tail"] = out[-600:]
if test_cmd:
    rc, out = sh(test_cmd); res["tests_with_patch_pass"] = rc == 0; res["tests_tail"] = out[-400:]
sh("git apply -R /tmp/.confirm_seed.patch")
try:
    rc, out = sh(demo_cmd); res["demo_without_patch_passes"] = rc == 0
finally:
    sh("git apply /tmp/.confirm_seed.patch")
t0 = time.time()
rc, out = sh(f"./check {pid}", cwd=V, extra={"VERIF_REPO": wt})
res["check_exit"] = rc
res["check_violation_lines"] = [l for l in out.splitlines() if l.startswith("VIOLATION")][:5]
res["check_tail"] = out[-1500:]
res["check_wall_s"] = round(time.time() - t0, 1)
dst = os.path.join(V, "seeded", name)
os.makedirs(dst, exist_ok=True)
open(os.path.join(dst, "patch.diff"), "w").write(patch)
for f in demos:
    shutil.copy(os.path.join(wt, f), os.path.join(dst, os.path.basename(f)))
meta["demo_files"] = demos
meta["confirmation"] = res
confirmed = res["patch_applies"] and res["build_with_patch"] and res["demo_with_patch_fails"] and res.get("demo_without_patch_passes") and res.get("tests_with_patch_pass", True)
meta["confirmed"] = bool(confirmed)
meta["detected"] = rc == 1 and bool(res["check_violation_lines"])
json.dump(meta, open(os.path.join(dst, "meta.json"), "w"), indent=1)
print(json.dumps({k: v for k, v in res.items() if not k.endswith("tail")}, indent=1))
print("confirmed:", meta["confirmed"], " detected:", meta["detected"])
